"""Tier E: path-sensitive effect verification of the real code (DESIGN 2.2 "Effects / ghost state").

Every control-flow path of a function of /repo is enumerated symbolically from its current AST.
Values are opaque terms (sort Py) with interpreted truthiness, integers and equality; calls to
functions named in the sidecar *effect table* append an event to the path's ghost effect log and/or
fork an exceptional edge.  The function's contract is a set of *path postconditions*: predicates over
(outcome, return value, effect log, path condition), each instance discharged by z3 (quantifier
free, so a failed obligation comes with a model = a concrete branch valuation that is replayed).
"""
import ast
import itertools

import z3

from .frontend import OutOfSubset, find_function, load_module

Py = z3.DeclareSort('Py')
truthy = z3.Function('truthy', Py, z3.BoolSort())
pyint = z3.Function('pyint', z3.IntSort(), Py)
pystr_id = {}
none_c = z3.Const('py.None', Py)
true_c = z3.Const('py.True', Py)
false_c = z3.Const('py.False', Py)
intof = z3.Function('intof', Py, z3.IntSort())
attr_fn = {}
BASE_AXIOMS = [z3.Not(truthy(none_c)), truthy(true_c), z3.Not(truthy(false_c)), none_c != true_c, none_c != false_c,
               true_c != false_c]


class Sym:
    """symbolic python value: kind 'py' (opaque), 'int', 'bool'; or a python constant (kind 'const')"""
    __slots__ = ('kind', 't', 'origin')

    def __init__(self, kind, t, origin=None):
        self.kind, self.t, self.origin = kind, t, origin

    def __repr__(self):
        return 'Sym(%s,%s)' % (self.kind, self.t)


def const(v):
    return Sym('const', v)


_str_consts = {}


def as_py(s):
    if s.kind == 'py':
        return s.t
    if s.kind == 'int':
        return pyint(s.t)
    if s.kind == 'bool':
        return z3.If(s.t, true_c, false_c)
    v = s.t
    if v is None:
        return none_c
    if v is True:
        return true_c
    if v is False:
        return false_c
    if isinstance(v, int):
        return pyint(z3.IntVal(v))
    key = repr(v)
    if key not in _str_consts:
        _str_consts[key] = z3.Const('py.const!%d' % len(_str_consts), Py)
    return _str_consts[key]


def const_axioms():
    cs = list(_str_consts.items())
    out = []
    if len(cs) > 1:
        out.append(z3.Distinct(*[c for _, c in cs] + [none_c, true_c, false_c]))
    for k, c in cs:
        v = eval(k)
        if isinstance(v, (str, tuple, list, dict, bytes)):
            out.append(truthy(c) == bool(v))
    return out


def truth(s):
    if s.kind == 'bool':
        return s.t
    if s.kind == 'int':
        return s.t != 0
    if s.kind == 'const':
        return z3.BoolVal(bool(s.t))
    return truthy(s.t)


class Effect:
    def __init__(self, name, args, kwargs, node, pc_len, result=None):
        self.name, self.args, self.kwargs, self.node, self.pc_len = name, args, kwargs, node, pc_len
        self.result = result

    def __repr__(self):
        return '%s@%s' % (self.name, getattr(self.node, 'lineno', '?'))


class PState:
    def __init__(self):
        self.env = {}
        self.pc = []
        self.effects = []
        self.trail = []      # human-readable branch decisions (for replay files)

    def fork(self):
        s = PState()
        s.env = dict(self.env)
        s.pc = list(self.pc)
        s.effects = list(self.effects)
        s.trail = list(self.trail)
        return s


class Path:
    """A finished path: outcome in {'return','raise'}; value = returned Sym or (exception name, origin)."""

    def __init__(self, st, outcome, value, node):
        self.st, self.outcome, self.value, self.node = st, outcome, value, node
        self.pc, self.effects, self.env, self.trail = st.pc, st.effects, st.env, st.trail

    def solver(self):
        s = z3.Solver()
        s.set('timeout', 5000)
        for a in BASE_AXIOMS + const_axioms():
            s.add(a)
        for c in self.pc:
            s.add(c)
        return s

    def feasible(self):
        return self.solver().check() != z3.unsat

    def entails(self, goal):
        s = self.solver()
        s.add(z3.Not(goal))
        r = s.check()
        return r == z3.unsat, (s.model() if r == z3.sat else None), str(r)

    def possible(self, cond):
        s = self.solver()
        s.add(cond)
        return s.check() == z3.sat

    def names(self):
        return [e.name for e in self.effects]


class EffectTable:
    """Sidecar declarations for external / callee behaviour (assumed contracts, listed in evidence)."""

    def __init__(self, table):
        # qualname or suffix pattern -> dict(effect=str|None, raises=bool, returns='py'|'none'|'bool'|'int', pure=bool)
        self.table = table

    def lookup(self, q):
        if q in self.table:
            return self.table[q]
        for k, v in self.table.items():
            if k.endswith('*') and q.startswith(k[:-1]):
                return v
            if k.startswith('*.') and q.endswith(k[1:]):
                return v
        return None


class PathExec:
    MAX_PATHS = 4000

    def __init__(self, qualname, table, repo=None, default_raises=True, unroll=4):
        self.qualname = qualname
        self.mod, self.fn, self.cls = find_function(qualname, repo)
        self.table = table
        self.repo = repo
        self.default_raises = default_raises
        self.counter = itertools.count()
        self.finished = []
        self.unroll = unroll
        self.notes = []
        self.local_imports = {}

    # ------------------------------------------------------------------ helpers
    def fresh(self, hint='v', kind='py'):
        n = '%s!%d' % (hint, next(self.counter))
        if kind == 'int':
            return Sym('int', z3.Int(n), hint)
        if kind == 'bool':
            return Sym('bool', z3.Bool(n), hint)
        return Sym('py', z3.Const(n, Py), hint)

    def resolve(self, node, st):
        "qualified dotted name of a Name/Attribute chain if it denotes a module-level object, else None"
        parts = []
        cur = node
        while isinstance(cur, ast.Attribute):
            parts.append(cur.attr)
            cur = cur.value
        if not isinstance(cur, ast.Name):
            return None
        if cur.id in st.env and cur.id not in self.local_imports:
            v = st.env[cur.id]
            if v.kind == 'py' and isinstance(v.origin, tuple) and parts:
                # a method of a local list/dict display or comprehension: `<display>.update(...)`
                return '<%s>.%s' % (cur.id, '.'.join(reversed(parts)))
            if v.kind == 'py' and isinstance(v.origin, str) and v.origin.startswith('param:'):
                return '<%s>.%s' % (v.origin[6:], '.'.join(reversed(parts))) if parts else None
            if v.kind == 'py' and isinstance(v.origin, str) and v.origin.startswith('local:'):
                return '<%s>.%s' % (v.origin[6:], '.'.join(reversed(parts))) if parts else None
            return None
        base = self.local_imports.get(cur.id) or self.mod.resolve(cur.id) or ('builtins.' + cur.id)
        return '.'.join([base] + list(reversed(parts)))

    def run(self):
        st = PState()
        args = self.fn.args
        for a in args.args + args.kwonlyargs:
            st.env[a.arg] = Sym('py', z3.Const('arg.' + a.arg, Py), 'param:' + a.arg)
        outs = self.block(self.fn.body, st)
        for tag, s, val, node in outs:
            if tag == 'next':
                self.finished.append(Path(s, 'return', const(None), self.fn))
            elif tag == 'return':
                self.finished.append(Path(s, 'return', val, node))
            elif tag == 'raise':
                self.finished.append(Path(s, 'raise', val, node))
            else:
                raise OutOfSubset('break/continue escaped')
        self.finished = [p for p in self.finished if p.feasible()]
        return self.finished

    # ------------------------------------------------------------------ expressions
    def ev(self, node, st, exc_out):
        """Evaluate; may append exceptional forks (state, excname, node) to exc_out. Returns Sym."""
        if isinstance(node, ast.Constant):
            return const(node.value)
        if isinstance(node, ast.Name):
            if node.id in st.env:
                return st.env[node.id]
            q = self.resolve(node, st)
            return Sym('py', z3.Const('glob.%s' % q, Py), 'global:%s' % q)
        if isinstance(node, ast.Attribute):
            base = self.ev(node.value, st, exc_out)
            if base.kind == 'const':
                raise OutOfSubset('attribute of constant')
            f = attr_fn.setdefault(node.attr, z3.Function('attr.' + node.attr, Py, Py))
            org = None
            if base.origin:
                org = base.origin + '.' + node.attr
            return Sym('py', f(as_py(base)), org)
        if isinstance(node, ast.IfExp):
            c = truth(self.ev(node.test, st, exc_out))
            a = self.ev(node.body, st, exc_out)
            b = self.ev(node.orelse, st, exc_out)
            if a.kind == 'const' and b.kind == 'const' and isinstance(a.t, int) and isinstance(b.t, int) \
                    and not isinstance(a.t, bool) and not isinstance(b.t, bool):
                return Sym('int', z3.If(c, z3.IntVal(a.t), z3.IntVal(b.t)))
            return Sym('py', z3.If(c, as_py(a), as_py(b)))
        if isinstance(node, ast.UnaryOp) and isinstance(node.op, ast.Not):
            return Sym('bool', z3.Not(truth(self.ev(node.operand, st, exc_out))))
        if isinstance(node, ast.BoolOp):
            syms = [self.ev(v, st, exc_out) for v in node.values]
            if all(x.kind == 'const' for x in syms):
                r = syms[0].t
                for x in syms[1:]:
                    r = (r and x.t) if isinstance(node.op, ast.And) else (r or x.t)
                return const(r)
            vals = [truth(x) for x in syms]
            return Sym('bool', z3.And(*vals) if isinstance(node.op, ast.And) else z3.Or(*vals))
        if isinstance(node, ast.Compare):
            left = self.ev(node.left, st, exc_out)
            terms = []
            for op, rn in zip(node.ops, node.comparators):
                right = self.ev(rn, st, exc_out)
                terms.append(self.cmp(op, left, right))
                left = right
            return Sym('bool', z3.And(*terms) if len(terms) > 1 else terms[0])
        if isinstance(node, ast.Call):
            return self.call(node, st, exc_out)
        if isinstance(node, (ast.Tuple, ast.List)):
            vals = [self.ev(e, st, exc_out) for e in node.elts]
            if all(v.kind == 'const' for v in vals):
                return const(tuple(v.t for v in vals) if isinstance(node, ast.Tuple) else [v.t for v in vals])
            s = self.fresh('seq')
            s.origin = ('elts', vals)
            return s
        if isinstance(node, ast.BinOp):
            a = self.ev(node.left, st, exc_out)
            b = self.ev(node.right, st, exc_out)
            if a.kind == 'const' and b.kind == 'const':
                import operator as _op
                fn = {ast.Add: _op.add, ast.Sub: _op.sub, ast.Mult: _op.mul, ast.Mod: _op.mod}.get(type(node.op))
                if fn is not None:
                    try:
                        return const(fn(a.t, b.t))
                    except Exception:
                        pass
            op = type(node.op).__name__
            f = z3.Function('binop.' + op, Py, Py, Py)
            r = Sym('py', f(as_py(a), as_py(b)))
            if a.origin and isinstance(a.origin, tuple) and a.origin[0] == 'elts' and b.origin and isinstance(b.origin, tuple) \
                    and b.origin[0] == 'elts' and isinstance(node.op, ast.Add):
                r.origin = ('elts', a.origin[1] + b.origin[1])
            elif isinstance(node.op, ast.Add) and a.origin and isinstance(a.origin, tuple) and a.origin[0] == 'elts' \
                    and b.kind == 'const' and isinstance(b.t, list):
                r.origin = ('elts', a.origin[1] + [const(x) for x in b.t])
            elif isinstance(node.op, ast.Add) and b.origin and isinstance(b.origin, tuple) and b.origin[0] == 'elts' \
                    and a.kind == 'const' and isinstance(a.t, list):
                r.origin = ('elts', [const(x) for x in a.t] + b.origin[1])
            return r
        if isinstance(node, ast.Subscript):
            base = self.ev(node.value, st, exc_out)
            if isinstance(node.slice, ast.Slice):
                return self.fresh('slice')
            idx = self.ev(node.slice, st, exc_out)
            if base.kind == 'const' and idx.kind == 'const':
                return const(base.t[idx.t])
            f = z3.Function('getitem', Py, Py, Py)
            self.maybe_raise(st, exc_out, 'KeyError/IndexError', node)
            return Sym('py', f(as_py(base), as_py(idx)))
        if isinstance(node, ast.Yield):
            v = self.ev(node.value, st, exc_out) if node.value is not None else const(None)
            depth = sum(1 for e in st.effects if e.name.endswith('_enter')) - sum(1 for e in st.effects if e.name.endswith('_exit'))
            st.effects.append(Effect('yield', [v], {'cm_depth': const(depth)}, node, len(st.pc)))
            # the consumer may throw into the generator or close it (GeneratorExit) at the yield point
            s2 = st.fork()
            s2.trail.append('exception thrown into the generator at the yield (line %d)' % node.lineno)
            exc_out.append((s2, 'GeneratorExit', node))
            return self.fresh('sent')
        if isinstance(node, ast.Starred):
            return self.ev(node.value, st, exc_out)
        if isinstance(node, ast.Dict) and all(isinstance(k, ast.Constant) for k in node.keys):
            d = self.fresh('dict')
            d.origin = ('dict', {k.value: self.ev(v, st, exc_out) for k, v in zip(node.keys, node.values)})
            return d
        if isinstance(node, (ast.ListComp, ast.GeneratorExp, ast.DictComp, ast.SetComp, ast.Lambda, ast.JoinedStr, ast.Dict, ast.Set)):
            return self.fresh(type(node).__name__.lower())
        raise OutOfSubset('expression %s at line %s' % (type(node).__name__, getattr(node, 'lineno', '?')))

    def cmp(self, op, a, b):
        if isinstance(op, (ast.Eq, ast.Is)):
            if a.kind == 'const' and b.kind == 'const':
                return z3.BoolVal(a.t == b.t)
            if a.kind == 'int' or b.kind == 'int':
                return self.to_int(a) == self.to_int(b)
            return as_py(a) == as_py(b)
        if isinstance(op, (ast.NotEq, ast.IsNot)):
            return z3.Not(self.cmp(ast.Eq(), a, b))
        if isinstance(op, (ast.In, ast.NotIn)):
            if b.kind == 'const' and isinstance(b.t, (tuple, list)):
                r = z3.Or(*[self.cmp(ast.Eq(), a, const(x)) for x in b.t]) if b.t else z3.BoolVal(False)
            else:
                f = z3.Function('contains', Py, Py, z3.BoolSort())
                r = f(as_py(b), as_py(a))
            return r if isinstance(op, ast.In) else z3.Not(r)
        x, y = self.to_int(a), self.to_int(b)
        return {ast.Lt: x < y, ast.LtE: x <= y, ast.Gt: x > y, ast.GtE: x >= y}[type(op)]

    def to_int(self, s):
        if s.kind == 'int':
            return s.t
        if s.kind == 'const' and isinstance(s.t, int):
            return z3.IntVal(int(s.t))
        return intof(as_py(s))

    def maybe_raise(self, st, exc_out, name, node):
        if self.default_raises:
            s2 = st.fork()
            s2.trail.append('raise %s at line %s' % (name, getattr(node, 'lineno', '?')))
            exc_out.append((s2, name, node))

    def call(self, node, st, exc_out):
        q = self.resolve(node.func, st)
        args = [self.ev(a, st, exc_out) for a in node.args if not isinstance(a, ast.Starred)]
        kwargs = {k.arg: self.ev(k.value, st, exc_out) for k in node.keywords if k.arg}
        if q is None:
            # method call on a computed object
            if isinstance(node.func, ast.Attribute):
                base = self.ev(node.func.value, st, exc_out)
                q = '<obj>.%s' % node.func.attr
                args = [base] + args
            else:
                q = '<dynamic>'
        elif q.startswith('<') and isinstance(node.func, ast.Attribute):
            # method call on a parameter / local object: the receiver is the first argument
            args = [self.ev(node.func.value, st, exc_out)] + args
        spec = self.table.lookup(q) or {}
        # builtins with interpreted meaning
        if q == 'builtins.len' and args:
            return Sym('int', intof(as_py(self.fresh('len'))))
        if q == 'builtins.isinstance':
            return self.fresh('isinstance', 'bool')
        if q == 'builtins.bool' and args:
            return Sym('bool', truth(args[0]))
        ret = spec.get('returns', 'py')
        # list.append on a tracked list variable extends the tracked elements
        if isinstance(node.func, ast.Attribute) and node.func.attr == 'append' and isinstance(node.func.value, ast.Name) \
                and node.func.value.id in st.env and len(node.args) == 1:
            cur = st.env[node.func.value.id]
            elts = None
            if cur.kind == 'const' and isinstance(cur.t, list):
                elts = [const(x) for x in cur.t]
            elif isinstance(cur.origin, tuple) and cur.origin[0] == 'elts':
                elts = list(cur.origin[1])
            if elts is not None:
                new = self.fresh('list')
                new.origin = ('elts', elts + [args[-1]])
                st.env[node.func.value.id] = new
                return const(None)
        pure = spec is not None and spec.get('effect') is None and spec.get('raises') is False and ret == 'py' and q not in ('<dynamic>',)
        if ret == 'none':
            r = const(None)
        elif pure and args is not None:
            f = z3.Function('fn.' + q, *([Py] * (len(args) + len(kwargs)) + [Py]))
            r = Sym('py', f(*([as_py(a) for a in args] + [as_py(kwargs[k]) for k in sorted(kwargs)])) if (args or kwargs) else z3.Const('fn0.' + q, Py), 'call:' + q)
        else:
            r = self.fresh(q.split('.')[-1], 'bool' if ret == 'bool' else ('int' if ret == 'int' else 'py'))
            r.origin = 'call:' + q
        if spec.get('effect'):
            st.effects.append(Effect(spec['effect'], args, kwargs, node, len(st.pc), r))
        raises = spec.get('raises', self.default_raises)
        if raises:
            s2 = st.fork()
            s2.trail.append('exception in %s at line %s' % (q, node.lineno))
            if spec.get('effect') and spec.get('effect_on_raise', True) is False:
                s2.effects.pop()
            if spec.get('effect_partial'):
                s2.effects[-1] = Effect(spec['effect_partial'], args, kwargs, node, len(s2.pc))
            exc_out.append((s2, spec.get('exc', 'Exception') + ':' + q, node))
        return r

    # ------------------------------------------------------------------ statements
    def block(self, stmts, st):
        """returns list of (tag, state, value, node) with tag in next/return/raise/break/continue"""
        active = [st]
        done = []
        for stmt in stmts:
            nxt = []
            for s in active:
                for tag, s2, val, node in self.stmt(stmt, s):
                    if tag == 'next':
                        nxt.append(s2)
                    else:
                        done.append((tag, s2, val, node))
            active = nxt
            if len(active) + len(done) > self.MAX_PATHS:
                raise OutOfSubset('path explosion')
            if not active:
                break
        done.extend(('next', s, None, None) for s in active)
        return done

    def with_exc(self, st, fn):
        """run fn(exc_out) -> list of normal results; convert collected exceptional forks to raise outcomes"""
        exc = []
        res = fn(exc)
        return res + [('raise', s, (name, node), node) for s, name, node in exc]

    def stmt(self, node, st):
        m = getattr(self, 's_' + type(node).__name__, None)
        if m is None:
            raise OutOfSubset('statement %s at line %d' % (type(node).__name__, node.lineno))
        return m(node, st)

    def s_ClassDef(self, node, st):
        # a class defined inside the function (a local helper type): the name is bound to an opaque value; nothing of its body runs here,
        # instances and their methods are unknown callees like any other
        st.env[node.name] = self.fresh('class_' + node.name)
        return [('next', st, None, None)]

    def s_Pass(self, node, st):
        return [('next', st, None, None)]

    def s_Global(self, node, st):
        return [('next', st, None, None)]

    def s_Import(self, node, st):
        for a in node.names:
            self.local_imports[a.asname or a.name.split('.')[0]] = a.name if a.asname else a.name.split('.')[0]
        return [('next', st, None, None)]

    def s_ImportFrom(self, node, st):
        base = node.module or ''
        if node.level:
            pkg = self.mod.package.split('.')
            if node.level > 1:
                pkg = pkg[:-(node.level - 1)]
            base = '.'.join(pkg + ([node.module] if node.module else []))
        for a in node.names:
            self.local_imports[a.asname or a.name] = base + '.' + a.name
            st.env.pop(a.asname or a.name, None)
        return [('next', st, None, None)]

    def s_FunctionDef(self, node, st):
        st.env[node.name] = self.fresh('localfn')
        return [('next', st, None, None)]

    def s_Expr(self, node, st):
        if isinstance(node.value, ast.Constant):
            return [('next', st, None, None)]
        return self.with_exc(st, lambda exc: (self.ev(node.value, st, exc), [('next', st, None, None)])[1])

    def s_Assign(self, node, st):
        def go(exc):
            v = self.ev(node.value, st, exc)
            for t in node.targets:
                self.assign(t, v, st, exc)
            return [('next', st, None, None)]
        return self.with_exc(st, go)

    def s_AugAssign(self, node, st):
        def go(exc):
            v = self.ev(node.value, st, exc)
            if isinstance(node.target, ast.Name):
                cur = st.env.get(node.target.id)
                if cur is not None and cur.kind == 'const' and v.kind == 'const' and isinstance(node.op, ast.Add):
                    try:
                        st.env[node.target.id] = const(cur.t + v.t)
                        return [('next', st, None, None)]
                    except Exception:
                        pass
                st.env[node.target.id] = self.fresh(node.target.id)
            return [('next', st, None, None)]
        return self.with_exc(st, go)

    def assign(self, target, v, st, exc):
        if isinstance(target, ast.Name):
            if v.kind == 'py' and (v.origin is None or isinstance(v.origin, str) and v.origin.startswith('call:')):
                v = Sym('py', v.t, 'local:' + target.id) if v.origin is None else v
            st.env[target.id] = v
        elif isinstance(target, (ast.Tuple, ast.List)):
            if v.kind == 'const' and isinstance(v.t, (tuple, list)) and len(v.t) == len(target.elts):
                for t, x in zip(target.elts, v.t):
                    self.assign(t, const(x), st, exc)
            else:
                for k, t in enumerate(target.elts):
                    f = z3.Function('unpack.%d' % k, Py, Py)
                    self.assign(t, Sym('py', f(as_py(v)), None), st, exc)
        elif isinstance(target, ast.Attribute):
            base = self.ev(target.value, st, exc)
            st.effects.append(Effect('setattr', [base, const(target.attr), v], {}, target, len(st.pc)))
        elif isinstance(target, ast.Subscript):
            base = self.ev(target.value, st, exc)
            idx = self.ev(target.slice, st, exc) if not isinstance(target.slice, ast.Slice) else const('slice')
            st.effects.append(Effect('setitem', [base, idx, v], {}, target, len(st.pc)))
        else:
            raise OutOfSubset('assignment target')

    def s_Return(self, node, st):
        def go(exc):
            v = self.ev(node.value, st, exc) if node.value is not None else const(None)
            return [('return', st, v, node)]
        return self.with_exc(st, go)

    def s_Raise(self, node, st):
        def go(exc):
            name = 're-raise'
            if node.exc is not None:
                name = ast.unparse(node.exc.func) if isinstance(node.exc, ast.Call) else ast.unparse(node.exc)
                if isinstance(node.exc, ast.Call):
                    for a in node.exc.args:
                        try:
                            self.ev(a, st, [])
                        except OutOfSubset:
                            pass
            return [('raise', st, (name, node), node)]
        return self.with_exc(st, go)

    def s_Assert(self, node, st):
        def go(exc):
            c = truth(self.ev(node.test, st, exc))
            s2 = st.fork()
            s2.pc.append(z3.Not(c))
            s2.trail.append('assert fails at line %d' % node.lineno)
            st.pc.append(c)
            return [('next', st, None, None), ('raise', s2, ('AssertionError', node), node)]
        return self.with_exc(st, go)

    def s_If(self, node, st):
        exc = []
        c = truth(self.ev(node.test, st, exc))
        s1, s2 = st, st.fork()
        s1.pc.append(c)
        s1.trail.append('line %d: %s is true' % (node.lineno, ast.unparse(node.test)[:60]))
        s2.pc.append(z3.Not(c))
        s2.trail.append('line %d: %s is false' % (node.lineno, ast.unparse(node.test)[:60]))
        out = [('raise', s, (name, n), n) for s, name, n in exc]
        if self.quick_feasible(s1):
            out += self.block(node.body, s1)
        if self.quick_feasible(s2):
            out += self.block(node.orelse, s2) if node.orelse else [('next', s2, None, None)]
        return out

    def quick_feasible(self, st):
        s = z3.Solver()
        s.set('timeout', 200)
        for a in BASE_AXIOMS:
            s.add(a)
        for c in st.pc:
            s.add(c)
        return s.check() != z3.unsat

    def s_For(self, node, st):
        exc = []
        it = self.ev(node.iter, st, exc)
        out = [('raise', s, (name, n), n) for s, name, n in exc]
        elems = None
        if it.kind == 'const' and isinstance(it.t, (tuple, list)):
            elems = [const(x) for x in it.t]
        elif isinstance(it.origin, tuple) and it.origin[0] == 'elts':
            elems = it.origin[1]
        if elems is not None:
            active = [st]
            for e in elems:
                nxt = []
                for s in active:
                    ex2 = []
                    self.assign(node.target, e, s, ex2)
                    for tag, s2, val, n in self.block(node.body, s):
                        if tag in ('next', 'continue'):
                            nxt.append(s2)
                        elif tag == 'break':
                            out.append(('next', s2, None, None))
                        else:
                            out.append((tag, s2, val, n))
                active = nxt
            out += [('next', s, None, None) for s in active]
            if node.orelse:
                raise OutOfSubset('for-else')
            return out
        # unknown iterable: 0, 1 or 2 iterations (effects of further iterations repeat those of the second);
        # sound for the path postconditions used here, which are stated per effect, not per count
        note = 'loop at line %d abstracted to 0..2 iterations' % node.lineno
        if note not in self.notes:
            self.notes.append(note)
        active = [st]
        for k in range(2):
            nxt = []
            for s in active:
                skip = s.fork()
                skip.trail.append('loop line %d: stop after %d iteration(s)' % (node.lineno, k))
                out.append(('next', skip, None, None))
                self.assign(node.target, self.fresh('item'), s, [])
                for tag, s2, val, n in self.block(node.body, s):
                    if tag in ('next', 'continue'):
                        nxt.append(s2)
                    elif tag == 'break':
                        out.append(('next', s2, None, None))
                    else:
                        out.append((tag, s2, val, n))
            active = nxt
        out += [('next', s, None, None) for s in active]
        return out

    def s_With(self, node, st):
        if len(node.items) != 1:
            raise OutOfSubset('multi-item with')
        item = node.items[0]
        exc = []
        cm = self.ev(item.context_expr, st, exc)
        out = [('raise', s, (name, n), n) for s, name, n in exc]
        q = self.resolve(item.context_expr.func, st) if isinstance(item.context_expr, ast.Call) else None
        spec = (self.table.lookup(q) or {}) if q else {}
        if item.optional_vars is not None:
            self.assign(item.optional_vars, cm, st, [])
        exit_eff = spec.get('exit_effect')
        for tag, s2, val, n in self.block(node.body, st):
            if exit_eff:
                s2.effects.append(Effect(exit_eff, [cm], {}, node, len(s2.pc)))
            out.append((tag, s2, val, n))
        return out

    def s_Try(self, node, st):
        out = []
        body = self.block(node.body, st)
        after_body = []
        for tag, s, val, n in body:
            if tag == 'raise':
                handled = False
                name = val[0]
                for h in node.handlers:
                    hname = ast.unparse(h.type) if h.type is not None else 'BaseException'
                    if self.catches(hname, name):
                        s2 = s.fork()
                        s2.trail.append('caught by except %s at line %d' % (hname, h.lineno))
                        s2.effects.append(Effect('except', [const(hname), const(name)], {}, h, len(s2.pc)))
                        if h.name:
                            s2.env[h.name] = self.fresh('exc')
                        after_body += self.block(h.body, s2)
                        handled = handled or self.catches_all(hname, name)
                        if handled:
                            break
                if not handled:
                    after_body.append((tag, s, val, n))
            elif tag == 'next' and node.orelse:
                after_body += self.block(node.orelse, s)
            else:
                after_body.append((tag, s, val, n))
        if not node.finalbody:
            return after_body
        for tag, s, val, n in after_body:
            for t2, s2, v2, n2 in self.block(node.finalbody, s):
                if t2 == 'next':
                    out.append((tag, s2, val, n))
                else:
                    out.append((t2, s2, v2, n2))
        return out

    def catches(self, handler, exc):
        "may this handler catch an exception described by `exc`?"
        if handler in ('BaseException',):
            return True
        ename = exc.split(':')[0]
        if handler == 'Exception':
            return ename not in ('KeyboardInterrupt', 'SystemExit', 'GeneratorExit')
        names = [h.strip().split('.')[-1] for h in handler.strip('()').split(',')]
        if ename in ('Exception',):
            return True       # an unspecified exception may be of the handled class
        return ename.split('.')[-1] in names or any(x in ename for x in names)

    def catches_all(self, handler, exc):
        "does this handler certainly catch it (no path continues propagating)?"
        ename = exc.split(':')[0]
        if handler == 'BaseException':
            return True
        if handler == 'Exception':
            return ename not in ('KeyboardInterrupt', 'SystemExit', 'GeneratorExit', 'Exception')
        names = [h.strip().split('.')[-1] for h in handler.strip('()').split(',')]
        return ename.split('.')[-1] in names

    def s_Break(self, node, st):
        return [('break', st, None, node)]

    def s_Continue(self, node, st):
        return [('continue', st, None, node)]


# ------------------------------------------------------------------------------------------

class PathObligation:
    def __init__(self, oid, func, text, ok, detail, trail, model=None):
        self.id, self.func, self.text, self.ok, self.detail, self.trail, self.model = oid, func, text, ok, detail, trail, model


def verify_paths(qualname, table, postconditions, repo=None, default_raises=True):
    """postconditions: list of (name, fn(path) -> (ok: bool, detail: str) | None).
    Every (path, postcondition) pair is one obligation."""
    ex = PathExec(qualname, EffectTable(table), repo, default_raises)
    paths = ex.run()
    obls = []
    for pi, p in enumerate(paths):
        for name, fn in postconditions:
            r = fn(p)
            if r is None:
                continue
            ok, detail = r
            obls.append(PathObligation('%s#path%d.%s' % (qualname, pi, name), qualname, name, ok, detail, list(p.trail)))
    return paths, obls, ex.notes
