"""Kit F: global-state frame analysis (DESIGN 2.4) for C12/C13.

Mechanical inventory, recomputed from /repo's current sources on every run, of
  * module-level mutable objects (list/dict/set literals, defaultdict/defaultdict2/deque/Counter calls,
    instances of project classes), functions wrapped in lru_cache/cache, attributes set on functions,
    `global` rebinding, and mutable default arguments;
  * every access site of such an object anywhere in the package: writes (subscript/attribute store, del,
    augmented assignment, mutating method) and history-dependent reads (membership, iteration, len, copy,
    keys/items/values, bool test).
The sidecar contract (contracts/kit_f.py) declares, per object, which functions may write it and which
history-dependent reads are justified.  One obligation per site: the site lies in a declared writer /
reader.  An object or site that the contract does not know fails its obligation.
"""
import ast
import os

MUTATORS = {'append', 'extend', 'insert', 'pop', 'popitem', 'remove', 'clear', 'update', 'setdefault', 'add', 'discard',
            'sort', 'reverse', 'appendleft', 'popleft', '__setitem__', '__delitem__', 'cache_clear'}
HISTORY_READS = {'copy', 'keys', 'items', 'values', 'get', '__contains__', '__len__', '__iter__', 'cache_info'}
MUTABLE_CALLS = {'list', 'dict', 'set', 'defaultdict', 'defaultdict2', 'deque', 'Counter', 'OrderedDict', 'Strategies', 'DiffConfig',
                 'PrettyPrintConfig'}


APP_SETTINGS = 'nbdime.webapp.<application settings>'
APP_PARAMS = 'nbdime.webapp.<server start-up parameters>'

# objects reached through a parameter: `<anything>.predicates` / `.differs` of a DiffConfig are (in notebook diffing) the
# module-level tables of nbdime.diffing.notebooks
ALIASES = {
    '.predicates': 'nbdime.diffing.notebooks.notebook_predicates',
    '.differs': 'nbdime.diffing.notebooks.notebook_differs',
    '._atomic_paths': 'nbdime.diffing.notebooks.notebook_config._atomic_paths',
    # state that lives as long as the web application and is shared by all requests: tornado's application settings and the
    # start-up parameters every handler is initialised with
    '.settings': APP_SETTINGS,
    '.application': APP_SETTINGS,
    '.params': APP_PARAMS,
}


def package_files(repo, pkg='nbdime'):
    root = os.path.join(repo, pkg)
    for dp, dn, fn in os.walk(root):
        dn[:] = [d for d in dn if d not in ('tests', '__pycache__', 'static', 'templates', 'labextension', 'notebook_ext')]
        for f in sorted(fn):
            if f.endswith('.py'):
                path = os.path.join(dp, f)
                mod = os.path.relpath(path, repo)[:-3].replace(os.sep, '.')
                if mod.endswith('.__init__'):
                    mod = mod[:-9]
                yield mod, path


class Site:
    def __init__(self, obj, kind, where, line, text):
        self.obj, self.kind, self.where, self.line, self.text = obj, kind, where, line, text

    def key(self):
        return (self.obj, self.kind, self.where)

    def __repr__(self):
        return '%s %s in %s:%d  %s' % (self.kind, self.obj, self.where, self.line, self.text)


def _is_mutable_value(node):
    if isinstance(node, (ast.List, ast.Dict, ast.Set, ast.ListComp, ast.DictComp, ast.SetComp)):
        return True
    if isinstance(node, ast.Call):
        f = node.func
        name = f.id if isinstance(f, ast.Name) else (f.attr if isinstance(f, ast.Attribute) else None)
        return name in MUTABLE_CALLS
    return False


def _decorated_cache(fn):
    for d in fn.decorator_list:
        t = ast.unparse(d)
        if 'lru_cache' in t or t.endswith('cache') or 'functools.cache' in t:
            return True
    return False


def inventory(repo):
    """Returns (objects: {qualname: description}, sites: [Site], defaults: [Site])."""
    objects = {}
    trees = {}
    for mod, path in package_files(repo):
        with open(path) as fh:
            src = fh.read()
        try:
            tree = ast.parse(src, path)
        except SyntaxError:
            continue
        trees[mod] = tree
        for node in tree.body:
            if isinstance(node, ast.Assign) and len(node.targets) == 1 and isinstance(node.targets[0], ast.Name):
                if _is_mutable_value(node.value):
                    objects['%s.%s' % (mod, node.targets[0].id)] = 'module-level %s' % type(node.value).__name__ + \
                        (':' + ast.unparse(node.value.func) if isinstance(node.value, ast.Call) else '')
            elif isinstance(node, ast.FunctionDef) and _decorated_cache(node):
                objects['%s.%s' % (mod, node.name)] = 'lru_cache wrapper'
            elif isinstance(node, ast.ClassDef):
                for sub in node.body:
                    if isinstance(sub, ast.Assign) and len(sub.targets) == 1 and isinstance(sub.targets[0], ast.Name) \
                            and _is_mutable_value(sub.value):
                        objects['%s.%s.%s' % (mod, node.name, sub.targets[0].id)] = 'class-level mutable'
                    if isinstance(sub, ast.FunctionDef) and _decorated_cache(sub):
                        objects['%s.%s.%s' % (mod, node.name, sub.name)] = 'lru_cache wrapper (method)'
        # nested cached functions and function attributes
        for node in ast.walk(tree):
            if isinstance(node, ast.FunctionDef) and _decorated_cache(node):
                q = '%s.%s' % (mod, node.name)
                objects.setdefault(q, 'lru_cache wrapper')
    sites, defaults = [], []
    shortnames = {}
    for q in objects:
        shortnames.setdefault(q.rsplit('.', 1)[-1], []).append(q)
    for mod, tree in trees.items():
        # names imported into this module
        imported = {}
        for node in ast.walk(tree):
            if isinstance(node, ast.ImportFrom):
                for a in node.names:
                    imported[a.asname or a.name] = a.name
        for fn, qual in _functions(tree, mod):
            # mutable default arguments
            args = fn.args
            for d in list(args.defaults) + [k for k in args.kw_defaults if k is not None]:
                if isinstance(d, (ast.List, ast.Dict, ast.Set)) or (isinstance(d, ast.Call) and _is_mutable_value(d)):
                    defaults.append(Site('%s(default)' % qual, 'mutable-default', qual, fn.lineno, ast.unparse(d)))
                elif isinstance(d, ast.Name) and d.id in shortnames:
                    defaults.append(Site('%s(default=%s)' % (qual, d.id), 'shared-default', qual, fn.lineno, d.id))
            local_assigned = {n.id for n in ast.walk(fn) if isinstance(n, ast.Name) and isinstance(n.ctx, ast.Store)}
            local_assigned |= {a.arg for a in fn.args.args + fn.args.kwonlyargs}
            globals_decl = set()
            for n in ast.walk(fn):
                if isinstance(n, ast.Global):
                    globals_decl.update(n.names)
            # local names bound to an aliased table:  predicates = config.predicates
            local_alias = {}
            for n in ast.walk(fn):
                if isinstance(n, ast.Assign) and len(n.targets) == 1 and isinstance(n.targets[0], ast.Name):
                    d = _dotted(n.value)
                    if d:
                        for suffix, tq in ALIASES.items():
                            if d.endswith(suffix):
                                local_alias[n.targets[0].id] = tq
            for n in ast.walk(fn):
                for obj, kind, text in _accesses(n, fn):
                    base = obj.split('.')[0]
                    alias = [tq for suffix, tq in ALIASES.items() if obj.endswith(suffix)]
                    if not alias and obj in local_alias:
                        alias = [local_alias[obj]]
                    if alias:
                        for t in alias:
                            sites.append(Site(t, kind, qual, getattr(n, 'lineno', fn.lineno), text))
                        continue
                    if base in local_assigned and base not in globals_decl:
                        continue
                    targets = []
                    if '%s.%s' % (mod, obj) in objects:
                        targets = ['%s.%s' % (mod, obj)]
                    elif base in imported and imported[base] in shortnames and '.' not in obj:
                        targets = shortnames[imported[base]]
                    elif '.' in obj:
                        # attribute of an imported module / class: match by last two components
                        for q in objects:
                            if q.endswith('.' + obj) or q.endswith('.' + obj.split('.', 1)[1]):
                                targets.append(q)
                    for t in targets:
                        sites.append(Site(t, kind, qual, getattr(n, 'lineno', fn.lineno), text))
                # function attributes: f.attr = value
                if isinstance(n, ast.Assign):
                    for t in n.targets:
                        if isinstance(t, ast.Attribute) and isinstance(t.value, ast.Name) and t.value.id not in local_assigned \
                                and t.value.id not in ('self', 'cls'):
                            name = '%s.%s.%s' % (mod, t.value.id, t.attr)
                            if any(isinstance(x, ast.FunctionDef) and x.name == t.value.id for x in ast.walk(tree)):
                                objects.setdefault(name, 'function attribute')
                                sites.append(Site(name, 'write', qual, n.lineno, ast.unparse(n)[:80]))
            for g in globals_decl:
                for n in ast.walk(fn):
                    if isinstance(n, ast.Name) and n.id == g and isinstance(n.ctx, ast.Store):
                        name = '%s.%s' % (mod, g)
                        objects.setdefault(name, 'module-level name rebound through `global`')
                        sites.append(Site(name, 'write', qual, n.lineno, 'global %s rebinding' % g))
    for s in sites:
        if s.obj in (APP_SETTINGS, APP_PARAMS):
            objects.setdefault(s.obj, 'application-lived object shared by all requests (reached through handler attributes)')
    return objects, sites, defaults


def _functions(tree, mod):
    out = []

    def walk(node, prefix):
        for sub in ast.iter_child_nodes(node):
            if isinstance(sub, (ast.FunctionDef, ast.AsyncFunctionDef)):
                out.append((sub, prefix + sub.name))
                walk(sub, prefix + sub.name + '.')
            elif isinstance(sub, ast.ClassDef):
                walk(sub, prefix + sub.name + '.')
            elif not isinstance(sub, (ast.expr,)):
                walk(sub, prefix)
    walk(tree, mod + '.')
    # module level code as pseudo-function
    modfn = ast.FunctionDef(name='<module>', args=ast.arguments(posonlyargs=[], args=[], kwonlyargs=[], kw_defaults=[], defaults=[]),
                            body=[n for n in tree.body if not isinstance(n, (ast.FunctionDef, ast.ClassDef))], decorator_list=[], lineno=1)
    out.append((modfn, mod + '.<module>'))
    return out


def _dotted(node):
    parts = []
    while isinstance(node, ast.Attribute):
        parts.append(node.attr)
        node = node.value
    if isinstance(node, ast.Name):
        parts.append(node.id)
        return '.'.join(reversed(parts))
    return None


def _accesses(n, fn):
    """yield (object expression, kind, text) for a node"""
    if isinstance(n, (ast.Assign, ast.AugAssign, ast.Delete)):
        targets = n.targets if isinstance(n, (ast.Assign, ast.Delete)) else [n.target]
        for t in targets:
            if isinstance(t, ast.Subscript):
                d = _dotted(t.value)
                if d:
                    yield d, 'write', ast.unparse(n)[:80]
            elif isinstance(t, ast.Attribute):
                d = _dotted(t.value)
                if d:
                    yield d, 'write', ast.unparse(n)[:80]
    elif isinstance(n, ast.Call) and isinstance(n.func, ast.Attribute):
        d = _dotted(n.func.value)
        if d:
            if n.func.attr in MUTATORS:
                yield d, 'write', ast.unparse(n)[:80]
            elif n.func.attr in HISTORY_READS:
                yield d, 'history-read', ast.unparse(n)[:80]
    elif isinstance(n, ast.Compare):
        for op, c in zip(n.ops, n.comparators):
            if isinstance(op, (ast.In, ast.NotIn)):
                d = _dotted(c)
                if d:
                    yield d, 'history-read', ast.unparse(n)[:80]
    elif isinstance(n, (ast.For, ast.comprehension)):
        d = _dotted(n.iter)
        if d:
            yield d, 'history-read', 'iteration over ' + d
    elif isinstance(n, ast.Subscript) and isinstance(n.ctx, ast.Load):
        d = _dotted(n.value)
        if d:
            yield d, 'subscript-read', ast.unparse(n)[:80]
    elif isinstance(n, ast.Call) and isinstance(n.func, ast.Name) and n.func.id in ('len', 'list', 'tuple', 'sorted', 'dict', 'set', 'bool') and n.args:
        d = _dotted(n.args[0])
        if d:
            yield d, 'history-read', ast.unparse(n)[:80]


SAFE_CALLS = {'len', 'list', 'tuple', 'sorted', 'dict', 'set', 'frozenset', 'bool', 'enumerate', 'any', 'all', 'max', 'min', 'sum', 'zip',
              'iter', 'reversed', 'isinstance', 'str', 'repr', 'print', 'map', 'filter'}


def escapes(repo):
    """{qualified object name: [(where, line, text)]} -- uses of a module-level mutable object through which it can come to be known
    under another name (bound to a variable, passed to a function, returned, stored in a container, augmented in place): after
    such a use the write sites found by name no longer bound what can change it.  Uses that cannot alias are: subscripting, calling a
    method on it (mutating methods are write sites of their own), membership tests, iteration, operands of a binary operator (the
    result is a new object), */** unpacking, and arguments of the copying/reducing builtins in SAFE_CALLS."""
    objects, _, _ = inventory(repo)
    short = {}
    for q, desc in objects.items():
        if desc.startswith('module-level') and 'global' not in desc:
            short.setdefault(q.rsplit('.', 1)[-1], []).append(q)
    out = {}
    for mod, path in package_files(repo):
        with open(path) as fh:
            try:
                tree = ast.parse(fh.read(), path)
            except SyntaxError:
                continue
        imported = {}
        for node in ast.walk(tree):
            if isinstance(node, ast.ImportFrom):
                for a in node.names:
                    imported[a.asname or a.name] = a.name
        parent = {}
        for node in ast.walk(tree):
            for ch in ast.iter_child_nodes(node):
                parent[ch] = node
        for node in ast.walk(tree):
            if not (isinstance(node, ast.Name) and isinstance(node.ctx, ast.Load)):
                continue
            name = node.id
            if '%s.%s' % (mod, name) in objects:
                targets = ['%s.%s' % (mod, name)]
            elif name in imported and imported[name] in short:
                targets = short[imported[name]]
            else:
                continue
            targets = [t for t in targets if t.rsplit('.', 1)[-1] in short]
            p = parent.get(node)
            ok = False
            if isinstance(p, ast.Subscript) and p.value is node:
                ok = True
            elif isinstance(p, ast.Attribute) and p.value is node:
                ok = True
            elif isinstance(p, ast.Compare) and node in p.comparators:
                ok = True
            elif isinstance(p, (ast.For, ast.comprehension)) and p.iter is node:
                ok = True
            elif isinstance(p, ast.BinOp):
                ok = True
            elif isinstance(p, ast.Starred) or (isinstance(p, ast.keyword) and p.arg is None):
                ok = True
            elif isinstance(p, ast.Call) and node in p.args and isinstance(p.func, ast.Name) and p.func.id in SAFE_CALLS:
                ok = True
            elif isinstance(p, ast.Call) and node in p.args and isinstance(p.func, ast.Attribute) and p.func.attr in ('join', 'format'):
                ok = True
            elif isinstance(p, (ast.If, ast.While, ast.IfExp)) and p.test is node or isinstance(p, (ast.BoolOp, ast.UnaryOp)):
                ok = isinstance(p, (ast.If, ast.While, ast.IfExp, ast.UnaryOp))      # `a or B` may hand B on
            if ok:
                continue
            stmt = node
            while stmt in parent and not isinstance(stmt, ast.stmt):
                stmt = parent[stmt]
            # a function-local name of the same spelling shadows the module-level object
            fn = stmt
            while fn in parent and not isinstance(fn, (ast.FunctionDef, ast.AsyncFunctionDef, ast.Lambda)):
                fn = parent[fn]
            if isinstance(fn, (ast.FunctionDef, ast.AsyncFunctionDef)):
                params = {a.arg for a in fn.args.args + fn.args.kwonlyargs + fn.args.posonlyargs}
                stores = {n.id for n in ast.walk(fn) if isinstance(n, ast.Name) and isinstance(n.ctx, ast.Store)}
                glob = {g for n in ast.walk(fn) if isinstance(n, ast.Global) for g in n.names}
                if name in params or (name in stores and name not in glob):
                    continue
            for t in targets:
                out.setdefault(t, []).append((mod, getattr(node, 'lineno', 0), ast.unparse(stmt)[:100] if isinstance(stmt, ast.AST) else name))
    return out
