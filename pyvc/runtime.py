"""Run-time form of the sidecar contracts: the same requires/ensures expressions are evaluated with
Python values around a call of the REAL function imported from /repo.

Used by (a) the refuter, which turns a failed obligation into a concrete failing input, (b) the
CPython cross-check, which guards the prover against mis-modelling Python, (c) the bounded stand-ins.
Loop invariants, hints and clauses mentioning `exposes` names are not evaluated at run time.
"""
import ast
import copy
import importlib
import itertools
import operator
import os
import sys

HERE = os.path.dirname(os.path.dirname(os.path.abspath(__file__)))


def import_specs():
    sys.path.insert(0, HERE) if HERE not in sys.path else None
    import contracts.specs as specs
    return specs


class _Rewrite(ast.NodeTransformer):
    """implies(a,b) -> (not a) or b (lazy);  old(e) -> __old[k]"""

    def __init__(self):
        self.olds = []

    def visit_Call(self, node):
        self.generic_visit(node)
        if isinstance(node.func, ast.Name) and node.func.id == 'implies' and len(node.args) == 2:
            return ast.BoolOp(op=ast.Or(), values=[ast.UnaryOp(op=ast.Not(), operand=node.args[0]), node.args[1]])
        if isinstance(node.func, ast.Name) and node.func.id == 'old' and len(node.args) == 1:
            self.olds.append(node.args[0])
            return ast.Subscript(value=ast.Name(id='__old', ctx=ast.Load()),
                                 slice=ast.Constant(len(self.olds) - 1), ctx=ast.Load())
        return node


def _compile(expr):
    rw = _Rewrite()
    tree = ast.fix_missing_locations(ast.Expression(rw.visit(copy.deepcopy(expr))))
    olds = [compile(ast.fix_missing_locations(ast.Expression(copy.deepcopy(o))), '<old>', 'eval') for o in rw.olds]
    return compile(tree, '<contract>', 'eval'), olds


def _names(expr):
    return {n.id for n in ast.walk(expr) if isinstance(n, ast.Name)}


def resolve_real(qualname):
    """Import the real object for a contract key (module.func or module.Class.method)."""
    parts = qualname.split('.')
    for cut in range(len(parts) - 1, 0, -1):
        try:
            mod = importlib.import_module('.'.join(parts[:cut]))
        except ImportError:
            continue
        obj = mod
        for p in parts[cut:]:
            obj = getattr(obj, p)
        return obj
    raise ImportError(qualname)


class RuntimeContract:
    def __init__(self, contract):
        self.c = contract
        self.specs = import_specs()
        skip = set(contract.exposes)
        self.requires = [(_compile(e), txt) for e, txt in contract.requires]
        self.ensures = [(_compile(e), txt) for e, txt in contract.ensures if not (_names(e) & skip)]
        self.real = resolve_real(contract.qualname.split('#')[0])
        self.evaluations = 0

    def env(self, bound):
        env = {k: getattr(self.specs, k) for k in dir(self.specs) if not k.startswith('_')}
        env.update(bound)
        cfg = None
        for (pname, pkind, _) in self.c.params:
            if pkind == 'cfg':
                cfg = bound.get(pname)
        if cfg is None:
            try:
                from nbdime.diffing.config import DiffConfig
                cfg = DiffConfig()
            except Exception:
                cfg = None
        if cfg is not None:
            env['preds_at'] = lambda p: (cfg.predicates.get(p or '/', None) or
                                         (cfg.predicates.default_factory() if hasattr(cfg.predicates, 'default_factory') else []))
            env['differs_at'] = lambda p: cfg.differs[p]
            env['is_atomic'] = lambda x, p: cfg.is_atomic(x, p)
            env['has_preds'] = lambda p: p in cfg.predicates
        env['path_star'] = lambda p: '/'.join((p, '*'))
        env['differs_ok'] = lambda: True          # quantifies over all values: assumed at run time
        env['atomic_ok'] = lambda: True
        env['pred_typed'] = lambda f, p: True
        env['preds_diffable'] = lambda F: True      # likewise (the generators use predicates and items for which it holds)
        env['good_differ'] = lambda f: True
        env['pred_exact'] = lambda f, p: True      # likewise; the bounded stand-ins use exact-safe alphabets
        return env

    def bind(self, args, kwargs):
        names = self.c.param_names()
        bound = dict(zip(names, args))
        bound.update(kwargs)
        for g in self.c.ghosts:
            if g not in bound:
                raise TypeError('ghost %s not supplied' % g)
        return bound

    def pre_ok(self, bound):
        env = self.env(bound)
        for (code, olds), txt in self.requires:
            try:
                if not eval(code, env):
                    return False
            except Exception:
                return False
        return True

    def call(self, args, kwargs=None, ghosts=None):
        """Returns ('skip'|'ok'|'raise'|'post', detail)."""
        kwargs = kwargs or {}
        bound = self.bind(args, dict(kwargs, **(ghosts or {})))
        if not self.pre_ok(bound):
            return 'skip', None
        self.evaluations += 1
        env0 = self.env(copy.deepcopy(bound))
        oldvals = []
        for (code, olds), txt in self.ensures:
            vals = []
            for oc in olds:
                try:
                    vals.append(eval(oc, env0))
                except Exception:
                    vals.append(None)
            oldvals.append(vals)
        pristine = copy.deepcopy(bound)
        try:
            real_args = [bound[n] for n in self.c.param_names()[:len(args)]]
            result = self.real(*real_args, **kwargs)
        except Exception as exc:
            if any(r[0] in type(exc).__name__ for r in self.c.raises):
                return 'ok', None
            return 'raise', '%s: %s' % (type(exc).__name__, exc)
        env = self.env(dict(pristine))
        # postconditions read parameters at their entry values, receivers at their exit state
        for (pname, pkind, _) in self.c.params:
            if isinstance(pkind, tuple) and pkind[0] == 'obj':
                env[pname] = bound[pname]
        env['result'] = result
        for ((code, olds), txt), ov in zip(self.ensures, oldvals):
            env['__old'] = ov
            try:
                ok = bool(eval(code, env))
            except Exception as exc:
                return 'post', 'postcondition %s raised %s: %s' % (txt, type(exc).__name__, exc)
            if not ok:
                return 'post', 'postcondition violated: %s  (result=%r)' % (txt, _short(result))
        return 'ok', None


def _short(x, n=300):
    s = repr(x)
    return s if len(s) <= n else s[:n] + '...'


# ------------------------------------------------------------------------------------------
# small-scope input generators per declared kind

ATOMS = [0, 1, 2, 'a', None]
ATOMS_X = [0, 1, True, 1.0, '1', None]      # crosses the bool/int/float/str boundary


def gen_values(depth=1, atoms=ATOMS):
    yield from atoms
    if depth > 0:
        yield []
        yield [0]
        yield {'k': 0}
        yield 'x\ny\n'


def gen_seq(elem, maxlen):
    elems = list(elem)
    for n in range(maxlen + 1):
        for tup in itertools.product(elems, repeat=n):
            yield [copy.deepcopy(x) for x in tup]


def gen_entries(n, values):
    from nbdime.diff_format import op_addrange, op_removerange, op_patch
    for key in range(n + 1):
        for vl in ([values[0]], [values[1], values[0]]):
            yield op_addrange(key, list(vl))
        for ln in (1, 2):
            if key + ln <= n:
                yield op_removerange(key, ln)


def gen_seqdiffs(n, values, maxlen=2):
    ents = list(gen_entries(n, values))
    for k in range(maxlen + 1):
        for tup in itertools.product(ents, repeat=k):
            yield [copy.deepcopy(e) for e in tup]


PREDICATES = [operator.__eq__, lambda x, y: type(x) is type(y), lambda x, y: False]


def inputs_for(contract, limit=4000, atoms=ATOMS):
    """Enumerate argument tuples (positional, in declaration order) for a contract by kind."""
    kinds = [(n, k) for n, k, _ in contract.params] + list(contract.ghosts.items())
    values = list(gen_values(1, atoms))
    pools = []
    for name, k in kinds:
        if k == ('seq', 'V'):
            pools.append(list(gen_seq(atoms[:3], 3)))
        elif k == ('seq', 'E'):
            pools.append(list(itertools.islice(gen_seqdiffs(3, atoms), 400)))
        elif k == ('seq', 'int'):
            pools.append(list(gen_seq([0, 1, 2], 2)))
        elif k == ('seq', ('seq', 'bool')):
            pools.append([g for n in range(3) for m in range(3)
                          for g in ([[bool((i * 3 + j + s) % 2) for j in range(m)] for i in range(n)] for s in (0, 1))])
        elif k == ('seq', ('seq', 'int')):
            pools.append([[[0] * 3 for _ in range(3)]])
        elif k == 'V':
            pools.append(values)
        elif k == 'int':
            pools.append([0, 1, 2, 3])
        elif k == 'str':
            pools.append(['a', 'b', 'zz'])
        elif k == 'bool':
            pools.append([False, True])
        elif k == ('seq', 'ME'):
            from nbdime.diff_format import op_add, op_remove, op_replace, op_patch, op_addrange
            pools.append([[], [op_add('a', 1)], [op_remove('a'), op_replace('b', [0])], [op_patch('a', [op_addrange(0, [1])]), op_add('c', 0)]])
        elif k == 'fn':
            pools.append(PREDICATES)
        elif k == 'ME':
            from nbdime.diff_format import op_add, op_remove, op_replace, op_patch, op_addrange
            pools.append([op_add('a', 1), op_remove('b'), op_replace('a', [0]), op_patch('zz', [op_addrange(0, [1])])])
        elif k == 'E':
            pools.append(list(gen_entries(3, atoms)))
        elif k == 'cfg':
            from nbdime.diffing.config import DiffConfig
            pools.append([DiffConfig()])
        elif k == 'path':
            pools.append([''])
        elif k == ('const',):
            pools.append([None])
        elif isinstance(k, tuple) and k[0] == 'obj':
            pools.append(['$obj:' + k[1]])
        else:
            raise NotImplementedError('no generator for kind %r' % (k,))
    count = 0
    sizes = [len(p) for p in pools]
    total = 1
    for s in sizes:
        total *= s
    import random
    rnd = random.Random(int(os.environ.get('VERIF_SEED', '0')))
    if total <= limit:
        it = itertools.product(*pools)
    else:
        it = (tuple(rnd.choice(p) for p in pools) for _ in range(limit))
    for tup in it:
        yield [copy.deepcopy(x) for x in tup]


def exercise(contract, registry, limit=3000, stop_at_first=True, atoms=ATOMS):
    """Run the REAL function under its run-time contract on enumerated small inputs.
    Returns {'evaluations', 'skipped', 'failures': [{'args', 'kind', 'detail'}]}."""
    rc = RuntimeContract(contract)
    nparams = len(contract.params)
    out = {'evaluations': 0, 'skipped': 0, 'failures': [], 'function': contract.qualname}
    import_specs()
    from contracts import gens
    custom = gens.GENERATORS.get(contract.qualname)
    source = itertools.islice(custom(), limit) if custom else inputs_for(contract, limit=limit, atoms=atoms)
    for tup in source:
        args, gvals = tup[:nparams], tup[nparams:]
        ghosts = dict(zip(contract.ghosts, gvals))
        # receivers: build a real instance whose declared fields are drawn from the field kinds
        for i, a in enumerate(args):
            if isinstance(a, str) and a.startswith('$obj:'):
                cls = resolve_real(a[5:])
                spec = registry.classes.get(a[5:])
                inst = cls()
                if spec is not None and contract.qualname.rsplit('.', 1)[-1] != '__init__':
                    import random
                    rnd = random.Random(out['evaluations'] + out['skipped'])
                    for fname, fkind in spec.fields.items():
                        if fkind == ('seq', 'E'):
                            pool = list(itertools.islice(gen_seqdiffs(3, atoms), 200))
                            setattr(inst, fname, copy.deepcopy(rnd.choice(pool)))
                args[i] = inst
        try:
            verdict, detail = rc.call(args, ghosts=ghosts)
        except TypeError as exc:
            out['failures'].append({'args': _short(args), 'kind': 'harness', 'detail': str(exc)})
            break
        if verdict == 'skip':
            out['skipped'] += 1
            continue
        out['evaluations'] += 1
        if verdict != 'ok':
            out['failures'].append({'args': [_jsonable(a) for a in args], 'ghosts': _short(ghosts),
                                    'kind': verdict, 'detail': detail})
            if stop_at_first:
                break
    return out


def _jsonable(x):
    import json
    try:
        json.dumps(x)
        return x
    except Exception:
        d = getattr(x, '__dict__', None)
        if d is not None:
            try:
                json.dumps(d)
                return {'$object': type(x).__name__, 'fields': d}
            except Exception:
                pass
        return repr(x)


def revive(x):
    "JSON form of diff entries back to DiffEntry objects (replay)"
    from nbdime.diff_format import DiffEntry
    if isinstance(x, list):
        return [revive(v) for v in x]
    if isinstance(x, dict):
        d = {k: revive(v) for k, v in x.items()}
        if 'op' in d and 'key' in d and d['op'] in ('add', 'remove', 'replace', 'patch', 'addrange', 'removerange'):
            return DiffEntry(**d)
        return d
    return x
