"""SMT prelude for pyvc: axiomatised sequences (Dafny-prelude style, explicit triggers, no MBQI),
finite maps, diff entries, and the spec functions of DESIGN.md section 3.

Everything here is *specification vocabulary*; nothing is derived from /repo.  The executable
twins of the spec functions live in contracts/specs.py and are cross-checked against these axioms
by the CPython cross-check (pyvc.crosscheck).
"""
import z3

I = z3.IntSort()
B = z3.BoolSort()


class SeqTheory:
    """Python-list-as-value theory for one element sort."""

    def __init__(self, th, name, elem):
        self.name = name
        self.elem = elem
        S = z3.DeclareSort(name)
        self.sort = S
        f = z3.Function
        self.len = f(name + '.len', S, I)
        self.idx = f(name + '.idx', S, I, elem)
        self.empty = z3.Const(name + '.empty', S)
        self.unit = f(name + '.unit', elem, S)
        self.app = f(name + '.app', S, S, S)
        self.slc = f(name + '.slc', S, I, I, S)        # python s[a:b] (clipping, negative = from end)
        self.upd = f(name + '.upd', S, I, elem, S)     # s[i] = x as a value update
        self.ins = f(name + '.ins', S, I, elem, S)     # list.insert(i, x) for 0 <= i <= len
        self.rev = f(name + '.rev', S, S)
        self.eq = f(name + '.eq', S, S, B)
        self.rep = f(name + '.rep', elem, I, S)        # [x] * n
        s, t, u = z3.Consts('s t u', S)
        x, y = z3.Consts('x y', elem)
        i, j, n, a, b = z3.Ints('i j n a b')
        ln, ix, app, slc = self.len, self.idx, self.app, self.slc
        A = th.axiom
        A(name + '.len_nonneg', [s], ln(s) >= 0, [ln(s)])
        th.ground(name + '.len_empty', ln(self.empty) == 0)
        A(name + '.len0_empty', [s], z3.Implies(ln(s) == 0, s == self.empty), [ln(s)])
        A(name + '.unit_len', [x], ln(self.unit(x)) == 1, [self.unit(x)])
        A(name + '.unit_idx', [x], ix(self.unit(x), 0) == x, [self.unit(x)])
        A(name + '.app_len', [s, t], ln(app(s, t)) == ln(s) + ln(t), [app(s, t)])
        A(name + '.app_idx', [s, t, i],
          ix(app(s, t), i) == z3.If(i < ln(s), ix(s, i), ix(t, i - ln(s))), [ix(app(s, t), i)])
        A(name + '.app_empty_r', [s], app(s, self.empty) == s, [app(s, self.empty)])
        A(name + '.app_empty_l', [s], app(self.empty, s) == s, [app(self.empty, s)])
        # python slice semantics, stated for the in-range case 0 <= a <= b <= len(s) only (no clipping case split: slices
        # with out-of-range bounds are left unconstrained, which is sound -- fewer facts -- and all verified code slices in range)
        inr = z3.And(0 <= a, a <= b, b <= ln(s))
        A(name + '.slc_len', [s, a, b], z3.Implies(inr, ln(slc(s, a, b)) == b - a), [slc(s, a, b)])
        A(name + '.slc_idx', [s, a, b, i],
          z3.Implies(z3.And(inr, 0 <= i, i < b - a), ix(slc(s, a, b), i) == ix(s, a + i)),
          [ix(slc(s, a, b), i)])
        A(name + '.slc_full', [s, n], z3.Implies(n == ln(s), slc(s, 0, n) == s), [slc(s, 0, n)])
        A(name + '.slc_none', [s, a], slc(s, a, a) == self.empty, [slc(s, a, a)])
        A(name + '.slc_empty_range', [s, a, b], z3.Implies(z3.And(0 <= a, b <= a), slc(s, a, b) == self.empty), [slc(s, a, b)])
        A(name + '.slc_app_l', [s, t, n], z3.Implies(n == ln(s), slc(app(s, t), 0, n) == s), [slc(app(s, t), 0, n)])
        A(name + '.slc_app_r', [s, t, a, b], z3.Implies(z3.And(a == ln(s), b == ln(s) + ln(t)), slc(app(s, t), a, b) == t),
          [slc(app(s, t), a, b)])
        A(name + '.upd_len', [s, i, x], ln(self.upd(s, i, x)) == ln(s), [self.upd(s, i, x)])
        A(name + '.upd_idx', [s, i, x, j],
          z3.Implies(z3.And(0 <= i, i < ln(s)),
                     ix(self.upd(s, i, x), j) == z3.If(j == i, x, ix(s, j))), [ix(self.upd(s, i, x), j)])
        A(name + '.ins_len', [s, i, x], ln(self.ins(s, i, x)) == ln(s) + 1, [self.ins(s, i, x)])
        A(name + '.ins_idx', [s, i, x, j],
          z3.Implies(z3.And(0 <= i, i <= ln(s)),
                     ix(self.ins(s, i, x), j) ==
                     z3.If(j < i, ix(s, j), z3.If(j == i, x, ix(s, j - 1)))), [ix(self.ins(s, i, x), j)])
        A(name + '.rev_len', [s], ln(self.rev(s)) == ln(s), [self.rev(s)])
        A(name + '.rev_idx', [s, i],
          z3.Implies(z3.And(0 <= i, i < ln(s)), ix(self.rev(s), i) == ix(s, ln(s) - 1 - i)),
          [ix(self.rev(s), i)])
        A(name + '.rep_len', [x, n], z3.Implies(n >= 0, ln(self.rep(x, n)) == n), [self.rep(x, n)])
        A(name + '.rep_idx', [x, n, i], z3.Implies(z3.And(0 <= i, i < n), ix(self.rep(x, n), i) == x),
          [ix(self.rep(x, n), i)])
        # extensionality
        A(name + '.eq_def', [s, t],
          self.eq(s, t) == z3.And(ln(s) == ln(t),
                                  z3.ForAll([i], z3.Implies(z3.And(0 <= i, i < ln(s)), ix(s, i) == ix(t, i)),
                                            patterns=[ix(s, i), ix(t, i)])),
          [self.eq(s, t)])
        A(name + '.eq_ext', [s, t], z3.Implies(self.eq(s, t), s == t), [self.eq(s, t)])

    # helper used by the executor to state the prefix/snoc hints
    def snoc_hint(self, s, k):
        "s[:k+1] == s[:k] ++ [s[k]]   (valid when 0 <= k < len(s))"
        return z3.Implies(z3.And(0 <= k, k < self.len(s)),
                          self.slc(s, 0, k + 1) == self.app(self.slc(s, 0, k), self.unit(self.idx(s, k))))


class Theory:
    def __init__(self):
        self.axioms = []       # (name, formula)
        self.defs = {}
        self.seqs = {}
        self.funcs = {}        # spec function name -> (callable building a term, arg kinds, result kind)
        self._build()

    # -- infrastructure ---------------------------------------------------------------------
    def axiom(self, name, vars_, body, pats):
        pats = [p if isinstance(p, (list, tuple)) else [p] for p in pats]
        zp = [z3.MultiPattern(*p) if len(p) > 1 else p[0] for p in pats]
        self.axioms.append((name, z3.ForAll(vars_, body, patterns=zp)))
        # definitional shape  f(v1..vn) == rhs  over exactly the quantified variables: remember it
        if z3.is_eq(body) and name.endswith('_def'):
            lhs, rhs = body.children()
            if z3.is_app(lhs) and lhs.decl().kind() == z3.Z3_OP_UNINTERPRETED and lhs.num_args() == len(vars_) \
                    and all(any(c.eq(v) for v in vars_) for c in lhs.children()) and lhs.sort() == z3.BoolSort():
                self.defs[lhs.decl().name()] = (list(lhs.children()), rhs)

    def define(self, fn, vars_, body, name=None):
        """Definitional axiom  forall vars. fn(vars) == body  (trigger fn(vars)); also recorded so that
        goals which are applications of fn can be unfolded before conjunct splitting."""
        app = fn(*vars_)
        self.axiom(name or (fn.name() + '_def'), vars_, app == body, [app])
        self.defs[fn.name()] = (list(vars_), body)

    def unfold(self, term):
        "definition body for a goal that is an application of a defined predicate, else None"
        if z3.is_app(term) and term.decl().name() in self.defs and term.num_args() > 0:
            vars_, body = self.defs[term.decl().name()]
            return z3.substitute(body, list(zip(vars_, term.children())))
        return None

    def ground(self, name, body):
        self.axioms.append((name, body))

    def seq(self, elem_kind):
        """Sequence theory for an element kind ('int','bool','V','E','str','T3', ('seq',k))."""
        if elem_kind == 'ME':
            elem_kind = 'E'          # mapping entries share the entry sort (and hence the sequence theory) with sequence entries
        key = kind_name(elem_kind)
        if key not in self.seqs:
            self.seqs[key] = SeqTheory(self, 'Seq_' + key, self.sort_of(elem_kind))
        return self.seqs[key]

    def sort_of(self, kind):
        if kind == 'int':
            return I
        if kind == 'bool':
            return B
        if kind == 'V':
            return self.V
        if kind in ('E', 'ME'):
            return self.E
        if kind == 'str':
            return self.Str
        if kind == 'path':
            return self.Path
        if kind == 'T3':
            return self.T3
        if kind == 'map':
            return self.M
        if kind == 'kset':
            return self.KS
        if kind == 'emap':
            return self.EM
        if kind == 'fn':
            return self.Fn
        if isinstance(kind, tuple) and kind[0] == 'seq':
            return self.seq(kind[1]).sort
        raise KeyError('no SMT sort for kind %r' % (kind,))

    # -- the vocabulary ---------------------------------------------------------------------
    def _build(self):
        f = z3.Function
        self.V = z3.DeclareSort('V')          # JSON value
        self.E = z3.DeclareSort('E')          # diff entry
        self.Str = z3.DeclareSort('Str')      # dict key
        self.Path = z3.DeclareSort('Path')    # config path string
        self.Fn = z3.DeclareSort('Fn')        # function value (differ / predicate)
        self.Op, ops = z3.EnumSort('Op', ['add', 'remove', 'replace', 'addrange', 'removerange', 'patch'])
        self.ops = dict(zip(['add', 'remove', 'replace', 'addrange', 'removerange', 'patch'], ops))
        self.T3 = z3.Datatype('T3')
        self.T3.declare('mk3', ('t0', I), ('t1', I), ('t2', I))
        self.T3 = self.T3.create()
        V, E, Str = self.V, self.E, self.Str
        SV, SE = self.seq('V'), self.seq('E')
        self.SV, self.SE = SV, SE
        # entry fields
        self.e_op = f('e.op', E, self.Op)
        self.e_key = f('e.key', E, I)
        self.e_skey = f('e.skey', E, Str)
        self.e_valuelist = f('e.valuelist', E, SV.sort)
        self.e_length = f('e.length', E, I)
        self.e_diff = f('e.diff', E, SE.sort)
        self.e_value = f('e.value', E, V)
        self.has = {k: f('e.has_' + k, E, B) for k in ('valuelist', 'length', 'diff', 'value')}
        # constructors (the op_* functions of diff_format are verified against these)
        self.mk_addrange = f('mk_addrange', I, SV.sort, E)
        self.mk_removerange = f('mk_removerange', I, I, E)
        self.mk_patch = f('mk_patch', I, SE.sort, E)
        self.mk_madd = f('mk_madd', Str, V, E)
        self.mk_mremove = f('mk_mremove', Str, E)
        self.mk_mreplace = f('mk_mreplace', Str, V, E)
        self.mk_mpatch = f('mk_mpatch', Str, SE.sort, E)
        k, n = z3.Ints('k n')
        vl = z3.Const('vl', SV.sort)
        d = z3.Const('d', SE.sort)
        sk = z3.Const('sk', Str)
        v, w = z3.Consts('v w', V)
        O = self.ops
        def ctor(name, term, vars_, op, fields):
            conj = [self.e_op(term) == O[op]]
            for fld in ('valuelist', 'length', 'diff', 'value'):
                conj.append(self.has[fld](term) == (fld in fields))
            for fld, val in fields.items():
                conj.append(getattr(self, 'e_' + fld)(term) == val)
            return name, vars_, z3.And(*conj), [term]
        for spec in [
            ctor('mk_addrange', self.mk_addrange(k, vl), [k, vl], 'addrange', {'key': k, 'valuelist': vl}),
            ctor('mk_removerange', self.mk_removerange(k, n), [k, n], 'removerange', {'key': k, 'length': n}),
            ctor('mk_patch', self.mk_patch(k, d), [k, d], 'patch', {'key': k, 'diff': d}),
            ctor('mk_madd', self.mk_madd(sk, v), [sk, v], 'add', {'skey': sk, 'value': v}),
            ctor('mk_mremove', self.mk_mremove(sk), [sk], 'remove', {'skey': sk}),
            ctor('mk_mreplace', self.mk_mreplace(sk, v), [sk, v], 'replace', {'skey': sk, 'value': v}),
            ctor('mk_mpatch', self.mk_mpatch(sk, d), [sk, d], 'patch', {'skey': sk, 'diff': d}),
        ]:
            self.axiom(*spec)

        # python == on values (True == 1 == 1.0); json identity is SMT equality on V
        self.pyeq = f('pyeq', V, V, B)
        self.axiom('pyeq_refl', [v, w], z3.Implies(v == w, self.pyeq(v, w)), [self.pyeq(v, w)])
        # element-level patch:  apply_v(x, d) is the documented meaning of patching value x with diff d
        self.apply_v = f('apply_v', V, SE.sort, V)
        # embedding of lists into values (used where a list is passed as a value)
        self.is_container = f('is_container', V, B)

        # ---- Run fold over a sequence diff:  rout/rtake (DESIGN 3) ----
        self.rout = f('rout', SV.sort, SE.sort, SV.sort)
        self.rtake = f('rtake', SV.sort, SE.sort, I)
        self.step_out = f('step_out', SV.sort, SV.sort, I, E, SV.sort)   # (A, out, take, e)
        self.step_take = f('step_take', I, E, I)                          # (take, e)
        A_ = z3.Const('A', SV.sort)
        out = z3.Const('out', SV.sort)
        D = z3.Const('D', SE.sort)
        e = z3.Const('e', E)
        t = z3.Int('t')
        span = z3.If(self.e_op(e) == O['removerange'], self.e_length(e),
                     z3.If(self.e_op(e) == O['patch'], 1, 0))
        self.span = lambda ent: z3.If(self.e_op(ent) == O['removerange'], self.e_length(ent),
                                      z3.If(self.e_op(ent) == O['patch'], 1, 0))
        copied = SV.app(out, SV.slc(A_, t, self.e_key(e)))
        self.axiom('step_out_def', [A_, out, t, e],
                   self.step_out(A_, out, t, e) ==
                   z3.If(self.e_op(e) == O['addrange'], SV.app(copied, self.e_valuelist(e)),
                         z3.If(self.e_op(e) == O['patch'],
                               SV.app(copied, SV.unit(self.apply_v(SV.idx(A_, self.e_key(e)), self.e_diff(e)))),
                               copied)),
                   [self.step_out(A_, out, t, e)])
        self.axiom('step_take_def', [t, e],
                   self.step_take(t, e) == z3.If(t > self.e_key(e) + span, t, self.e_key(e) + span),
                   [self.step_take(t, e)])
        self.ground('rout_empty', z3.ForAll([A_], self.rout(A_, SE.empty) == SV.empty,
                                            patterns=[self.rout(A_, SE.empty)]))
        self.ground('rtake_empty', z3.ForAll([A_], self.rtake(A_, SE.empty) == 0,
                                             patterns=[self.rtake(A_, SE.empty)]))
        snoc = SE.app(D, SE.unit(e))
        self.axiom('rout_snoc', [A_, D, e],
                   self.rout(A_, snoc) == self.step_out(A_, self.rout(A_, D), self.rtake(A_, D), e),
                   [self.rout(A_, snoc)])
        self.axiom('rtake_snoc', [A_, D, e],
                   self.rtake(A_, snoc) == self.step_take(self.rtake(A_, D), e),
                   [self.rtake(A_, snoc)])
        self.apply_seq = f('apply_seq', SV.sort, SE.sort, SV.sort)
        self.axiom('apply_seq_def', [A_, D],
                   self.apply_seq(A_, D) == SV.app(self.rout(A_, D), SV.slc(A_, self.rtake(A_, D), SV.len(A_))),
                   [self.apply_seq(A_, D)])

        # ---- well-formedness of a sequence diff (all-pairs form) ----
        self.wf_entry = f('wf_entry', E, I, B)
        self.wf_seq = f('wf_seq', SE.sort, I, B)
        self.ordered = f('ordered', E, E, B)
        e2 = z3.Const('e2', E)
        op, key = self.e_op, self.e_key
        self.axiom('wf_entry_def', [e, n],
                   self.wf_entry(e, n) == z3.And(
                       0 <= key(e),
                       z3.Or(op(e) == O['addrange'], op(e) == O['removerange'], op(e) == O['patch']),
                       z3.Implies(op(e) == O['addrange'],
                                  z3.And(key(e) <= n, self.has['valuelist'](e), SV.len(self.e_valuelist(e)) >= 1)),
                       z3.Implies(op(e) == O['removerange'],
                                  z3.And(self.has['length'](e), self.e_length(e) >= 1, key(e) + self.e_length(e) <= n)),
                       z3.Implies(op(e) == O['patch'],
                                  z3.And(self.has['diff'](e), key(e) < n, SE.len(self.e_diff(e)) >= 1))),
                   [self.wf_entry(e, n)])
        self.axiom('ordered_def', [e, e2],
                   self.ordered(e, e2) == z3.And(
                       key(e) <= key(e2),
                       z3.Implies(op(e) != O['addrange'], key(e) + span <= key(e2)),
                       z3.Implies(key(e) == key(e2), z3.And(op(e) == O['addrange'], op(e2) != O['addrange']))),
                   [self.ordered(e, e2)])
        i, j = z3.Ints('i j')
        self.axiom('wf_seq_def', [D, n],
                   self.wf_seq(D, n) == z3.And(
                       z3.ForAll([i], z3.Implies(z3.And(0 <= i, i < SE.len(D)), self.wf_entry(SE.idx(D, i), n)),
                                 patterns=[SE.idx(D, i)]),
                       z3.ForAll([i, j], z3.Implies(z3.And(0 <= i, i < j, j < SE.len(D)),
                                                    self.ordered(SE.idx(D, i), SE.idx(D, j))),
                                 patterns=[z3.MultiPattern(SE.idx(D, i), SE.idx(D, j))])),
                   [self.wf_seq(D, n)])

        # builder order: keys non-decreasing, at equal key no addrange follows a non-addrange
        self.sorted_b = f('sorted_b', SE.sort, B)
        self.axiom('sorted_b_def', [D],
                   self.sorted_b(D) == z3.ForAll([i, j], z3.Implies(
                       z3.And(0 <= i, i < j, j < SE.len(D)),
                       z3.And(key(SE.idx(D, i)) <= key(SE.idx(D, j)),
                              z3.Implies(z3.And(key(SE.idx(D, i)) == key(SE.idx(D, j)),
                                                op(SE.idx(D, j)) == O['addrange']),
                                         op(SE.idx(D, i)) == O['addrange']))),
                       patterns=[z3.MultiPattern(SE.idx(D, i), SE.idx(D, j))]),
                   [self.sorted_b(D)])

        # ---- uninterpreted predicates / differs used parametrically ----
        self.cmp = f('cmp', self.Fn, V, V, B)              # predicate application  compare(x, y)
        self.differ = f('differ', self.Fn, V, V, self.Path, SE.sort)   # diffit(x, y, path=.., config=..)
        self.is_atomic = f('is_atomic', V, self.Path, B)
        self.path_star = f('path_star', self.Path, self.Path)
        self.path_key = f('path_key', self.Path, Str, self.Path)
        self.differs_at = f('differs_at', self.Path, self.Fn)      # config.differs[path]
        self.preds_at = f('preds_at', self.Path, self.seq('fn').sort)

        # ---- alignment of a shallow diff with the target sequence under a predicate (DESIGN 3, `aligned`) ----
        # gap_ok(A,B,f,t,x,o): the kept items A[t:x] are cmp-related to B[o : o+x-t]
        Bq = z3.Const('Bq', SV.sort)
        fn = z3.Const('fn', self.Fn)
        x_, o_, u_ = z3.Ints('x_ o_ u_')
        self.gap_ok = f('gap_ok', SV.sort, SV.sort, self.Fn, I, I, I, B)
        self.axiom('gap_ok_def', [A_, Bq, fn, t, x_, o_],
                   self.gap_ok(A_, Bq, fn, t, x_, o_) ==
                   z3.ForAll([u_], z3.Implies(z3.And(t <= u_, u_ < x_),
                                             self.cmp(fn, SV.idx(A_, u_), SV.idx(Bq, o_ + u_ - t))),
                             patterns=[SV.idx(A_, u_)]),
                   [self.gap_ok(A_, Bq, fn, t, x_, o_)])
        # pref_eq(R, B): R is a prefix of B ; gap_eq(A,B,t,x,o): A[t:x] equals B[o : o+x-t]   (pointwise)
        Rq = z3.Const('Rq', SV.sort)
        self.pref_eq = f('pref_eq', SV.sort, SV.sort, B)
        self.axiom('pref_eq_def', [Rq, Bq],
                   self.pref_eq(Rq, Bq) == z3.And(
                       SV.len(Rq) <= SV.len(Bq),
                       z3.ForAll([u_], z3.Implies(z3.And(0 <= u_, u_ < SV.len(Rq)), SV.idx(Rq, u_) == SV.idx(Bq, u_)),
                                 patterns=[SV.idx(Rq, u_)])),
                   [self.pref_eq(Rq, Bq)])
        self.gap_eq = f('gap_eq', SV.sort, SV.sort, I, I, I, B)
        self.axiom('gap_eq_def', [A_, Bq, t, x_, o_],
                   self.gap_eq(A_, Bq, t, x_, o_) ==
                   z3.ForAll([u_], z3.Implies(z3.And(t <= u_, u_ < x_), SV.idx(A_, u_) == SV.idx(Bq, o_ + u_ - t)),
                             patterns=[SV.idx(A_, u_)]),
                   [self.gap_eq(A_, Bq, t, x_, o_)])
        self.al = f('al', SV.sort, SV.sort, SE.sort, self.Fn, B)
        self.al_step = f('al_step', SV.sort, SV.sort, self.Fn, I, I, E, B)   # (A,B,f,take,outlen,e)
        ol = z3.Int('ol')
        off = ol + self.e_key(e) - t
        self.axiom('al_step_def', [A_, Bq, fn, t, ol, e],
                   self.al_step(A_, Bq, fn, t, ol, e) == z3.And(
                       t <= self.e_key(e),
                       ol + self.e_key(e) - t <= SV.len(Bq),
                       self.gap_ok(A_, Bq, fn, t, self.e_key(e), ol),
                       z3.Or(op(e) == O['addrange'], op(e) == O['removerange']),
                       z3.Implies(op(e) == O['addrange'],
                                  self.e_valuelist(e) == SV.slc(Bq, off, off + SV.len(self.e_valuelist(e)))),
                       z3.Implies(op(e) == O['addrange'], off + SV.len(self.e_valuelist(e)) <= SV.len(Bq))),
                   [self.al_step(A_, Bq, fn, t, ol, e)])
        self.axiom('al_empty', [A_, Bq, fn], self.al(A_, Bq, SE.empty, fn), [self.al(A_, Bq, SE.empty, fn)])
        self.axiom('al_snoc', [A_, Bq, D, e, fn],
                   self.al(A_, Bq, snoc, fn) == z3.And(
                       self.al(A_, Bq, D, fn),
                       self.al_step(A_, Bq, fn, self.rtake(A_, D), SV.len(self.rout(A_, D)), e)),
                   [self.al(A_, Bq, snoc, fn)])
        self.aligned = f('aligned', SV.sort, SV.sort, SE.sort, self.Fn, B)
        self.axiom('aligned_def', [A_, Bq, D, fn],
                   self.aligned(A_, Bq, D, fn) == z3.And(
                       self.al(A_, Bq, D, fn),
                       self.rtake(A_, D) <= SV.len(A_),
                       self.gap_ok(A_, Bq, fn, self.rtake(A_, D), SV.len(A_), SV.len(self.rout(A_, D))),
                       SV.len(self.rout(A_, D)) + SV.len(A_) - self.rtake(A_, D) == SV.len(Bq)),
                   [self.aligned(A_, Bq, D, fn)])

        # ---- typed JSON values: the three container types a diff can be applied to ----
        self.is_list = f('is_list', V, B)
        self.is_dict = f('is_dict', V, B)
        self.is_str = f('is_str', V, B)
        self.as_list = f('as_list', V, SV.sort)
        self.of_list = f('of_list', SV.sort, V)
        A1 = z3.Const('A1', SV.sort)
        self.axiom('tags_exclusive', [v], z3.And(z3.Not(z3.And(self.is_list(v), self.is_dict(v))),
                                                 z3.Not(z3.And(self.is_list(v), self.is_str(v))),
                                                 z3.Not(z3.And(self.is_dict(v), self.is_str(v)))),
                   [self.is_list(v)], )
        self.axiom('of_list_tag', [A1], z3.And(self.is_list(self.of_list(A1)), self.as_list(self.of_list(A1)) == A1), [self.of_list(A1)])
        self.axiom('as_list_inv', [v], z3.Implies(self.is_list(v), self.of_list(self.as_list(v)) == v), [self.as_list(v)])
        # same python type => same container tag; diffable = both of the same container type
        self.same_type = f('same_type', V, V, B)
        self.axiom('same_type_tags', [v, w], z3.Implies(self.same_type(v, w),
                                                        z3.And(self.is_list(v) == self.is_list(w), self.is_dict(v) == self.is_dict(w),
                                                               self.is_str(v) == self.is_str(w))), [self.same_type(v, w)])
        self.diffable = f('diffable', V, V, B)
        self.axiom('diffable_def', [v, w],
                   self.diffable(v, w) == z3.Or(z3.And(self.is_list(v), self.is_list(w)), z3.And(self.is_dict(v), self.is_dict(w)),
                                                z3.And(self.is_str(v), self.is_str(w))),
                   [self.diffable(v, w)])

        # ---- table contracts on differs / predicates (DESIGN 3, `Differ`) ----
        self.ground('apply_v_empty', z3.ForAll([v], self.apply_v(v, SE.empty) == v, patterns=[self.apply_v(v, SE.empty)]))
        self.good_differ = f('good_differ', self.Fn, B)
        pth = z3.Const('pth', self.Path)
        # a good differ patches x into y for every pair of values of the same container type (list/list, dict/dict, str/str);
        # it promises nothing for other pairs (nbdime's own `diff` raises on them)
        self.wf_v = f('wf_v', V, SE.sort, B)       # deep well-formedness, defined below (typed values, part 2)
        self.axiom('good_differ_use', [fn, v, w, pth],
                   z3.Implies(z3.And(self.good_differ(fn), self.diffable(v, w)),
                              z3.And(self.apply_v(v, self.differ(fn, v, w, pth)) == w,
                                     self.wf_v(v, self.differ(fn, v, w, pth)))),
                   [self.differ(fn, v, w, pth)])
        self.differs_ok = z3.Const('differs_ok', B)
        self.axiom('differs_ok_use', [pth], z3.Implies(self.differs_ok, self.good_differ(self.differs_at(pth))),
                   [self.differs_at(pth)])
        # the configuration never declares a non-container value non-atomic (DiffConfig.is_atomic: explicit path entries aside,
        # everything but str/list/dict is atomic)
        self.atomic_ok = z3.Const('atomic_ok', B)
        self.axiom('atomic_ok_use', [v, pth],
                   z3.Implies(z3.And(self.atomic_ok, z3.Not(self.is_atomic(v, pth))),
                              z3.Or(self.is_list(v), self.is_dict(v), self.is_str(v))),
                   [self.is_atomic(v, pth)])
        # a predicate only aligns non-atomic items of the same python type
        self.pred_typed = f('pred_typed', self.Fn, self.Path, B)
        self.axiom('pred_typed_use', [fn, pth, v, w],
                   z3.Implies(z3.And(self.pred_typed(fn, pth), z3.Not(self.is_atomic(v, pth)), self.cmp(fn, v, w)), self.same_type(v, w)),
                   [[self.cmp(fn, v, w), self.is_atomic(v, pth)]])
        # any_cmp(F, x, y): some predicate of the list F holds for (x, y); preds_diffable(F): whatever F aligns is of one container type
        SF = self.seq('fn')
        F1 = z3.Const('F1', SF.sort)
        self.any_cmp = f('any_cmp', SF.sort, V, V, B)
        self.axiom('any_cmp_intro', [F1, i, v, w],
                   z3.Implies(z3.And(0 <= i, i < SF.len(F1), self.cmp(SF.idx(F1, i), v, w)), self.any_cmp(F1, v, w)),
                   [self.cmp(SF.idx(F1, i), v, w)])
        self.preds_diffable = f('preds_diffable', SF.sort, B)
        self.axiom('preds_diffable_use', [F1, v, w],
                   z3.Implies(z3.And(self.preds_diffable(F1), self.any_cmp(F1, v, w)), self.diffable(v, w)),
                   [self.any_cmp(F1, v, w)])
        self.pred_exact = f('pred_exact', self.Fn, self.Path, B)
        self.axiom('pred_exact_use', [fn, pth, v, w],
                   z3.Implies(z3.And(self.pred_exact(fn, pth), self.is_atomic(v, pth), self.cmp(fn, v, w)), v == w),
                   [[self.cmp(fn, v, w), self.is_atomic(v, pth)]])

        # ---- finite maps (dict with string keys) and key sets ----
        self.M = z3.DeclareSort('M')
        self.KS = z3.DeclareSort('KS')
        self.ks_mem = f('ks.mem', self.KS, Str, B)
        self.ks_diff = f('ks.diff', self.KS, self.KS, self.KS)
        self.ks_inter = f('ks.inter', self.KS, self.KS, self.KS)
        self.ks_union = f('ks.union', self.KS, self.KS, self.KS)
        self.m_dom = f('m.dom', self.M, self.KS)
        self.m_get = f('m.get', self.M, Str, V)
        self.m_empty = z3.Const('m.empty', self.M)
        self.m_put = f('m.put', self.M, Str, V, self.M)
        self.m_eq = f('m.eq', self.M, self.M, B)
        m, m2 = z3.Consts('m m2', self.M)
        ks, ks2 = z3.Consts('ks ks2', self.KS)
        mem = self.ks_mem
        self.mem = lambda mm, kk: mem(self.m_dom(mm), kk)
        self.axiom('ks_diff_def', [ks, ks2, sk],
                   mem(self.ks_diff(ks, ks2), sk) == z3.And(mem(ks, sk), z3.Not(mem(ks2, sk))),
                   [mem(self.ks_diff(ks, ks2), sk)])
        self.axiom('ks_inter_def', [ks, ks2, sk],
                   mem(self.ks_inter(ks, ks2), sk) == z3.And(mem(ks, sk), mem(ks2, sk)),
                   [mem(self.ks_inter(ks, ks2), sk)])
        self.axiom('ks_union_def', [ks, ks2, sk],
                   mem(self.ks_union(ks, ks2), sk) == z3.Or(mem(ks, sk), mem(ks2, sk)),
                   [mem(self.ks_union(ks, ks2), sk)])
        self.axiom('m_empty_dom', [sk], z3.Not(mem(self.m_dom(self.m_empty), sk)),
                   [mem(self.m_dom(self.m_empty), sk)])
        sk2 = z3.Const('sk2', Str)
        self.axiom('m_put_dom', [m, sk, v, sk2],
                   mem(self.m_dom(self.m_put(m, sk, v)), sk2) == z3.Or(sk2 == sk, mem(self.m_dom(m), sk2)),
                   [mem(self.m_dom(self.m_put(m, sk, v)), sk2)])
        self.axiom('m_put_get', [m, sk, v, sk2],
                   self.m_get(self.m_put(m, sk, v), sk2) == z3.If(sk2 == sk, v, self.m_get(m, sk2)),
                   [self.m_get(self.m_put(m, sk, v), sk2)])
        self.axiom('m_eq_def', [m, m2],
                   self.m_eq(m, m2) == z3.And(
                       z3.ForAll([sk], mem(self.m_dom(m), sk) == mem(self.m_dom(m2), sk),
                                 patterns=[mem(self.m_dom(m), sk), mem(self.m_dom(m2), sk)]),
                       z3.ForAll([sk], z3.Implies(mem(self.m_dom(m), sk), self.m_get(m, sk) == self.m_get(m2, sk)),
                                 patterns=[self.m_get(m, sk), self.m_get(m2, sk)])),
                   [self.m_eq(m, m2)])
        self.axiom('m_eq_ext', [m, m2], z3.Implies(self.m_eq(m, m2), m == m2), [self.m_eq(m, m2)])
        # sorted(keyset): strictly increasing enumeration of a key set
        SS = self.seq('str')
        self.s_lt = f('s.lt', Str, Str, B)
        self.sorted_keys = f('sorted_keys', self.KS, SS.sort)
        self.key_pos = f('key_pos', self.KS, Str, I)
        self.axiom('sorted_keys_member', [ks, i],
                   z3.Implies(z3.And(0 <= i, i < SS.len(self.sorted_keys(ks))),
                              mem(ks, SS.idx(self.sorted_keys(ks), i))),
                   [SS.idx(self.sorted_keys(ks), i)])
        self.axiom('sorted_keys_complete', [ks, sk],
                   z3.Implies(mem(ks, sk),
                              z3.And(0 <= self.key_pos(ks, sk), self.key_pos(ks, sk) < SS.len(self.sorted_keys(ks)),
                                     SS.idx(self.sorted_keys(ks), self.key_pos(ks, sk)) == sk)),
                   [[mem(ks, sk), self.sorted_keys(ks)], [self.key_pos(ks, sk)]])
        self.axiom('key_pos_inverse', [ks, i],
                   z3.Implies(z3.And(0 <= i, i < SS.len(self.sorted_keys(ks))), self.key_pos(ks, SS.idx(self.sorted_keys(ks), i)) == i),
                   [SS.idx(self.sorted_keys(ks), i)])
        self.axiom('sorted_keys_distinct', [ks, i, j],
                   z3.Implies(z3.And(0 <= i, i < j, j < SS.len(self.sorted_keys(ks))),
                              z3.And(SS.idx(self.sorted_keys(ks), i) != SS.idx(self.sorted_keys(ks), j),
                                     self.s_lt(SS.idx(self.sorted_keys(ks), i), SS.idx(self.sorted_keys(ks), j)))),
                   [[SS.idx(self.sorted_keys(ks), i), SS.idx(self.sorted_keys(ks), j)]])

        # an arbitrary enumeration of a key set (dict iteration order is unspecified for the proof): members, complete, distinct
        self.enum_keys = f('enum_keys', self.KS, SS.sort)
        self.enum_pos = f('enum_pos', self.KS, Str, I)
        self.axiom('enum_keys_member', [ks, i],
                   z3.Implies(z3.And(0 <= i, i < SS.len(self.enum_keys(ks))), mem(ks, SS.idx(self.enum_keys(ks), i))),
                   [SS.idx(self.enum_keys(ks), i)])
        self.axiom('enum_keys_complete', [ks, sk],
                   z3.Implies(mem(ks, sk),
                              z3.And(0 <= self.enum_pos(ks, sk), self.enum_pos(ks, sk) < SS.len(self.enum_keys(ks)),
                                     SS.idx(self.enum_keys(ks), self.enum_pos(ks, sk)) == sk)),
                   [[mem(ks, sk), self.enum_keys(ks)], [self.enum_pos(ks, sk)]])
        self.axiom('enum_keys_distinct', [ks, i, j],
                   z3.Implies(z3.And(0 <= i, i < j, j < SS.len(self.enum_keys(ks))),
                              SS.idx(self.enum_keys(ks), i) != SS.idx(self.enum_keys(ks), j)),
                   [[SS.idx(self.enum_keys(ks), i), SS.idx(self.enum_keys(ks), j)]])
        self.axiom('enum_pos_inverse', [ks, i],
                   z3.Implies(z3.And(0 <= i, i < SS.len(self.enum_keys(ks))), self.enum_pos(ks, SS.idx(self.enum_keys(ks), i)) == i),
                   [SS.idx(self.enum_keys(ks), i)])
        self.ks_empty = z3.Const('ks.empty', self.KS)
        self.ks_add = f('ks.add', self.KS, Str, self.KS)
        self.axiom('ks_empty_def0', [sk], z3.Not(mem(self.ks_empty, sk)), [mem(self.ks_empty, sk)])
        self.axiom('ks_add_def0', [ks, sk, sk2], mem(self.ks_add(ks, sk), sk2) == z3.Or(sk2 == sk, mem(ks, sk2)),
                   [mem(self.ks_add(ks, sk), sk2)])

        # ---- entry maps (str -> diff entry): the state of MappingDiffBuilder ----
        self.EM = z3.DeclareSort('EM')
        em, em2 = z3.Consts('em em2', self.EM)
        ee = z3.Const('ee', self.E)
        self.em_dom = f('em.dom', self.EM, self.KS)
        self.em_get = f('em.get', self.EM, Str, self.E)
        self.em_empty = z3.Const('em.empty', self.EM)
        self.em_put = f('em.put', self.EM, Str, self.E, self.EM)
        self.em_eq = f('em.eq', self.EM, self.EM, B)
        self.axiom('em_empty_dom', [sk], z3.Not(mem(self.em_dom(self.em_empty), sk)), [mem(self.em_dom(self.em_empty), sk)])
        self.axiom('em_put_dom', [em, sk, ee, sk2],
                   mem(self.em_dom(self.em_put(em, sk, ee)), sk2) == z3.Or(sk2 == sk, mem(self.em_dom(em), sk2)),
                   [mem(self.em_dom(self.em_put(em, sk, ee)), sk2)])
        self.axiom('em_put_get', [em, sk, ee, sk2],
                   self.em_get(self.em_put(em, sk, ee), sk2) == z3.If(sk2 == sk, ee, self.em_get(em, sk2)),
                   [self.em_get(self.em_put(em, sk, ee), sk2)])
        self.axiom('em_eq_def', [em, em2],
                   self.em_eq(em, em2) == z3.And(
                       z3.ForAll([sk], mem(self.em_dom(em), sk) == mem(self.em_dom(em2), sk),
                                 patterns=[mem(self.em_dom(em), sk), mem(self.em_dom(em2), sk)]),
                       z3.ForAll([sk], z3.Implies(mem(self.em_dom(em), sk), self.em_get(em, sk) == self.em_get(em2, sk)),
                                 patterns=[self.em_get(em, sk), self.em_get(em2, sk)])),
                   [self.em_eq(em, em2)])
        self.axiom('em_eq_ext', [em, em2], z3.Implies(self.em_eq(em, em2), em == em2), [self.em_eq(em, em2)])
        # keyed(em): every entry is filed under its own key
        self.keyed = f('keyed', self.EM, B)
        self.axiom('keyed_def', [em],
                   self.keyed(em) == z3.ForAll([sk], z3.Implies(mem(self.em_dom(em), sk), self.e_skey(self.em_get(em, sk)) == sk),
                                               patterns=[self.em_get(em, sk)]),
                   [self.keyed(em)])
        # sorted(em.values(), key=lambda x: x.key): for a keyed map (entry keys = dict keys, hence pairwise distinct) the result
        # lists the values in increasing dict-key order.  [semantics of sorted() with a key function on distinct keys]
        self.sorted_entries = f('sorted_entries', self.EM, SE.sort)
        self.axiom('sorted_entries_len', [em],
                   z3.Implies(self.keyed(em), SE.len(self.sorted_entries(em)) == SS.len(self.sorted_keys(self.em_dom(em)))),
                   [self.sorted_entries(em)])
        self.axiom('sorted_entries_idx', [em, i],
                   z3.Implies(z3.And(self.keyed(em), 0 <= i, i < SE.len(self.sorted_entries(em))),
                              SE.idx(self.sorted_entries(em), i) == self.em_get(em, SS.idx(self.sorted_keys(self.em_dom(em)), i))),
                   [SE.idx(self.sorted_entries(em), i)])
        # type(x) is type(y), and the path-level lookups of diff_dicts
        self.has_preds = f('has_preds', self.Path, B)
        self.path_norm = f('path_norm', self.Path, self.Path)
        # preds_at(p) is DEFINED as the table entry under the normalised key (`p or '/'`), which is how every lookup in nbdime is made
        self.preds_raw = f('preds_raw', self.Path, self.seq('fn').sort)
        pq = z3.Const('pq', self.Path)
        self.axiom('path_norm_idem', [pq], self.path_norm(self.path_norm(pq)) == self.path_norm(pq), [self.path_norm(self.path_norm(pq))])
        self.axiom('preds_at_def0', [pq], self.preds_at(pq) == self.preds_raw(self.path_norm(pq)), [self.preds_at(pq)])

        # ---- Apply for mapping diffs:  am_dom / am_get as folds over the entry list ----
        # well-formed map diff relative to obj:  keys pairwise distinct; add => key not in obj; others => in obj
        self.wf_map = f('wf_map', SE.sort, self.M, B)
        self.axiom('wf_map_def', [D, m],
                   self.wf_map(D, m) == z3.And(
                       z3.ForAll([i], z3.Implies(
                           z3.And(0 <= i, i < SE.len(D)),
                           z3.And(
                               z3.Or(op(SE.idx(D, i)) == O['add'], op(SE.idx(D, i)) == O['remove'],
                                     op(SE.idx(D, i)) == O['replace'], op(SE.idx(D, i)) == O['patch']),
                               z3.Implies(op(SE.idx(D, i)) == O['add'],
                                          z3.And(z3.Not(self.mem(m, self.e_skey(SE.idx(D, i)))),
                                                 self.has['value'](SE.idx(D, i)))),
                               z3.Implies(op(SE.idx(D, i)) != O['add'],
                                          self.mem(m, self.e_skey(SE.idx(D, i)))),
                               z3.Implies(op(SE.idx(D, i)) == O['replace'], self.has['value'](SE.idx(D, i))),
                               z3.Implies(op(SE.idx(D, i)) == O['patch'],
                                          z3.And(self.has['diff'](SE.idx(D, i)),
                                                 SE.len(self.e_diff(SE.idx(D, i))) >= 1)))),
                           patterns=[SE.idx(D, i)]),
                       z3.ForAll([i, j], z3.Implies(z3.And(0 <= i, i < j, j < SE.len(D)),
                                                    self.e_skey(SE.idx(D, i)) != self.e_skey(SE.idx(D, j))),
                                 patterns=[z3.MultiPattern(SE.idx(D, i), SE.idx(D, j))])),
                   [self.wf_map(D, m)])
        # Apply_map(obj, D) characterised pointwise (documented meaning of the four mapping ops):
        #   key k is in the result iff (k in obj and no remove entry names k) or an add entry names k
        #   value: add/replace -> e.value ; patch -> apply_v(obj[k], e.diff) ; untouched -> obj[k]
        self.apply_map = f('apply_map', self.M, SE.sort, self.M)
        self.entry_for = f('entry_for', SE.sort, Str, I)      # index of the entry naming key k, or -1
        self.axiom('entry_for_range', [D, sk],
                   z3.And(-1 <= self.entry_for(D, sk), self.entry_for(D, sk) < SE.len(D),
                          z3.Implies(self.entry_for(D, sk) >= 0,
                                     self.e_skey(SE.idx(D, self.entry_for(D, sk))) == sk)),
                   [self.entry_for(D, sk)])
        self.axiom('entry_for_complete', [D, i],
                   z3.Implies(z3.And(0 <= i, i < SE.len(D)),
                              self.entry_for(D, self.e_skey(SE.idx(D, i))) >= 0),
                   [SE.idx(D, i)])
        ef = self.entry_for(D, sk)
        ent = SE.idx(D, ef)
        res = self.apply_map(m, D)
        self.axiom('apply_map_dom', [m, D, sk],
                   self.mem(res, sk) ==
                   z3.If(ef < 0, self.mem(m, sk), op(ent) != O['remove']),
                   [self.mem(res, sk)])
        self.axiom('apply_map_get', [m, D, sk],
                   self.m_get(res, sk) ==
                   z3.If(ef < 0, self.m_get(m, sk),
                         z3.If(op(ent) == O['patch'], self.apply_v(self.m_get(m, sk), self.e_diff(ent)),
                               self.e_value(ent))),
                   [self.m_get(res, sk)])

        # ---- typed values, part 2: dicts, and what patching a typed value means ----
        self.as_map = f('as_map', V, self.M)
        self.of_map = f('of_map', self.M, V)
        self.axiom('of_map_tag', [m], z3.And(self.is_dict(self.of_map(m)), self.as_map(self.of_map(m)) == m), [self.of_map(m)])
        self.axiom('as_map_inv', [v], z3.Implies(self.is_dict(v), self.of_map(self.as_map(v)) == v), [self.as_map(v)])
        # apply_v on containers IS the documented list / mapping application (strings: apply_v stays abstract, Kit S not built)
        self.axiom('apply_v_list', [v, D],
                   z3.Implies(self.is_list(v), self.apply_v(v, D) == self.of_list(self.apply_seq(self.as_list(v), D))),
                   [self.apply_v(v, D)])
        self.axiom('apply_v_dict', [v, D],
                   z3.Implies(self.is_dict(v), self.apply_v(v, D) == self.of_map(self.apply_map(self.as_map(v), D))),
                   [self.apply_v(v, D)])
        # wf_v(v, D): D is a well-formed diff for the typed value v, all the way down
        self.wf_str = f('wf_str', V, SE.sort, B)
        ent_i = SE.idx(D, i)
        self.axiom('wf_v_def', [v, D],
                   self.wf_v(v, D) == z3.Or(
                       z3.And(self.is_list(v), self.wf_seq(D, SV.len(self.as_list(v))),
                              z3.ForAll([i], z3.Implies(z3.And(0 <= i, i < SE.len(D), op(ent_i) == O['patch']),
                                                        self.wf_v(SV.idx(self.as_list(v), self.e_key(ent_i)), self.e_diff(ent_i))),
                                        patterns=[SE.idx(D, i)])),
                       z3.And(self.is_dict(v), self.wf_map(D, self.as_map(v)),
                              z3.ForAll([i], z3.Implies(z3.And(0 <= i, i < SE.len(D), op(ent_i) == O['patch']),
                                                        self.wf_v(self.m_get(self.as_map(v), self.e_skey(ent_i)), self.e_diff(ent_i))),
                                        patterns=[SE.idx(D, i)])),
                       z3.And(self.is_str(v), self.wf_str(v, D))),
                   [self.wf_v(v, D)])

    def all_axioms(self):
        return [a for _, a in self.axioms]

    def focused_axioms(self, goal, extra_terms=()):
        """All axioms except the definitions of spec predicates that the goal does not mention (directly or through the
        definitions it does mention).  Fewer axioms is always sound; hypotheses keep those predicates as opaque atoms."""
        need = set()

        def scan(t):
            stack = [t]
            seen = set()
            while stack:
                x = stack.pop()
                if x.get_id() in seen:
                    continue
                seen.add(x.get_id())
                if z3.is_quantifier(x):
                    stack.append(x.body())
                    continue
                if z3.is_app(x):
                    n = x.decl().name()
                    if n in self.defs and n not in need:
                        need.add(n)
                        stack.append(self.defs[n][1])
                    stack.extend(x.children())
        scan(goal)
        for t in extra_terms:
            scan(t)
        out = []
        for name, a in self.axioms:
            if name.endswith('_def') and name[:-4] in self.defs and name[:-4] not in need:
                continue
            out.append(a)
        return out


def kind_name(kind):
    if isinstance(kind, tuple):
        return kind[0] + '_' + '_'.join(kind_name(k) for k in kind[1:])
    return str(kind)
