"""Discharge obligations: each is exported to SMT-LIB 2 text and solved in a worker process.
Back ends, in order: z3 5.x API (e-matching only: auto_config/mbqi off), then on anything but
`unsat` the CLI solvers /usr/bin/z3 4.8.12 and /usr/bin/cvc5 on the same text.  Only `unsat`
discharges an obligation."""
import os
import subprocess
import tempfile
import time
from concurrent.futures import ProcessPoolExecutor

import z3

# Budgets are RESOURCE limits (z3 rlimit: a deterministic count of solver steps), not wall-clock limits, so that a verdict
# does not depend on how busy the machine is.  The wall-clock values are only a generous safety net.
Z3_RLIMIT = int(os.environ.get('PYVC_Z3_RLIMIT', '40000000'))
Z3_TIMEOUT_MS = int(os.environ.get('PYVC_Z3_TIMEOUT_MS', '600000'))
CLI_RLIMIT = int(os.environ.get('PYVC_CLI_RLIMIT', '40000000'))
CLI_TIMEOUT_S = int(os.environ.get('PYVC_CLI_TIMEOUT_S', '600'))
CVC5_TLIMIT_S = int(os.environ.get('PYVC_CVC5_TLIMIT_S', '20'))


def to_smt2(axioms, hyps, goal):
    s = z3.Solver()
    for a in axioms:
        s.add(a)
    for h in hyps:
        s.add(h)
    s.add(z3.Not(goal))
    return s.to_smt2()


def _solve_z3api(text, timeout_ms, rlimit=None):
    ctx = z3.Context()
    s = z3.Solver(ctx=ctx)
    s.set('auto_config', False)
    s.set('mbqi', False)
    s.set('timeout', timeout_ms)
    s.set('rlimit', rlimit or Z3_RLIMIT)
    s.from_string(text)
    t0 = time.time()
    r = s.check()
    return str(r), time.time() - t0


def _solve_pair(text, rlimit):
    import threading
    box = {}

    def cli():
        box['cli'] = _solve_cli(['/usr/bin/z3', 'smt.auto_config=false', 'smt.mbqi=false', 'rlimit=%d' % rlimit,
                                 '-T:%d' % CLI_TIMEOUT_S], text, CLI_TIMEOUT_S + 5)
    th = threading.Thread(target=cli)
    th.start()
    try:
        r, dt = _solve_z3api(text, Z3_TIMEOUT_MS, rlimit)
    except Exception as exc:
        r, dt = 'error:%s' % type(exc).__name__, 0.0
    th.join()
    return [('z3-%s-api' % z3.get_version_string(), r, dt), ('z3-4.8.12-cli',) + tuple(box['cli'])]


def _solve_cli(cmd, text, timeout_s):
    fd, path = tempfile.mkstemp(suffix='.smt2')
    try:
        with os.fdopen(fd, 'w') as fh:
            fh.write(text)
        t0 = time.time()
        try:
            p = subprocess.run(cmd + [path], capture_output=True, text=True, timeout=timeout_s)
            out = (p.stdout or '').strip().splitlines()
            r = out[0].strip() if out else 'unknown'
        except subprocess.TimeoutExpired:
            r = 'timeout'
        return r, time.time() - t0
    finally:
        os.unlink(path)


FOCUSED_RLIMIT = int(os.environ.get('PYVC_FOCUSED_RLIMIT', '8000000'))


def solve_one(job):
    """Run the z3 5.x API and the z3 4.8.12 CLI concurrently on the same text (they succeed on
    different obligations); cvc5 is tried when neither answers unsat."""
    import threading
    oid, text, want_second = job
    hit = _cache_get(text)
    if hit is not None and want_second in ('focused', False, None):
        return oid, [('cache(%s)' % hit, 'unsat', 0.0)]
    if want_second == 'focused':
        res = _solve_pair(text, FOCUSED_RLIMIT)
        _cache_put(text, res)
        return oid, res
    results = []
    box = {}

    def cli():
        box['cli'] = _solve_cli(['/usr/bin/z3', 'smt.auto_config=false', 'smt.mbqi=false', 'rlimit=%d' % CLI_RLIMIT,
                                 '-T:%d' % CLI_TIMEOUT_S], text, CLI_TIMEOUT_S + 5)
    th = threading.Thread(target=cli)
    th.start()
    try:
        r, dt = _solve_z3api(text, Z3_TIMEOUT_MS)
    except Exception as exc:            # solver crash is not a verdict
        r, dt = 'error:%s' % type(exc).__name__, 0.0
    results.append(('z3-%s-api' % z3.get_version_string(), r, dt))
    th.join()
    r2, dt2 = box['cli']
    results.append(('z3-4.8.12-cli', r2, dt2))
    if r != 'unsat' and r2 != 'unsat':
        r3, dt3 = _solve_cli(['/usr/bin/cvc5', '--tlimit=%d' % (CVC5_TLIMIT_S * 1000)], text, CVC5_TLIMIT_S + 5)
        results.append(('cvc5-1.0.3-cli', r3, dt3))
    _cache_put(text, results)
    return oid, results


# Verdict cache: `unsat` answers keyed by the SHA-256 of the complete SMT-LIB text of the query (axioms, hypotheses, goal).
# The text is regenerated from /repo's current source on every run; only the solver call is skipped when the identical
# query was already refuted.  Disabled with PYVC_CACHE=0; lives in /verif/.cache (git-ignored, absent after a fresh restore).
CACHE_DIR = os.path.join(os.path.dirname(os.path.dirname(os.path.abspath(__file__))), '.cache', 'smt')


def _cache_key(text):
    import hashlib
    return hashlib.sha256(text.encode()).hexdigest()


def _cache_get(text):
    if os.environ.get('PYVC_CACHE', '1') == '0':
        return None
    try:
        with open(os.path.join(CACHE_DIR, _cache_key(text))) as fh:
            return fh.read().strip() or None
    except OSError:
        return None


def _cache_put(text, results):
    if os.environ.get('PYVC_CACHE', '1') == '0':
        return
    for name, verdict, _ in results:
        if verdict == 'unsat':
            try:
                os.makedirs(CACHE_DIR, exist_ok=True)
                tmp = os.path.join(CACHE_DIR, '.%d.tmp' % os.getpid())
                with open(tmp, 'w') as fh:
                    fh.write(name)
                os.replace(tmp, os.path.join(CACHE_DIR, _cache_key(text)))
            except OSError:
                pass
            return


_fresh = [0]


def light_split(th, goal, out=None, depth=0, extra=None):
    """Split conjunctions (also under a top-level implication, whose antecedent becomes a hypothesis),
    unfolding a defined predicate only when its body is itself a conjunction.
    Returns [(extra_hyps, goal)]."""
    out = out if out is not None else []
    extra = extra or []
    if z3.is_and(goal):
        for c in goal.children():
            light_split(th, c, out, depth, extra)
        return out
    if z3.is_implies(goal) and depth < 4:
        a, b = goal.children()
        return light_split(th, b, out, depth + 1, extra + [a])
    if depth < 4:
        u = th.unfold(goal)
        if u is not None and z3.is_and(u):
            return light_split(th, u, out, depth + 1, extra)
    out.append((extra, goal))
    return out


def decompose(th, goal, extra=None, out=None, depth=0):
    """Goal-directed introduction rules: unfold defined predicates, split conjunctions, introduce
    universals as fresh constants, move antecedents to the hypotheses.  Returns [(extra_hyps, goal)];
    proving every piece proves the goal."""
    extra = extra or []
    out = out if out is not None else []
    g = goal
    if depth < 8:
        if z3.is_and(g):
            for c in g.children():
                decompose(th, c, extra, out, depth)
            return out
        if z3.is_implies(g):
            a, b = g.children()
            return decompose(th, b, extra + [a], out, depth + 1)
        if z3.is_quantifier(g) and g.is_forall():
            n = g.num_vars()
            consts = []
            for i in range(n):
                _fresh[0] += 1
                consts.append(z3.Const('%s!g%d' % (g.var_name(i), _fresh[0]), g.var_sort(i)))
            body = z3.substitute_vars(g.body(), *reversed(consts))
            return decompose(th, body, extra, out, depth + 1)
        u = th.unfold(g)
        if u is not None:
            return decompose(th, u, extra, out, depth + 1)
    out.append((extra, g))
    return out


def _run(jobs, workers):
    with ProcessPoolExecutor(max_workers=workers) as ex:
        return list(ex.map(solve_one, jobs, chunksize=1))


def discharge(th, obligations, second_backend=False, workers=None):
    """Solve all obligations in parallel; fills in .status/.backend/.seconds.
    Stage 1: the goal as stated.  Stage 2 (only for goals stage 1 left open): the goal decomposed by
    introduction rules; the obligation is discharged iff every piece is unsat."""
    axioms = th.all_axioms()
    workers = workers or min(16, os.cpu_count() or 4)
    by_id = {o.id: o for o in obligations}
    jobs, owner1 = [], {}
    pieces = {}
    for o in obligations:
        o.trace, o.seconds, o.parts1 = [], 0.0, []
        for n, (extra, g) in enumerate(light_split(th, o.goal)):
            pid = '%s/c%d' % (o.id, n)
            owner1[pid] = o
            pieces[pid] = (o, extra, g)
            # stage 0: focused axioms (definitions of spec predicates the goal does not mention are left out), small budget
            jobs.append((pid, to_smt2(th.focused_axioms(g), o.hyps + extra, g), 'focused'))
    if not jobs:
        return
    dump = os.environ.get('PYVC_DUMP')
    stage0 = dict(_run(jobs, workers))
    jobs = []
    done0 = {}
    for pid, results in stage0.items():
        if any(r[1] == 'unsat' for r in results) and not second_backend:
            done0[pid] = results
        else:
            o, extra, g = pieces[pid]
            jobs.append((pid, to_smt2(axioms, o.hyps + extra, g), second_backend))
    texts = {j[0]: j[1] for j in jobs} if dump else {}
    stage1 = _run(jobs, workers) if jobs else []
    merged = [(pid, [(b + '[focused]', v, dt) for b, v, dt in res]) for pid, res in done0.items()]
    merged += [(pid, [(b + '[focused]', v, dt) for b, v, dt in stage0.get(pid, []) if v == 'unsat'] + list(res)) for pid, res in stage1]
    for pid, results in merged:
        if dump and not any(r[1] == 'unsat' for r in results):
            os.makedirs(dump, exist_ok=True)
            with open(os.path.join(dump, pid.replace('/', '_').replace('#', '_') + '.smt2'), 'w') as fh:
                fh.write(texts[pid])
        o = owner1[pid]
        o.trace.extend(results)
        o.seconds += min([r[2] for r in results if r[1] == 'unsat'] or [sum(r[2] for r in results[1:])])
        verdicts = [r[1] for r in results]
        ok = 'unsat' in verdicts
        if ok and second_backend and any(v == 'sat' for v in verdicts):
            ok = 'disagree'
        o.parts1.append((ok, verdicts[0] if verdicts else 'unknown',
                         [r[0] for r in results if r[1] == 'unsat'][:1], pid))
    for o in obligations:
        if all(p[0] is True for p in o.parts1):
            o.status = 'unsat'
            o.backend = '+'.join(sorted({b for p in o.parts1 for b in p[2]}))
        elif any(p[0] == 'disagree' for p in o.parts1):
            o.status = 'disagree'
        else:
            o.status = [p[1] for p in o.parts1 if p[0] is not True][0]
            o.backend = None
    open_ = [o for o in obligations if o.status != 'unsat']
    jobs2, owner = [], {}
    for o in open_:
        pieces = decompose(th, o.goal)
        if len(pieces) == 1 and not pieces[0][0] and pieces[0][1].eq(o.goal):
            continue
        o.pieces = []
        for n, (extra, g) in enumerate(pieces):
            pid = '%s/p%d' % (o.id, n)
            owner[pid] = o
            jobs2.append((pid, to_smt2(axioms, o.hyps + extra, g), False))
    if jobs2:
        for pid, results in _run(jobs2, workers):
            o = owner[pid]
            ok = any(r[1] == 'unsat' for r in results)
            o.pieces.append((pid, ok, results))
            o.seconds += min([r[2] for r in results if r[1] == 'unsat'] or [sum(r[2] for r in results[1:])])
        for o in open_:
            if getattr(o, 'pieces', None) and all(ok for _, ok, _ in o.pieces):
                o.status = 'unsat'
                o.backend = 'decomposed(%d):' % len(o.pieces) + '+'.join(sorted({r[0] for _, _, rs in o.pieces for r in rs if r[1] == 'unsat'}))


def check_not_provable(th, hyps, timeout_ms=3000):
    """Vacuity guard: `hyps |- False` must NOT be provable.  Returns True when non-vacuous
    (i.e. the solver does not answer unsat)."""
    text = to_smt2(th.all_axioms(), hyps, z3.BoolVal(False))
    r, _ = _solve_z3api(text, timeout_ms)
    return r != 'unsat'


def _vac_one(job):
    label, text = job
    try:
        r, dt = _solve_z3api(text, 2500)
    except Exception as exc:
        r, dt = 'error', 0.0
    if r != 'unsat':
        return label, True, r, dt
    return label, False, r, dt


def vacuity(th, points, workers=None):
    """points: [(label, hyps)].  Returns [(label, nonvacuous: bool, verdict, seconds)]: a point whose
    hypotheses prove False makes every obligation behind it vacuous."""
    axioms = th.all_axioms()
    jobs = [(label, to_smt2(axioms, hyps, z3.BoolVal(False))) for label, hyps in points]
    if not jobs:
        return []
    with ProcessPoolExecutor(max_workers=workers or min(16, os.cpu_count() or 4)) as ex:
        return list(ex.map(_vac_one, jobs, chunksize=1))
