"""Discharge obligations: each is exported to SMT-LIB 2 text and solved in a worker process.
Back ends, in order: z3 5.x API (e-matching only: auto_config/mbqi off), then on anything but
`unsat` the CLI solvers /usr/bin/z3 4.8.12 and /usr/bin/cvc5 on the same text.  Only `unsat`
discharges an obligation."""
import os
import subprocess
import tempfile
import time
from concurrent.futures import ProcessPoolExecutor

import z3

Z3_TIMEOUT_MS = int(os.environ.get('PYVC_Z3_TIMEOUT_MS', '8000'))
CLI_TIMEOUT_S = int(os.environ.get('PYVC_CLI_TIMEOUT_S', '12'))


def to_smt2(axioms, hyps, goal):
    s = z3.Solver()
    for a in axioms:
        s.add(a)
    for h in hyps:
        s.add(h)
    s.add(z3.Not(goal))
    return s.to_smt2()


def _solve_z3api(text, timeout_ms):
    ctx = z3.Context()
    s = z3.Solver(ctx=ctx)
    s.set('auto_config', False)
    s.set('mbqi', False)
    s.set('timeout', timeout_ms)
    s.from_string(text)
    t0 = time.time()
    r = s.check()
    return str(r), time.time() - t0


def _solve_cli(cmd, text, timeout_s):
    fd, path = tempfile.mkstemp(suffix='.smt2')
    try:
        with os.fdopen(fd, 'w') as fh:
            fh.write(text)
        t0 = time.time()
        try:
            p = subprocess.run(cmd + [path], capture_output=True, text=True, timeout=timeout_s)
            out = (p.stdout or '').strip().splitlines()
            r = out[0].strip() if out else 'unknown'
        except subprocess.TimeoutExpired:
            r = 'timeout'
        return r, time.time() - t0
    finally:
        os.unlink(path)


def solve_one(job):
    oid, text, want_second = job
    results = []
    try:
        r, dt = _solve_z3api(text, Z3_TIMEOUT_MS)
    except Exception as exc:            # solver crash is not a verdict
        r, dt = 'error:%s' % type(exc).__name__, 0.0
    results.append(('z3-%s-api' % z3.get_version_string(), r, dt))
    if r != 'unsat' or want_second:
        r2, dt2 = _solve_cli(['/usr/bin/z3', 'smt.auto_config=false', 'smt.mbqi=false', '-T:%d' % CLI_TIMEOUT_S],
                             text, CLI_TIMEOUT_S + 5)
        results.append(('z3-4.8.12-cli', r2, dt2))
        if r != 'unsat' and r2 != 'unsat':
            r3, dt3 = _solve_cli(['/usr/bin/cvc5', '--tlimit=%d' % (CLI_TIMEOUT_S * 1000)], text, CLI_TIMEOUT_S + 5)
            results.append(('cvc5-1.0.3-cli', r3, dt3))
    return oid, results


def discharge(th, obligations, second_backend=False, workers=None):
    """Solve all obligations in parallel; fills in .status/.backend/.seconds."""
    axioms = th.all_axioms()
    jobs = []
    for o in obligations:
        jobs.append((o.id, to_smt2(axioms, o.hyps, o.goal), second_backend))
    by_id = {o.id: o for o in obligations}
    workers = workers or min(16, os.cpu_count() or 4)
    if not jobs:
        return
    with ProcessPoolExecutor(max_workers=workers) as ex:
        for oid, results in ex.map(solve_one, jobs, chunksize=1):
            o = by_id[oid]
            o.trace = results
            o.seconds = sum(r[2] for r in results)
            verdicts = [r[1] for r in results]
            if 'unsat' in verdicts:
                o.status = 'unsat'
                o.backend = [r[0] for r in results if r[1] == 'unsat'][0]
                if second_backend and any(v == 'sat' for v in verdicts):
                    o.status = 'disagree'
            else:
                o.status = verdicts[0] if verdicts else 'unknown'
                o.backend = None


def check_not_provable(th, hyps, timeout_ms=3000):
    """Vacuity guard: `hyps |- False` must NOT be provable.  Returns True when non-vacuous
    (i.e. the solver does not answer unsat)."""
    text = to_smt2(th.all_axioms(), hyps, z3.BoolVal(False))
    r, _ = _solve_z3api(text, timeout_ms)
    return r != 'unsat'
