"""Forward symbolic executor over the real Python AST of /repo functions.

One verification condition per path segment; loops are cut at the head by the sidecar invariant,
calls are replaced by the callee's contract.  Values are SMT terms over pyvc.theory.
What of Python is assumed / dropped is listed in ASSUMPTIONS (copied into every evidence file).
"""
import ast
import itertools
import z3

from .frontend import (OutOfSubset, TargetMissing, find_function, load_module, class_constants)
from .theory import Theory, kind_name

ASSUMPTIONS = [
    "Python ints are mathematical integers (true of CPython); floats do not occur in verified code",
    "lists are modelled as values; sound because a syntactic check rejects (out-of-subset) any function in which "
    "a mutated list is aliased by a plain assignment",
    "copy.deepcopy(x) and NotebookNode(x) are the identity on values (their frame effect is handled by the frame analysis, not here)",
    "docstrings, comments, logging calls and the message operand of assert/raise are dropped",
    "isinstance tests whose outcome is fixed by the declared sort of the operand are evaluated statically",
    "predicates and differs passed as values are deterministic, total, side-effect-free functions of their arguments (uninterpreted)",
    "recursion depth, memory exhaustion and wall-clock are not modelled",
]

MUTATORS = {'append', 'extend', 'insert', 'reverse', 'pop', 'sort', 'remove', 'clear', 'add', 'discard', 'update', 'setdefault',
            'popitem', 'appendleft', 'popleft'}


def _mutable_kind(kind):
    return (isinstance(kind, tuple) and kind[0] == 'seq') or kind in ('map', 'emap', 'kset')


class EngineDefect(Exception):
    "an internal soundness guard of the engine fired: nothing is reported as proved"


class SVal:
    __slots__ = ('kind', 't')

    def __init__(self, kind, t):
        self.kind = kind
        self.t = t

    def __repr__(self):
        return 'SVal(%r, %s)' % (self.kind, self.t)


CONST = ('const',)
OPAQUE = ('opaque',)
EMPTYLIST = ('seq', '?')


def const(v):
    return SVal(CONST, v)


class State:
    def __init__(self):
        self.env = {}
        self.heap = {}
        self.pc = []
        self.guards = []
        self.fresh_objs = set()

    def fork(self):
        s = State()
        s.env = dict(self.env)
        s.heap = dict(self.heap)
        s.pc = list(self.pc)
        s.guards = list(self.guards)
        s.fresh_objs = set(self.fresh_objs)
        return s

    def hyps(self):
        return self.pc + self.guards


class Obligation:
    def __init__(self, oid, func, kind, line, text, hyps, goal):
        self.id = oid
        self.func = func
        self.kind = kind
        self.line = line
        self.text = text
        self.hyps = hyps
        self.goal = goal
        self.status = None
        self.backend = None
        self.seconds = 0.0
        self.properties = []


class Registry:
    """All sidecar contracts, class specs and lemmas."""

    def __init__(self):
        self.contracts = {}
        self.classes = {}
        self.lemmas = {}

    def load(self, path):
        from .frontend import parse_contracts
        c, k, g = parse_contracts(path)
        dup = set(c) & set(self.contracts)
        if dup:
            raise EngineDefect('contract defined twice: %s' % sorted(dup))
        self.contracts.update(c)
        self.classes.update(k)
        self.lemmas.update(g)


class Exec:
    def __init__(self, th, reg, qualname, repo=None):
        self.th = th
        self.reg = reg
        self.qualname = qualname
        self.repo = repo
        self.contract = reg.contracts[qualname]
        if qualname in reg.lemmas:
            self.mod = None
            self.fn = self.contract.node
            self.body = self.contract.body
            self.cls = None
        else:
            self.mod, self.fn, self.cls = find_function(qualname.split('#')[0], repo)
            self.body = self.fn.body
        self.obls = []
        self.counter = itertools.count()
        self.havoc_stack = []
        self.objcounter = itertools.count(1)
        self.loop_ord = {}
        loops = [n for n in ast.walk(ast.Module(body=self.body, type_ignores=[]))
                 if isinstance(n, (ast.For, ast.While))]
        loops.sort(key=lambda n: (n.lineno, n.col_offset))
        for i, n in enumerate(loops):
            self.loop_ord[id(n)] = i + 1
        # ordinal (source order) of each assignment statement to a plain name: key of the after_assign ghost clauses
        self.assign_ord = {}
        seen = {}
        assigns = [n for n in ast.walk(ast.Module(body=self.body, type_ignores=[]))
                   if isinstance(n, ast.Assign) and len(n.targets) == 1 and isinstance(n.targets[0], ast.Name)]
        assigns.sort(key=lambda n: (n.lineno, n.col_offset))
        for n in assigns:
            seen[n.targets[0].id] = seen.get(n.targets[0].id, 0) + 1
            self.assign_ord[id(n)] = (n.targets[0].id, seen[n.targets[0].id])
        for key in getattr(self.contract, 'after_assign', {}):
            if key not in self.assign_ord.values():
                raise TargetMissing('after_assign%r: no such assignment in %s' % (key, qualname))
        self.old = None
        self.spec_mode = False
        self.loop_exit = {}
        self.vac_points = []     # (label, hyps): each must NOT be contradictory
        self.obl_seq = itertools.count(1)
        self.reached = set()

    # ---------------------------------------------------------------- utilities
    def fresh(self, kind, hint='v'):
        name = '%s!%d' % (hint, next(self.counter))
        if kind == CONST or kind == OPAQUE:
            return SVal(OPAQUE, name)
        if isinstance(kind, tuple) and kind[0] == 'tuple':
            return SVal(kind, [self.fresh(k, hint) for k in kind[1:]])
        if isinstance(kind, tuple) and kind[0] == 'obj':
            return self.new_object(kind[1], None, hint)
        return SVal(kind, z3.Const(name, self.th.sort_of(kind)))

    def new_object(self, cls, st, hint='o'):
        oid = next(self.objcounter)
        o = SVal(('obj', cls), oid)
        o_fields = self.reg.classes.get(cls)
        self._pending_fields = getattr(self, '_pending_fields', {})
        self._pending_fields[oid] = (cls, o_fields, hint)
        return o

    def init_fields(self, o, st):
        cls, spec, hint = self._pending_fields[o.t]
        if spec is None:
            return
        for fname, fkind in spec.fields.items():
            if (o.t, fname) not in st.heap:
                st.heap[(o.t, fname)] = self.fresh(fkind, '%s.%s' % (hint, fname))

    def oblige(self, st, kind, node, goal, text):
        """Record an obligation, one per top-level conjunct of the goal."""
        if isinstance(goal, bool):
            if goal:
                return
            goal = z3.BoolVal(False)
        goals = self.split(goal)
        line = getattr(node, 'lineno', 0)
        for n, g in enumerate(goals):
            if z3.is_true(g):
                continue
            oid = '%s#%s@%d.%d' % (self.qualname, kind, line, next(self.obl_seq))
            self.obls.append(Obligation(oid, self.qualname, kind, line,
                                        text + (' [conjunct %d/%d]' % (n + 1, len(goals)) if len(goals) > 1 else ''),
                                        st.hyps(), g))

    def split(self, g):
        if z3.is_and(g):
            out = []
            for c in g.children():
                out.extend(self.split(c))
            return out
        return [g]

    def assume(self, st, fact):
        if isinstance(fact, bool):
            if not fact:
                st.pc.append(z3.BoolVal(False))
            return
        st.pc.append(fact)

    # ---------------------------------------------------------------- kinds / coercions
    def seqth(self, kind):
        return self.th.seq(kind[1])

    def coerce_empty(self, v, kind):
        if v.kind == EMPTYLIST and isinstance(kind, tuple) and kind[0] == 'seq' and kind[1] != '?':
            return SVal(kind, self.th.seq(kind[1]).empty)
        return v

    def unify(self, a, b):
        if a.kind == EMPTYLIST and b.kind != EMPTYLIST:
            a = self.coerce_empty(a, b.kind)
        if b.kind == EMPTYLIST and a.kind != EMPTYLIST:
            b = self.coerce_empty(b, a.kind)
        return a, b

    def to_int(self, v):
        if v.kind == 'int':
            return v.t
        if v.kind == CONST and isinstance(v.t, bool):
            return z3.IntVal(int(v.t))
        if v.kind == CONST and isinstance(v.t, int):
            return z3.IntVal(v.t)
        if v.kind == 'bool':
            return z3.If(v.t, 1, 0)
        raise OutOfSubset('expected int, got %r' % (v.kind,))

    def lift(self, v, kind):
        "lift a python constant to a term of `kind` when possible"
        if v.kind == kind:
            return v
        if v.kind == EMPTYLIST:
            return self.coerce_empty(v, kind)
        if kind == 'int' and v.kind in (CONST, 'bool'):
            return SVal('int', self.to_int(v))
        if kind == 'bool' and v.kind == CONST and isinstance(v.t, bool):
            return SVal('bool', z3.BoolVal(v.t))
        if kind == 'T3' and v.kind == CONST and isinstance(v.t, tuple) and len(v.t) == 3 and all(type(x) is int for x in v.t):
            return SVal('T3', self.th.T3.mk3(*[z3.IntVal(x) for x in v.t]))
        if kind == 'T3' and isinstance(v.kind, tuple) and v.kind[0] == 'tuple' and len(v.t) == 3:
            return SVal('T3', self.th.T3.mk3(*[self.to_int(x) for x in v.t]))
        if kind == 'E' and v.kind == 'ME' or kind == 'ME' and v.kind == 'E':
            return SVal(kind, v.t)
        if kind == 'V' and v.kind == 'map':
            return SVal('V', self.th.of_map(v.t))          # a dict is a value
        if kind == 'V' and v.kind == ('seq', 'V'):
            return SVal('V', self.th.of_list(v.t))         # a list of values is a value
        if kind == 'emap' and v.kind == 'map' and v.t.eq(self.th.m_empty):
            return SVal('emap', self.th.em_empty)
        if isinstance(kind, tuple) and isinstance(v.kind, tuple) and kind[0] == 'seq' and v.kind[0] == 'seq' \
                and kind[1] in ('E', 'ME') and v.kind[1] in ('E', 'ME'):
            return SVal(kind, v.t)
        if isinstance(kind, tuple) and kind[0] == 'tuple' and v.kind == CONST and isinstance(v.t, tuple) \
                and len(v.t) == len(kind) - 1:
            return SVal(kind, [self.lift(const(x), k) for x, k in zip(v.t, kind[1:])])
        if isinstance(kind, tuple) and kind[0] == 'tuple' and v.kind == 'T3':
            return SVal(kind, [SVal('int', self.th.T3.t0(v.t)), SVal('int', self.th.T3.t1(v.t)),
                               SVal('int', self.th.T3.t2(v.t))])
        if isinstance(kind, tuple) and kind[0] == 'tuple' and isinstance(v.kind, tuple) and v.kind[0] == 'tuple':
            return SVal(kind, [self.lift(x, k) for x, k in zip(v.t, kind[1:])])
        raise OutOfSubset('cannot use value of kind %r where %r is needed' % (v.kind, kind))

    def truth(self, v):
        k = v.kind
        if k == 'bool' or k == ('truth',):
            return v.t
        if k == 'int':
            return v.t != 0
        if k == CONST:
            return bool(v.t)
        if k == EMPTYLIST:
            return False
        if isinstance(k, tuple) and k[0] == 'seq':
            return self.seqth(k).len(v.t) > 0
        if isinstance(k, tuple) and k[0] == 'tuple':
            return len(v.t) > 0
        if isinstance(k, tuple) and k[0] == 'obj':
            return True
        if k in ('E', 'ME'):
            return True
        raise OutOfSubset('truthiness of kind %r' % (k,))

    def zbool(self, b):
        return z3.BoolVal(b) if isinstance(b, bool) else b

    def equal(self, a, b, exact):
        """python == (exact=False, code) or spec equality (exact=True)."""
        a, b = self.unify(a, b)
        if a.kind == CONST and b.kind == CONST:
            if exact:
                return type(a.t) is type(b.t) and a.t == b.t
            return a.t == b.t
        if a.kind == CONST and a.t is None or b.kind == CONST and b.t is None:
            return False   # symbolic values of a declared kind are never None
        if a.kind == 'Op' or b.kind == 'Op':
            a, b = (a, b) if a.kind == 'Op' else (b, a)
            if b.kind == CONST and isinstance(b.t, str):
                if b.t not in self.th.ops:
                    return False
                return a.t == self.th.ops[b.t]
            if b.kind == 'Op':
                return a.t == b.t
            raise OutOfSubset('op compared with %r' % (b.kind,))
        if a.kind in ('int', 'bool') or b.kind in ('int', 'bool'):
            if a.kind == 'bool' and b.kind == 'bool':
                return a.t == b.t
            return self.to_int(a) == self.to_int(b)
        if a.kind == EMPTYLIST and b.kind == EMPTYLIST:
            return True
        if a.kind != b.kind:
            try:
                b = self.lift(b, a.kind)
            except OutOfSubset:
                a = self.lift(a, b.kind)
        k = a.kind
        if isinstance(k, tuple) and k[0] == 'seq':
            if not exact and k[1] == 'V':
                raise OutOfSubset('python == on lists of values')
            return self.seqth(k).eq(a.t, b.t)
        if isinstance(k, tuple) and k[0] == 'tuple':
            parts = [self.equal(x, y, exact) for x, y in zip(a.t, b.t)]
            return z3.And(*[self.zbool(p) for p in parts])
        if k == 'V':
            return (a.t == b.t) if exact else self.th.pyeq(a.t, b.t)
        if k == 'map':
            if not exact:
                raise OutOfSubset('python == on dicts')
            return self.th.m_eq(a.t, b.t)
        if k == 'emap':
            if not exact:
                raise OutOfSubset('python == on entry maps')
            return self.th.em_eq(a.t, b.t)
        if k in ('str', 'path', 'E', 'ME', 'T3', 'fn', 'kset'):
            return a.t == b.t
        raise OutOfSubset('equality on kind %r' % (k,))

    # ---------------------------------------------------------------- expression evaluation
    def ev(self, node, st):
        m = getattr(self, 'ev_' + type(node).__name__, None)
        if m is None:
            raise OutOfSubset('expression %s at line %s' % (type(node).__name__, getattr(node, 'lineno', '?')))
        return m(node, st)

    def ev_Constant(self, node, st):
        return const(node.value)

    def ev_Name(self, node, st):
        if node.id in st.env:
            return st.env[node.id]
        if node.id == 'result' and self.spec_mode:
            raise OutOfSubset('result not bound')
        if node.id in ('True', 'False', 'None'):
            return const({'True': True, 'False': False, 'None': None}[node.id])
        if self.mod is not None:
            q = self.mod.resolve(node.id)
            if q is not None:
                if node.id in self.mod.consts and node.id not in self.mod.defs:
                    return const(self.mod.consts[node.id])
                return SVal(('ref',), q)
        return SVal(('ref',), 'builtins.' + node.id)

    def ev_Attribute(self, node, st):
        base = self.ev(node.value, st)
        return self.getattr_(base, node.attr, node, st)

    def getattr_(self, base, attr, node, st):
        th = self.th
        k = base.kind
        if k in ('E', 'ME'):
            if attr == 'op':
                return SVal('Op', th.e_op(base.t))
            if attr == 'key':
                return SVal('int', th.e_key(base.t)) if k == 'E' else SVal('str', th.e_skey(base.t))
            if attr in th.has:
                if not self.spec_mode:
                    self.oblige(st, 'attr', node, th.has[attr](base.t), 'entry has field .%s' % attr)
                if attr == 'valuelist':
                    return SVal(('seq', 'V'), th.e_valuelist(base.t))
                if attr == 'length':
                    return SVal('int', th.e_length(base.t))
                if attr == 'diff':
                    return SVal(('seq', 'E'), th.e_diff(base.t))
                if attr == 'value':
                    return SVal('V', th.e_value(base.t))
            raise OutOfSubset('entry attribute .%s' % attr)
        if isinstance(k, tuple) and k[0] == 'obj':
            if base.t in getattr(self, '_pending_fields', {}):
                self.init_fields(base, st)
            if (base.t, attr) in st.heap:
                return st.heap[(base.t, attr)]
            return SVal(('boundmethod',), (base, attr))
        if k == ('ref',):
            q = base.t + '.' + attr
            parts = base.t.split('.')
            try:
                consts = class_constants(base.t, self.repo)
            except Exception:
                consts = {}
            if attr in consts and not isinstance(consts[attr], ast.AST):
                return const(consts[attr])
            if attr in consts:
                return self.ev_static(consts[attr], base.t)
            return SVal(('ref',), q)
        if k == 'cfg' and attr in ('differs', 'predicates'):
            return SVal(('cfgattr',), attr)
        if k == 'T3':
            raise OutOfSubset('attribute on tuple')
        return SVal(('boundmethod',), (base, attr))

    def ev_static(self, node, clsqual):
        "evaluate a class-level constant expression such as (DiffOp.ADDRANGE, DiffOp.PATCH)"
        modname = clsqual.rsplit('.', 1)[0]
        mod = load_module(modname, self.repo)
        if isinstance(node, ast.Tuple):
            return const(tuple(self.ev_static(e, clsqual).t for e in node.elts))
        if isinstance(node, ast.Attribute) and isinstance(node.value, ast.Name):
            q = mod.resolve(node.value.id)
            c = class_constants(q, self.repo)
            return const(c[node.attr])
        if isinstance(node, ast.Constant):
            return const(node.value)
        raise OutOfSubset('static expression')

    def ev_Tuple(self, node, st):
        vals = [self.ev(e, st) for e in node.elts]
        if all(v.kind == CONST for v in vals):
            return const(tuple(v.t for v in vals))
        return SVal(('tuple',) + tuple(v.kind for v in vals), vals)

    def ev_List(self, node, st):
        if not node.elts:
            return SVal(EMPTYLIST, None)
        vals = [self.ev(e, st) for e in node.elts]
        k = None
        for v in vals:
            if v.kind != CONST:
                k = v.kind
        if k is None:
            k = 'int' if all(isinstance(v.t, int) for v in vals) else None
        if k is None and all(isinstance(v.t, tuple) and len(v.t) == 3 and all(type(x) is int for x in v.t) for v in vals):
            k = 'T3'
        if k is None:
            raise OutOfSubset('list literal of constants')
        if isinstance(k, tuple) and k[0] == 'tuple' and len(k) == 4:
            k = 'T3'
        s = self.th.seq(k)
        t = s.empty
        for v in vals:
            t = s.app(t, s.unit(self.lift(v, k).t))
        return SVal(('seq', k), t)

    def ev_Dict(self, node, st):
        if node.keys:
            raise OutOfSubset('non-empty dict literal')
        return SVal('map', self.th.m_empty)

    def ev_UnaryOp(self, node, st):
        v = self.ev(node.operand, st)
        if isinstance(node.op, ast.Not):
            t = self.truth(v)
            return const(not t) if isinstance(t, bool) else SVal('bool', z3.Not(t))
        if isinstance(node.op, ast.USub):
            if v.kind == CONST:
                return const(-v.t)
            return SVal('int', -self.to_int(v))
        raise OutOfSubset('unary op')

    def ev_BinOp(self, node, st):
        a = self.ev(node.left, st)
        b = self.ev(node.right, st)
        op = node.op
        a, b = self.unify(a, b)
        if a.kind == CONST and b.kind == CONST:
            try:
                return const(eval(compile(ast.Expression(ast.BinOp(ast.Constant(a.t), op, ast.Constant(b.t))),
                                          '<c>', 'eval')))
            except Exception:
                raise OutOfSubset('constant binop')
        seqa = isinstance(a.kind, tuple) and a.kind[0] == 'seq'
        seqb = isinstance(b.kind, tuple) and b.kind[0] == 'seq'
        if a.kind == 'kset' and b.kind == 'kset':
            if isinstance(op, ast.Sub):
                return SVal('kset', self.th.ks_diff(a.t, b.t))
            if isinstance(op, ast.BitAnd):
                return SVal('kset', self.th.ks_inter(a.t, b.t))
            if isinstance(op, ast.BitOr):
                return SVal('kset', self.th.ks_union(a.t, b.t))
            raise OutOfSubset('set operator %s' % type(op).__name__)
        if isinstance(op, ast.Add) and seqa and seqb:
            if a.kind == EMPTYLIST:
                return b
            return SVal(a.kind, self.seqth(a.kind).app(a.t, self.lift(b, a.kind).t))
        if isinstance(op, ast.Mult) and seqa:
            # [x] * n
            s = self.seqth(a.kind)
            n = self.to_int(b)
            self.oblige(st, 'rep', node, s.len(a.t) == 1, 'list repetition of a one-element list')
            return SVal(a.kind, s.rep(s.idx(a.t, 0), n))
        x, y = self.to_int(a), self.to_int(b)
        if isinstance(op, ast.Add):
            return SVal('int', x + y)
        if isinstance(op, ast.Sub):
            return SVal('int', x - y)
        if isinstance(op, ast.Mult):
            return SVal('int', x * y)
        raise OutOfSubset('binary operator %s' % type(op).__name__)

    def ev_BoolOp(self, node, st):
        is_and = isinstance(node.op, ast.And)
        terms = []
        pushed = 0
        allbool = True
        if not is_and and len(node.values) == 2:
            # `path or '/'`: the normalised path
            v0 = self.ev(node.values[0], st)
            if v0.kind == 'path' and isinstance(node.values[1], ast.Constant) and node.values[1].value == '/':
                return SVal('path', self.th.path_norm(v0.t))
        try:
            for sub in node.values:
                v = self.ev(sub, st)
                if not (v.kind in ('bool', ('truth',)) or (v.kind == CONST and isinstance(v.t, bool))):
                    allbool = False
                t = self.truth(v)
                terms.append(t)
                g = t if is_and else (not t if isinstance(t, bool) else z3.Not(t))
                st.guards.append(self.zbool(g))
                pushed += 1
        finally:
            for _ in range(pushed):
                st.guards.pop()
        if all(isinstance(t, bool) for t in terms):
            return const(all(terms) if is_and else any(terms))
        zs = [self.zbool(t) for t in terms]
        # `a and b` / `a or b` over non-bool operands yields one of the operands, not a bool: such a result may only be
        # used for its truth value
        return SVal('bool' if allbool or self.spec_mode else ('truth',), z3.And(*zs) if is_and else z3.Or(*zs))

    def ev_IfExp(self, node, st):
        c = self.truth(self.ev(node.test, st))
        if isinstance(c, bool):
            return self.ev(node.body if c else node.orelse, st)
        st.guards.append(c)
        a = self.ev(node.body, st)
        st.guards.pop()
        st.guards.append(z3.Not(c))
        b = self.ev(node.orelse, st)
        st.guards.pop()
        a, b = self.unify(a, b)
        if a.kind == CONST and b.kind != CONST:
            a = self.lift(a, b.kind)
        if b.kind == CONST and a.kind != CONST:
            b = self.lift(b, a.kind)
        if a.kind == CONST:
            a, b = SVal('int', self.to_int(a)), SVal('int', self.to_int(b))
        return SVal(a.kind, z3.If(c, a.t, b.t))

    def ev_Compare(self, node, st):
        left = self.ev(node.left, st)
        terms = []
        for op, rn in zip(node.ops, node.comparators):
            right = self.ev(rn, st)
            terms.append(self.compare(op, left, right, node, st))
            left = right
        if all(isinstance(t, bool) for t in terms):
            return const(all(terms))
        return SVal('bool', z3.And(*[self.zbool(t) for t in terms]) if len(terms) > 1 else self.zbool(terms[0]))

    def compare(self, op, a, b, node, st):
        neg = lambda t: (not t) if isinstance(t, bool) else z3.Not(t)
        if isinstance(op, ast.Eq):
            return self.equal(a, b, self.spec_mode)
        if isinstance(op, ast.NotEq):
            return neg(self.equal(a, b, self.spec_mode))
        if isinstance(op, (ast.Is, ast.IsNot)):
            if b.kind == CONST and b.t is None:
                r = a.kind == CONST and a.t is None
            elif a.kind == ('ref',) and b.kind == ('ref',):
                r = a.t == b.t
            elif a.kind == 'fn' and b.kind == 'fn':
                r = a.t == b.t
            elif a.kind == ('typeof',) and b.kind == ('typeof',):
                r = self.th.same_type(a.t, b.t)
            else:
                raise OutOfSubset('is-comparison')
            return r if isinstance(op, ast.Is) else neg(r)
        if isinstance(op, (ast.In, ast.NotIn)):
            if b.kind == CONST and isinstance(b.t, (tuple, list)):
                parts = [self.equal(a, const(x), self.spec_mode) for x in b.t]
                if all(isinstance(p, bool) for p in parts):
                    r = any(parts)
                else:
                    r = z3.Or(*[self.zbool(p) for p in parts])
            elif b.kind == 'map':
                r = self.th.mem(b.t, self.lift(a, 'str').t)
            elif b.kind == 'kset':
                r = self.th.ks_mem(b.t, self.lift(a, 'str').t)
            elif b.kind == 'emap':
                r = self.th.ks_mem(self.th.em_dom(b.t), self.lift(a, 'str').t)
            elif b.kind == ('cfgattr',) and b.t == 'predicates':
                r = self.th.has_preds(self.lift(a, 'path').t)
            elif b.kind in ('E', 'ME') and a.kind == CONST and a.t in ('op', 'key'):
                r = True
            else:
                raise OutOfSubset('membership test on %r' % (b.kind,))
            return r if isinstance(op, ast.In) else neg(r)
        if a.kind == 'str' and b.kind == 'str' and isinstance(op, ast.Lt):
            return self.th.s_lt(a.t, b.t)
        x, y = self.to_int(a), self.to_int(b)
        if a.kind == CONST and b.kind == CONST:
            x, y = a.t, b.t
        if isinstance(op, ast.Lt):
            return x < y
        if isinstance(op, ast.LtE):
            return x <= y
        if isinstance(op, ast.Gt):
            return x > y
        if isinstance(op, ast.GtE):
            return x >= y
        raise OutOfSubset('comparison operator')

    def ev_Subscript(self, node, st):
        base = self.ev(node.value, st)
        return self.subscript(base, node.slice, node, st)

    def subscript(self, base, sl, node, st):
        k = base.kind
        if isinstance(sl, ast.Slice):
            if sl.step is not None:
                raise OutOfSubset('slice step')
            if k == EMPTYLIST:
                return base
            if not (isinstance(k, tuple) and k[0] == 'seq'):
                raise OutOfSubset('slice of %r' % (k,))
            s = self.seqth(k)
            lo = self.to_int(self.ev(sl.lower, st)) if sl.lower is not None else z3.IntVal(0)
            hi = self.to_int(self.ev(sl.upper, st)) if sl.upper is not None else s.len(base.t)
            return SVal(k, s.slc(base.t, lo, hi))
        iv = self.ev(sl, st)
        if isinstance(k, tuple) and k[0] == 'seq':
            if k == EMPTYLIST:
                self.oblige(st, 'index', node, False, 'index into empty list')
                raise OutOfSubset('index into empty list')
            s = self.seqth(k)
            if iv.kind == CONST and isinstance(iv.t, int) and iv.t < 0:
                i = s.len(base.t) + iv.t
            else:
                i = self.to_int(iv)
            if not self.spec_mode:
                self.oblige(st, 'index', node, z3.And(0 <= i, i < s.len(base.t)),
                            'subscript in bounds: %s' % ast.unparse(node))
            return self.wrap_elem(k[1], s.idx(base.t, i))
        if isinstance(k, tuple) and k[0] == 'tuple':
            if iv.kind != CONST:
                raise OutOfSubset('symbolic tuple index')
            return base.t[iv.t]
        if k == CONST and isinstance(base.t, (tuple, list, str, dict)) and iv.kind == CONST:
            return const(base.t[iv.t])
        if k == 'T3':
            if iv.kind != CONST:
                raise OutOfSubset('symbolic tuple index')
            return SVal('int', [self.th.T3.t0, self.th.T3.t1, self.th.T3.t2][iv.t](base.t))
        if k == 'map':
            key = self.lift(iv, 'str')
            if not self.spec_mode:
                self.oblige(st, 'key', node, self.th.mem(base.t, key.t),
                            'dict key present: %s' % ast.unparse(node))
            return SVal('V', self.th.m_get(base.t, key.t))
        if k == 'emap':
            key = self.lift(iv, 'str')
            if not self.spec_mode:
                self.oblige(st, 'key', node, self.th.ks_mem(self.th.em_dom(base.t), key.t),
                            'dict key present: %s' % ast.unparse(node))
            return SVal('ME', self.th.em_get(base.t, key.t))
        if k == ('cfgattr',):
            if base.t == 'differs':
                return SVal('fn', self.th.differs_at(self.lift(iv, 'path').t))
            if base.t == 'predicates':
                return SVal(('seq', 'fn'), self.th.preds_raw(self.lift(iv, 'path').t))
        raise OutOfSubset('subscript of %r' % (k,))

    def wrap_elem(self, ek, t):
        return SVal(ek, t)

    def ev_ListComp(self, node, st):
        return self.comprehension(node, st)

    def ev_GeneratorExp(self, node, st):
        return self.comprehension(node, st)

    def comprehension(self, node, st):
        if len(node.generators) != 1 or node.generators[0].ifs:
            raise OutOfSubset('comprehension shape')
        gen = node.generators[0]
        k = z3.Int('k!%d' % next(self.counter))
        n, bind = self.iter_source(gen.iter, gen.target, k, st)
        st2 = st.fork()
        st2.pc = st.pc           # facts about nested comprehensions are (quantified) global facts
        bind(st2)
        st2.guards = st.guards + [z3.And(0 <= k, k < n)]
        outer = list(getattr(self, 'bound', []))
        self.bound = outer + [(k, z3.And(0 <= k, k < n))]
        try:
            body = self.ev(node.elt, st2)
        finally:
            self.bound = outer
        # identity map (e.g. copy.deepcopy(value) for value in xs) -> the source itself
        src = getattr(self, '_last_iter_seq', None)
        if src is not None and body.kind == src.kind[1] and isinstance(gen.target, ast.Name):
            el = self.seqth(src.kind).idx(src.t, k)
            if body.t is not None and z3.is_expr(body.t) and body.t.eq(el):
                return src
        ek = body.kind
        if ek == CONST:
            ek = 'int' if isinstance(body.t, (int, bool)) and not isinstance(body.t, bool) else ('bool' if isinstance(body.t, bool) else None)
            if ek is None:
                raise OutOfSubset('comprehension element')
            body = self.lift(body, ek)
        if isinstance(ek, tuple) and ek[0] == 'tuple' and len(ek) == 4:
            body = self.lift(body, 'T3')
            ek = 'T3'
        s = self.th.seq(ek)
        if outer:
            # nested comprehension: the result is a function of the enclosing bound variables
            vs = [v for v, _ in outer]
            fL = z3.Function('comp!%d' % next(self.counter), *([v.sort() for v in vs] + [s.sort]))
            L = fL(*vs)
            rng = z3.And(*[c for _, c in outer])
            st.pc.append(z3.ForAll(vs, z3.Implies(rng, s.len(L) == n), patterns=[L]))
            st.pc.append(z3.ForAll(vs + [k], z3.Implies(z3.And(rng, 0 <= k, k < n), s.idx(L, k) == body.t),
                                   patterns=[s.idx(L, k)]))
        else:
            L = z3.Const('comp!%d' % next(self.counter), s.sort)
            st.pc.append(s.len(L) == n)
            st.pc.append(z3.ForAll([k], z3.Implies(z3.And(0 <= k, k < n),
                                                   s.idx(L, k) == body.t), patterns=[s.idx(L, k)]))
        return SVal(('seq', ek), L)

    def iter_source(self, it, target, k, st):
        """Describe iteration number k of `for target in it`: returns (count term, binder(state))."""
        self._last_iter_seq = None
        if isinstance(it, ast.Call) and isinstance(it.func, ast.Name) and it.func.id == 'range':
            args = [self.to_int(self.ev(a, st)) for a in it.args]
            lo, hi = (z3.IntVal(0), args[0]) if len(args) == 1 else (args[0], args[1])
            if len(args) == 3:
                raise OutOfSubset('range step')
            n = z3.If(hi > lo, hi - lo, 0)

            def bind(s2):
                self.bind_target(target, SVal('int', lo + k), s2)
            return n, bind
        if isinstance(it, ast.Call) and isinstance(it.func, ast.Name) and it.func.id == 'zip':
            srcs = [self.ev(a, st) for a in it.args]
            lens = [self.seqth(s.kind).len(s.t) for s in srcs]
            n = lens[0]
            for ln in lens[1:]:
                n = z3.If(ln < n, ln, n)

            def bind(s2):
                vals = [self.wrap_elem(s.kind[1], self.seqth(s.kind).idx(s.t, k)) for s in srcs]
                self.bind_target(target, SVal(('tuple',) + tuple(v.kind for v in vals), vals), s2)
            return n, bind
        src = self.ev(it, st)
        if src.kind == 'map':
            # iteration over a dict: an arbitrary enumeration of its key set
            src = SVal(('seq', 'str'), self.th.enum_keys(self.th.m_dom(src.t)))
        if src.kind == 'kset':
            src = SVal(('seq', 'str'), self.th.enum_keys(src.t))
        if src.kind == EMPTYLIST:
            return z3.IntVal(0), (lambda s2: None)
        if not (isinstance(src.kind, tuple) and src.kind[0] == 'seq'):
            raise OutOfSubset('iteration over %r' % (src.kind,))
        s = self.seqth(src.kind)
        self._last_iter_seq = src

        def bind(s2):
            self.bind_target(target, self.wrap_elem(src.kind[1], s.idx(src.t, k)), s2)
        return s.len(src.t), bind

    def bind_target(self, target, val, st):
        if isinstance(target, ast.Name):
            st.env[target.id] = val
        elif isinstance(target, (ast.Tuple, ast.List)):
            if val.kind == 'T3':
                val = self.lift(val, ('tuple', 'int', 'int', 'int'))
            if not (isinstance(val.kind, tuple) and val.kind[0] == 'tuple') or len(val.t) != len(target.elts):
                if val.kind == CONST and isinstance(val.t, tuple) and len(val.t) == len(target.elts):
                    for t, x in zip(target.elts, val.t):
                        self.bind_target(t, const(x), st)
                    return
                raise OutOfSubset('tuple unpacking of %r' % (val.kind,))
            for t, x in zip(target.elts, val.t):
                self.bind_target(t, x, st)
        else:
            self.store(target, val, st)

    # ---------------------------------------------------------------- calls
    def ev_Call(self, node, st):
        f = node.func
        # quantifiers and builtins by name
        if isinstance(f, ast.Name) and f.id not in st.env:
            name = f.id
            h = getattr(self, 'call_' + name, None)
            if h is not None and (self.mod is None or self.mod.resolve(name) is None):
                return h(node, st)
        fv = self.ev(f, st)
        if fv.kind == ('boundmethod',):
            base, attr = fv.t
            return self.method_call(base, attr, node, st)
        if fv.kind == ('ref',):
            return self.call_ref(fv.t, node, st)
        if fv.kind == 'fn':
            return self.call_fn(fv, node, st)
        raise OutOfSubset('call of %r' % (fv.kind,))

    def args_of(self, node, st):
        return [self.ev(a, st) for a in node.args], {kw.arg: self.ev(kw.value, st) for kw in node.keywords}

    def call_len(self, node, st):
        v = self.ev(node.args[0], st)
        if v.kind == EMPTYLIST:
            return const(0)
        if isinstance(v.kind, tuple) and v.kind[0] == 'seq':
            return SVal('int', self.seqth(v.kind).len(v.t))
        if isinstance(v.kind, tuple) and v.kind[0] == 'tuple':
            return const(len(v.t))
        if v.kind == CONST:
            return const(len(v.t))
        raise OutOfSubset('len of %r' % (v.kind,))

    def _minmax(self, node, st, ismax):
        vals = [self.ev(a, st) for a in node.args]
        if len(vals) < 2:
            raise OutOfSubset('min/max of iterable')
        if all(v.kind == CONST for v in vals):
            return const((max if ismax else min)(v.t for v in vals))
        t = self.to_int(vals[0])
        for v in vals[1:]:
            y = self.to_int(v)
            t = z3.If(y > t, y, t) if ismax else z3.If(y < t, y, t)
        return SVal('int', t)

    def call_max(self, node, st):
        return self._minmax(node, st, True)

    def call_min(self, node, st):
        return self._minmax(node, st, False)

    def call_isinstance(self, node, st):
        v = self.ev(node.args[0], st)
        tn = ast.unparse(node.args[1])
        if isinstance(node.args[1], ast.Name) and self.mod is not None and node.args[1].id in getattr(self.mod, 'type_tuples', {}) \
                and node.args[1].id not in st.env:
            tn = ','.join(self.mod.type_tuples[node.args[1].id])
        k = v.kind
        names = set(tn.replace('(', '').replace(')', '').replace(' ', '').split(','))
        def has(*xs):
            return bool(names & set(xs))
        if k == 'int':
            return const(has('int'))
        if k in ('E', 'ME'):
            return const(has('DiffEntry', 'dict'))
        if isinstance(k, tuple) and k[0] == 'seq':
            return const(has('list'))
        if k == 'str':
            return const(has('str'))
        if k == 'map':
            return const(has('dict'))
        if k == 'V' and names <= {'dict', 'list', 'str'}:
            tags = {'dict': self.th.is_dict, 'list': self.th.is_list, 'str': self.th.is_str}
            parts = [tags[n](v.t) for n in sorted(names)]
            return SVal('bool', parts[0] if len(parts) == 1 else z3.Or(*parts))
        if k == CONST:
            return const(isinstance(v.t, tuple({'int': int, 'str': str, 'list': list, 'dict': dict, 'bool': bool}[n]
                                                   for n in names if n in ('int', 'str', 'list', 'dict', 'bool'))))
        raise OutOfSubset('isinstance on %r' % (k,))

    def call_list(self, node, st):
        if not node.args:
            return SVal(EMPTYLIST, None)
        v = self.ev(node.args[0], st)
        if isinstance(v.kind, tuple) and v.kind[0] == 'seq':
            return v
        raise OutOfSubset('list() of %r' % (v.kind,))

    def call_type(self, node, st):
        if len(node.args) != 1:
            raise OutOfSubset('type() with %d arguments' % len(node.args))
        v = self.ev(node.args[0], st)
        if v.kind != 'V':
            raise OutOfSubset('type() of %r' % (v.kind,))
        return SVal(('typeof',), v.t)

    def call_bool(self, node, st):
        t = self.truth(self.ev(node.args[0], st))
        return const(t) if isinstance(t, bool) else SVal('bool', t)

    def call_set(self, node, st):
        if not node.args:
            return SVal('kset', self.th.ks_empty)
        v = self.ev(node.args[0], st)
        if v.kind == 'kset':
            return v
        if v.kind == 'map':
            return SVal('kset', self.th.m_dom(v.t))
        raise OutOfSubset('set() of %r' % (v.kind,))

    def call_sorted(self, node, st):
        v = self.ev(node.args[0], st)
        if v.kind == 'kset' and not node.keywords:
            return SVal(('seq', 'str'), self.th.sorted_keys(v.t))
        if v.kind == ('emapvalues',) and len(node.keywords) == 1 and node.keywords[0].arg == 'key':
            lam = node.keywords[0].value
            if isinstance(lam, ast.Lambda) and len(lam.args.args) == 1 and isinstance(lam.body, ast.Attribute) \
                    and isinstance(lam.body.value, ast.Name) and lam.body.value.id == lam.args.args[0].arg and lam.body.attr == 'key':
                return SVal(('seq', 'ME'), self.th.sorted_entries(v.t))
        raise OutOfSubset('sorted() of %r' % (v.kind,))

    # spec-only helpers ---------------------------------------------------------------------
    def _quant(self, node, st, universal):
        g = node.args[0]
        if not isinstance(g, ast.GeneratorExp):
            raise OutOfSubset('all/any without generator')
        bound, conds = [], []
        st2 = st.fork()
        for gen in g.generators:
            if gen.ifs:
                raise OutOfSubset('quantifier with if')
            if isinstance(gen.iter, ast.Name) and gen.iter.id == 'STR' and isinstance(gen.target, ast.Name):
                v = z3.Const('%s!%d' % (gen.target.id, next(self.counter)), self.th.Str)
                bound.append(v)
                conds.append(z3.BoolVal(True))
                st2.env[gen.target.id] = SVal('str', v)
                continue
            if not (isinstance(gen.iter, ast.Call) and getattr(gen.iter.func, 'id', None) == 'range'
                    and isinstance(gen.target, ast.Name)):
                # iteration over a sequence value: a bound position, the target bound to the element there
                src = self.ev(gen.iter, st2)
                if isinstance(src.kind, tuple) and src.kind[0] == 'seq':
                    v = z3.Int('q!%d' % next(self.counter))
                    sth = self.seqth(src.kind)
                    bound.append(v)
                    conds.append(z3.And(0 <= v, v < sth.len(src.t)))
                    self.bind_target(gen.target, self.wrap_elem(src.kind[1], sth.idx(src.t, v)), st2)
                    continue
                raise OutOfSubset('quantifier domain must be range(...), STR or a sequence')
            v = z3.Int('%s!%d' % (gen.target.id, next(self.counter)))
            args = [self.to_int(self.ev(a, st2)) for a in gen.iter.args]
            lo, hi = (z3.IntVal(0), args[0]) if len(args) == 1 else (args[0], args[1])
            bound.append(v)
            conds.append(z3.And(lo <= v, v < hi))
            st2.env[gen.target.id] = SVal('int', v)
        save = self.spec_mode
        # obligations raised while evaluating the body (subscripts in executable `all(...)`) hold under the domain conditions
        st2.guards = st2.guards + list(conds)
        body = self.zbool(self.truth(self.ev(g.elt, st2)))
        pats = None
        for kw in node.keywords:
            pass
        rng = z3.And(*conds) if len(conds) > 1 else conds[0]
        if universal:
            return SVal('bool', z3.ForAll(bound, z3.Implies(rng, body)))
        return SVal('bool', z3.Exists(bound, z3.And(rng, body)))

    def call_all(self, node, st):
        return self._quant(node, st, True)

    def call_any(self, node, st):
        return self._quant(node, st, False)

    def call_call(self, node, st):
        """Client code in a lemma body: call("<qualname>", args...) goes through the callee's CONTRACT (its preconditions become
        obligations of the lemma, its postconditions are assumed) -- this is how compositions of proved functions are checked."""
        if self.mod is not None or not node.args or not isinstance(node.args[0], ast.Constant):
            raise OutOfSubset('call(...) outside a lemma body')
        q = node.args[0].value
        if q not in self.reg.contracts:
            raise OutOfSubset('call of %s (no contract)' % q)
        inner = ast.copy_location(ast.Call(func=ast.Name(id='_', ctx=ast.Load()), args=node.args[1:], keywords=node.keywords), node)
        args, kwargs = self.args_of(inner, st)
        save = self.spec_mode
        self.spec_mode = False
        try:
            return self.apply_contract(self.reg.contracts[q], None, args, kwargs, node, st)
        finally:
            self.spec_mode = save

    def call_implies(self, node, st):
        a = self.zbool(self.truth(self.ev(node.args[0], st)))
        st.guards.append(a)
        try:
            b = self.zbool(self.truth(self.ev(node.args[1], st)))
        finally:
            st.guards.pop()
        return SVal('bool', z3.Implies(a, b))

    def call_old(self, node, st):
        if self.old is None:
            raise OutOfSubset('old() outside a postcondition')
        o = self.old.fork()
        # locals that are not modified keep their value; old state wins for heap and parameters
        return self.ev(node.args[0], o)

    def call_ref(self, q, node, st):
        th = self.th
        # dropped wrappers
        if q in ('copy.deepcopy', 'copy.copy', 'nbformat.NotebookNode', 'nbformat.notebooknode.NotebookNode'):
            return self.ev(node.args[0], st)
        if q.startswith('builtins.'):
            h = getattr(self, 'call_' + q.split('.', 1)[1], None)
            if h is not None:
                return h(node, st)
            sp = self.spec_call(q.split('.', 1)[1], node, st)
            if sp is not None:
                return sp
            raise OutOfSubset('call of unknown name %s' % q)
        if q == 'nbdime.diff_format.DiffEntry':
            return self.make_entry(node, st)
        if q in self.reg.classes:
            return self.construct(q, node, st)
        if q in self.reg.contracts:
            args, kwargs = self.args_of(node, st)
            c = self.reg.contracts[q]
            # kind variants: a second contract of the same real function for other parameter kinds, keyed `<qualname>#<tag>`
            def fits(cand):
                for i, (pname, pkind, dflt) in enumerate(cand.params):
                    a = args[i] if i < len(args) else kwargs.get(pname)
                    none_arg = a is None or (a.kind == CONST and a.t is None)
                    if pkind == ('const',):
                        if not none_arg:
                            return False
                    elif none_arg:
                        if a is not None or dflt is None:
                            return False
                    elif a.kind in ('str', 'int') and pkind in ('str', 'int') and a.kind != pkind:
                        return False
                    elif a.kind in ('E', 'ME') and pkind in ('E', 'ME') and a.kind != pkind:
                        return False
                    elif a.kind in (('seq', 'E'), ('seq', 'ME')) and pkind in (('seq', 'E'), ('seq', 'ME')) and a.kind != pkind:
                        return False
                return True
            if not fits(c):
                for vq, vc in self.reg.contracts.items():
                    if vq.startswith(q + '#') and fits(vc):
                        c = vc
                        break
            if c.inline:
                return self.inline_call(c, None, args, kwargs, node, st)
            return self.apply_contract(c, None, args, kwargs, node, st)
        raise OutOfSubset('call of %s (no contract)' % q)

    def make_entry(self, node, st):
        """DiffEntry(op=..., key=..., <field>=...): a fresh entry with exactly the given fields."""
        th = self.th
        if node.args:
            raise OutOfSubset('DiffEntry(positional)')
        kw = {k.arg: self.ev(k.value, st) for k in node.keywords}
        if 'op' not in kw or 'key' not in kw:
            raise OutOfSubset('DiffEntry without op/key')
        keyk = kw['key'].kind
        kind = 'ME' if keyk == 'str' else 'E'
        e = self.fresh(kind, 'entry')
        opv = kw['op']
        st.pc.append(self.zbool(self.equal(SVal('Op', th.e_op(e.t)), opv, True)))
        if kind == 'E':
            st.pc.append(th.e_key(e.t) == self.to_int(kw['key']))
        else:
            st.pc.append(th.e_skey(e.t) == kw['key'].t)
        fieldk = {'valuelist': ('seq', 'V'), 'length': 'int', 'diff': ('seq', 'E'), 'value': 'V'}
        for fld, has in th.has.items():
            st.pc.append(has(e.t) == (fld in kw))
            if fld in kw:
                v = self.lift(kw[fld], fieldk[fld])
                st.pc.append(getattr(th, 'e_' + fld)(e.t) == v.t)
        for fld in kw:
            if fld not in ('op', 'key') and fld not in th.has:
                raise OutOfSubset('DiffEntry field %s' % fld)
        return e

    def inline_call(self, c, receiver, args, kwargs, node, st):
        """Execute a tiny wrapper inline (its body is read from /repo like any verified function)."""
        sub = Exec(self.th, self.reg, c.qualname, self.repo)
        sub.counter, sub.objcounter, sub.obl_seq = self.counter, self.objcounter, self.obl_seq
        sub._pending_fields = getattr(self, '_pending_fields', {})
        sub.obls = self.obls
        sub.qualname = self.qualname      # obligations are attributed to the caller being verified
        sub.inline_of = c.qualname
        frame = st.fork()
        frame.heap = st.heap
        frame.pc = st.pc
        frame.fresh_objs = st.fresh_objs
        frame.env = {}
        params = list(c.params)
        if receiver is not None:
            frame.env[params[0][0]] = receiver
            params = params[1:]
        for (pname, pkind, dflt), a in zip(params, args):
            frame.env[pname] = a
        for kname, a in kwargs.items():
            frame.env[kname] = a
        for pname, pkind, dflt in params:
            if pname not in frame.env:
                frame.env[pname] = sub.ev_default(dflt, c)
            if pkind != OPAQUE:
                frame.env[pname] = self.lift(frame.env[pname], pkind)
        outs = sub.run_block(sub.body, frame)
        live = [(tag, s2, payload) for tag, s2, payload in outs if tag in ('next', 'return')]
        for tag, s2, payload in outs:
            if tag == 'raise':
                self.oblige(s2, 'no-raise', payload[0], False, 'raise in inlined %s is unreachable' % c.qualname)
        if len(live) == 1:
            tag, s2, payload = live[0]
            st.pc[:] = s2.pc
            return payload if tag == 'return' else const(None)
        # several paths: merge by guarded facts is not needed for the wrappers we inline (they all end in one
        # heap state per path); fork the caller instead
        raise _InlineFork(live)

    def spec_call(self, name, node, st):
        """spec functions usable in contracts (and ghost code)."""
        th = self.th
        if name not in SPEC_FUNCS:
            return None
        argk, retk, fn = SPEC_FUNCS[name]
        args = [self.ev(a, st) for a in node.args]
        if len(args) != len(argk):
            raise OutOfSubset('spec function %s arity' % name)
        ts = [self.lift(a, k).t for a, k in zip(args, argk)]
        return SVal(retk, fn(th)(*ts))

    def construct(self, q, node, st):
        o = self.new_object(q, st)
        st.fresh_objs.add(o.t)
        self.init_fields(o, st)
        initq = q + '.__init__'
        if initq in self.reg.contracts:
            args, kwargs = self.args_of(node, st)
            self.apply_contract(self.reg.contracts[initq], o, args, kwargs, node, st)
        return o

    def method_call(self, base, attr, node, st):
        k = base.kind
        if isinstance(k, tuple) and k[0] == 'seq':
            return self.seq_method(base, attr, node, st)
        if isinstance(k, tuple) and k[0] == 'obj':
            q = k[1] + '.' + attr
            if q not in self.reg.contracts:
                raise OutOfSubset('method %s has no contract' % q)
            args, kwargs = self.args_of(node, st)
            c = self.reg.contracts[q]
            if c.inline:
                return self.inline_call(c, base, args, kwargs, node, st)
            return self.apply_contract(c, base, args, kwargs, node, st)
        if k == ('cfgattr',) and attr == 'pop' and len(node.args) == 2:
            # removing a key from a configuration table: no effect in the value model of the tables (the table vocabulary denotes the
            # values a lookup yields; which keys are physically present is the frame question decided by C12)
            self.args_of(node, st)
            return SVal(OPAQUE, 'popped')
        if k == 'map' and attr == 'keys':
            return SVal('kset', self.th.m_dom(base.t))
        if k == 'emap' and attr == 'values' and not node.args:
            return SVal(('emapvalues',), base.t)
        if k == 'kset' and attr == 'add':
            args, _ = self.args_of(node, st)
            self.check_mutation(node.func.value, st)
            self.store(node.func.value, SVal('kset', self.th.ks_add(base.t, self.lift(args[0], 'str').t)), st)
            return const(None)
        if k == 'cfg' and attr == 'is_atomic':
            args, kwargs = self.args_of(node, st)
            p = kwargs.get('path', args[1] if len(args) > 1 else None)
            return SVal('bool', self.th.is_atomic(self.lift(args[0], 'V').t, self.lift(p, 'path').t))
        if k == CONST and isinstance(base.t, str) and attr == 'join':
            args, _ = self.args_of(node, st)
            a = args[0]
            if isinstance(a.kind, tuple) and a.kind[0] == 'tuple' and base.t == '/':
                p, last = a.t
                if p.kind == 'path' and last.kind == CONST and last.t == '*':
                    return SVal('path', self.th.path_star(p.t))
                if p.kind == 'path' and last.kind == 'str':
                    return SVal('path', self.th.path_key(p.t, last.t))
            raise OutOfSubset('str.join')
        raise OutOfSubset('method .%s on %r' % (attr, k))

    def seq_method(self, base, attr, node, st):
        target = node.func.value
        if attr in MUTATORS:
            self.check_mutation(target, st)
        args = [self.ev(a, st) for a in node.args]
        k = base.kind
        if attr == 'append':
            x = args[0]
            if k == EMPTYLIST:
                ek = x.kind
                if isinstance(ek, tuple) and ek[0] == 'tuple' and len(ek) == 4:
                    ek = 'T3'
                if ek == CONST:
                    ek = 'int'
                k = ('seq', ek)
                base = self.coerce_empty(base, k)
            s = self.seqth(k)
            new = SVal(k, s.app(base.t, s.unit(self.lift(x, k[1]).t)))
        elif attr == 'extend':
            y = args[0]
            if y.kind == EMPTYLIST:
                return const(None)
            if k == EMPTYLIST:
                k = y.kind
                base = self.coerce_empty(base, k)
            s = self.seqth(k)
            new = SVal(k, s.app(base.t, self.lift(y, k).t))
        elif attr == 'insert':
            if k == EMPTYLIST:
                k = ('seq', args[1].kind)
                base = self.coerce_empty(base, k)
            s = self.seqth(k)
            pos = self.to_int(args[0])
            # list.insert clips; we require the in-range case so that the value model is exact
            self.oblige(st, 'insert', node, z3.And(0 <= pos, pos <= s.len(base.t)), 'insert position within [0, len]')
            new = SVal(k, s.ins(base.t, pos, self.lift(args[1], k[1]).t))
        elif attr == 'reverse':
            if k == EMPTYLIST:
                return const(None)
            s = self.seqth(k)
            new = SVal(k, s.rev(base.t))
        elif attr == 'pop' and len(args) == 1 and args[0].kind == CONST and args[0].t == 0:
            s = self.seqth(k)
            self.oblige(st, 'pop', node, s.len(base.t) > 0, 'pop from non-empty list')
            new = SVal(k, s.slc(base.t, 1, s.len(base.t)))
        else:
            raise OutOfSubset('list method .%s' % attr)
        self.store(target, new, st)
        return const(None)

    def call_fn(self, fv, node, st):
        args, kwargs = self.args_of(node, st)
        th = self.th
        if 'path' in kwargs or len(args) > 2:
            p = kwargs.get('path', args[2] if len(args) > 2 else None)
            x, y = self.lift(args[0], 'V'), self.lift(args[1], 'V')
            return SVal(('seq', 'E'), th.differ(fv.t, x.t, y.t, self.lift(p, 'path').t))
        if len(args) == 2:
            x, y = self.lift(args[0], 'V'), self.lift(args[1], 'V')
            return SVal('bool', th.cmp(fv.t, x.t, y.t))
        raise OutOfSubset('call of function value')

    def apply_contract(self, c, receiver, args, kwargs, node, st):
        """Caller side: check requires, havoc modifies, assume ensures."""
        params = list(c.params)
        frame = State()
        frame.heap = st.heap          # shared heap (same dict object on purpose)
        frame.pc = st.pc
        frame.guards = st.guards
        frame.fresh_objs = st.fresh_objs
        names = [p[0] for p in params]
        if receiver is not None:
            frame.env[names[0]] = receiver
            params = params[1:]
        bound = {}
        for (pname, pkind, dflt), a in zip(params, args):
            bound[pname] = a
        for kname, a in kwargs.items():
            if kname not in [p[0] for p in params]:
                raise OutOfSubset('unknown keyword %s for %s' % (kname, c.qualname))
            bound[kname] = a
        for pname, pkind, dflt in params:
            if pname not in bound:
                if dflt is None:
                    raise OutOfSubset('missing argument %s for %s' % (pname, c.qualname))
                bound[pname] = self.ev_default(dflt, c)
            v = bound[pname]
            if v.kind == 'V' and pkind in (('seq', 'V'), 'map'):
                # a typed value handed to a callee that takes a list / dict: the tag must be known here (downcast)
                tag = self.th.is_list(v.t) if pkind == ('seq', 'V') else self.th.is_dict(v.t)
                self.oblige(st, 'cast', node, tag, 'argument %s of %s is a %s' % (pname, c.qualname, 'list' if pkind == ('seq', 'V') else 'dict'))
                v = SVal(pkind, self.th.as_list(v.t) if pkind == ('seq', 'V') else self.th.as_map(v.t))
            if pkind != OPAQUE and not (v.kind == CONST and v.t is None):
                v = self.lift(v, pkind) if not (isinstance(pkind, tuple) and pkind[0] == 'obj') else v
            frame.env[pname] = v
        for gname, gkind in c.ghosts.items():
            if gname not in st.env:
                raise OutOfSubset('ghost parameter %s of %s cannot be bound from the caller scope' % (gname, c.qualname))
            frame.env[gname] = self.lift(st.env[gname], gkind)
        save_spec, save_old = self.spec_mode, self.old
        self.spec_mode = True
        try:
            for e, txt in c.requires:
                g = self.zbool(self.truth(self.ev(e, frame)))
                self.oblige(st, 'pre', node, g, 'precondition of %s: %s' % (c.qualname, txt))
                self.assume(st, g)
            # snapshot, havoc, assume post
            oldframe = frame.fork()
            oldframe.heap = dict(st.heap)
            for mnode in c.modifies:
                self.havoc_target(mnode, frame, st)
            res = None
            if c.ret is not None and c.ret != CONST:
                res = self.fresh(c.ret, 'r_' + c.qualname.rsplit('.', 1)[-1])
                if isinstance(c.ret, tuple) and c.ret[0] == 'obj':
                    st.fresh_objs.add(res.t)
                    self.init_fields(res, st)
                frame.env['result'] = res
            self.old = oldframe
            for gname, gkind in c.exposes.items():
                frame.env[gname] = self.fresh(gkind, gname)
            for e, txt in c.ensures:
                self.assume(st, self.zbool(self.truth(self.ev(e, frame))))
        finally:
            self.spec_mode, self.old = save_spec, save_old
        return res if res is not None else const(None)

    def ev_default(self, node, c):
        try:
            return const(ast.literal_eval(node))
        except Exception:
            raise OutOfSubset('default argument of %s' % c.qualname)

    def havoc_target(self, mnode, frame, st):
        if isinstance(mnode, ast.Attribute):
            base = self.ev(mnode.value, frame)
            if isinstance(base.kind, tuple) and base.kind[0] == 'obj':
                old = st.heap.get((base.t, mnode.attr))
                if old is None:
                    raise OutOfSubset('modifies of unknown field')
                st.heap[(base.t, mnode.attr)] = self.fresh(old.kind, mnode.attr)
                return
        raise OutOfSubset('modifies clause shape')

    # ---------------------------------------------------------------- stores
    def store(self, target, val, st):
        if isinstance(target, ast.Name):
            # soundness guard: a variable written inside a loop body must be in that loop's havoc set (assigned_names),
            # otherwise the loop head would keep its pre-loop value
            for names in getattr(self, 'havoc_stack', ()):
                if target.id not in names:
                    raise EngineDefect('store to %r inside a loop whose havoc set misses it' % target.id)
            old = st.env.get(target.id)
            declared = self.contract.locals.get(target.id)
            if declared is not None:
                val = self.lift(val, declared)
            elif old is not None and val.kind == EMPTYLIST and isinstance(old.kind, tuple) and old.kind[0] == 'seq':
                val = self.coerce_empty(val, old.kind)
            st.env[target.id] = val
        elif isinstance(target, ast.Attribute):
            base = self.ev(target.value, st)
            if isinstance(base.kind, tuple) and base.kind[0] == 'obj':
                if base.t in getattr(self, '_pending_fields', {}):
                    self.init_fields(base, st)
                old = st.heap.get((base.t, target.attr))
                if old is not None and val.kind != old.kind:
                    val = self.lift(val, old.kind)
                self.check_frame(base, target.attr, target, st)
                st.heap[(base.t, target.attr)] = val
            else:
                raise OutOfSubset('attribute store on %r' % (base.kind,))
        elif isinstance(target, ast.Subscript):
            base = self.ev(target.value, st)
            k = base.kind
            if isinstance(k, tuple) and k[0] == 'seq' and not isinstance(target.slice, ast.Slice):
                s = self.seqth(k)
                iv = self.ev(target.slice, st)
                if iv.kind == CONST and isinstance(iv.t, int) and iv.t < 0:
                    i = s.len(base.t) + iv.t
                else:
                    i = self.to_int(iv)
                self.check_mutation(target, st)
                self.oblige(st, 'index', target, z3.And(0 <= i, i < s.len(base.t)),
                            'subscript store in bounds: %s' % ast.unparse(target))
                self.store(target.value, SVal(k, s.upd(base.t, i, self.lift(val, k[1]).t)), st)
            elif k == 'map':
                self.check_mutation(target, st)
                key = self.lift(self.ev(target.slice, st), 'str')
                self.store(target.value, SVal('map', self.th.m_put(base.t, key.t, self.lift(val, 'V').t)), st)
            elif k == 'emap':
                self.check_mutation(target, st)
                key = self.lift(self.ev(target.slice, st), 'str')
                self.store(target.value, SVal('emap', self.th.em_put(base.t, key.t, self.lift(val, 'ME').t)), st)
            else:
                raise OutOfSubset('subscript store on %r' % (k,))
        elif isinstance(target, (ast.Tuple, ast.List)):
            self.bind_target(target, val, st)
        else:
            raise OutOfSubset('store target')

    def check_frame(self, base, attr, node, st):
        "a heap write must hit an object created in this activation or a declared modifies target"
        if base.t in st.fresh_objs:
            return
        for m in self.contract.modifies:
            if isinstance(m, ast.Attribute) and m.attr == attr:
                b = self.ev(m.value, st)
                if b.kind == base.kind and b.t == base.t:
                    return
        self.oblige(st, 'frame', node, False, 'write to %s.%s is not covered by modifies' % (base.kind[1], attr))

    # ---------------------------------------------------------------- statements
    def run_block(self, stmts, st):
        """Execute statements; returns list of (tag, state, payload)."""
        active = [st]
        results = []
        for stmt in stmts:
            nxt = []
            for s in active:
                for tag, s2, payload in self.run_stmt(stmt, s):
                    if tag == 'next':
                        nxt.append(s2)
                    else:
                        results.append((tag, s2, payload))
            active = nxt
            if not active:
                break
        results.extend(('next', s, None) for s in active)
        return results

    def run_stmt(self, node, st):
        self.reached.add(getattr(node, 'lineno', 0))
        m = getattr(self, 'st_' + type(node).__name__, None)
        if m is None:
            raise OutOfSubset('statement %s at line %d' % (type(node).__name__, node.lineno))
        return m(node, st)

    def st_Pass(self, node, st):
        return [('next', st, None)]

    def st_Expr(self, node, st):
        if isinstance(node.value, ast.Constant):
            return [('next', st, None)]
        if isinstance(node.value, ast.Call) and isinstance(node.value.func, ast.Name) and self.mod is None:
            # ghost statements in lemma bodies
            nm = node.value.func.id
            if nm == 'assume_lemma' or nm == 'use':
                return self.ghost_use(node.value, st)
            if nm == 'check':
                self.spec_mode = True
                try:
                    g = self.zbool(self.truth(self.ev(node.value.args[0], st)))
                finally:
                    self.spec_mode = False
                self.oblige(st, 'check', node, g, 'ghost check: ' + ast.unparse(node.value.args[0]))
                self.assume(st, g)
                return [('next', st, None)]
        try:
            self.ev(node.value, st)
        except _InlineFork as fk:
            outs = []
            for tag, s2, payload in fk.live:
                s3 = st.fork()
                s3.pc = list(s2.pc)
                s3.heap = dict(s2.heap)
                s3.fresh_objs = set(s2.fresh_objs)
                outs.append(('next', s3, None))
            return outs
        return [('next', st, None)]

    def ghost_use(self, call, st):
        raise OutOfSubset('ghost use')

    def note_alias(self, target, valnode, val, st):
        if not isinstance(target, ast.Name):
            return
        al = st.env.setdefault('$alias', {})
        al = dict(al)
        al.pop(target.id, None)
        for k_, v_ in list(al.items()):
            al[k_] = v_ - {target.id}
        if isinstance(valnode, ast.Name) and _mutable_kind(val.kind) and val.kind != EMPTYLIST:
            grp = set(al.get(valnode.id, set())) | {valnode.id, target.id}
            for nme in grp:
                al[nme] = grp - {nme}
        st.env['$alias'] = al

    def check_mutation(self, target, st):
        """lists are values in this model: mutating a list that has an alias (or a parameter the caller
        still holds) would be observable through the alias, so such functions are out of subset."""
        b = target
        while isinstance(b, ast.Subscript):
            b = b.value
        if isinstance(b, ast.Name):
            al = st.env.get('$alias', {})
            if al.get(b.id):
                raise OutOfSubset('mutation of list %s which is aliased by %s' % (b.id, sorted(al[b.id])))
            if b.id in getattr(self, 'param_names', ()) and not getattr(self, 'inline_of', None):
                v = st.env.get(b.id)
                if v is not None and _mutable_kind(v.kind):
                    # frame obligation (C13): a function under contract never writes through a list/dict parameter.  It fails by
                    # construction when such a write exists; the value model stays sound for the rest of the function only if the
                    # caller does not look at the argument again, so the function is also reported.
                    self.oblige(st, 'frame', target, False, 'parameter %s is not modified (write at line %d)' % (b.id, getattr(target, 'lineno', 0)))

    def st_Assign(self, node, st):
        val = self.ev(node.value, st)
        for t in node.targets:
            self.note_alias(t, node.value, val, st)
        for t in node.targets:
            if isinstance(t, (ast.Tuple, ast.List)):
                self.bind_target(t, val, st)
            else:
                self.store(t, val, st)
        key = self.assign_ord.get(id(node))
        clauses = getattr(self.contract, 'after_assign', {}).get(key) if key else None
        if clauses and not getattr(self, 'inline_of', None):
            self.spec_mode = True
            try:
                for cl in clauses:
                    if cl[0] == 'let':
                        st.env[cl[1]] = self.ev(cl[2], st)        # ghost snapshot; dropped at loop heads (havoc_loop)
                    elif cl[0] == 'check':
                        g = self.zbool(self.truth(self.ev(cl[1], st)))
                        self.spec_mode = False
                        self.oblige(st, 'ghost-check', node, g, 'check after %s := ... (#%d): %s' % (key[0], key[1], cl[2]))
                        self.spec_mode = True
                        self.assume(st, g)
                    else:
                        self.assume_hint(cl[1], cl[2], st)
            finally:
                self.spec_mode = False
        return [('next', st, None)]

    def st_AugAssign(self, node, st):
        load = ast.copy_location(ast.BinOp(left=_as_load(node.target), op=node.op, right=node.value), node)
        val = self.ev(load, st)
        if isinstance(val.kind, tuple) and val.kind[0] == 'seq':
            self.check_mutation(node.target, st)
        self.store(node.target, val, st)
        return [('next', st, None)]

    def st_Assert(self, node, st):
        g = self.truth(self.ev(node.test, st))
        self.oblige(st, 'assert', node, self.zbool(g), 'assert ' + ast.unparse(node.test))
        self.assume(st, self.zbool(g))
        return [('next', st, None)]

    def st_Return(self, node, st):
        val = self.ev(node.value, st) if node.value is not None else const(None)
        return [('return', st, val)]

    def st_Raise(self, node, st):
        name = ast.unparse(node.exc) if node.exc is not None else 're-raise'
        return [('raise', st, (node, name))]

    def st_Break(self, node, st):
        return [('break', st, None)]

    def st_Continue(self, node, st):
        return [('continue', st, None)]

    def st_If(self, node, st):
        c = self.truth(self.ev(node.test, st))
        if isinstance(c, bool):
            return self.run_block(node.body if c else node.orelse, st)
        s1, s2 = st, st.fork()
        s1.pc.append(c)
        s2.pc.append(z3.Not(c))
        out = []
        if self.feasible(s1):
            out += self.run_block(node.body, s1)
        if self.feasible(s2):
            out += self.run_block(node.orelse, s2) if node.orelse else [('next', s2, None)]
        return out

    def feasible(self, st):
        """Cheap pruning of branches whose path condition is propositionally/arithmetically
        contradictory (ground reasoning only, 100 ms).  'unknown' keeps the branch."""
        s = z3.Solver()
        s.set('timeout', 100)
        for h in st.pc + st.guards:
            if not z3.is_quantifier(h):
                s.add(h)
        return s.check() != z3.unsat

    # loops -------------------------------------------------------------------------------
    def assigned_names(self, stmts, rebinding_only=False):
        names = set()
        for n in ast.walk(ast.Module(body=list(stmts), type_ignores=[])):
            if isinstance(n, ast.Name) and isinstance(n.ctx, (ast.Store, ast.Del)):
                names.add(n.id)
            elif isinstance(n, ast.AugAssign):
                t = n.target
                while isinstance(t, (ast.Subscript, ast.Attribute)):
                    t = t.value
                if isinstance(t, ast.Name):
                    names.add(t.id)
            elif isinstance(n, ast.Assign):
                for t in n.targets:
                    while isinstance(t, (ast.Subscript,)):
                        t = t.value
                    if isinstance(t, ast.Name):
                        names.add(t.id)
            elif isinstance(n, ast.Call) and isinstance(n.func, ast.Attribute) and n.func.attr in MUTATORS and not rebinding_only:
                t = n.func.value
                while isinstance(t, (ast.Subscript,)):
                    t = t.value
                if isinstance(t, ast.Name):
                    names.add(t.id)
        return names

    def mutated_objects(self, stmts, st):
        "object fields possibly written in the loop body: any method call / attribute store on an object variable"
        objs = set()
        for n in ast.walk(ast.Module(body=list(stmts), type_ignores=[])):
            if isinstance(n, ast.Call) and isinstance(n.func, ast.Attribute):
                b = n.func.value
                if isinstance(b, ast.Name) and b.id in st.env and isinstance(st.env[b.id].kind, tuple) \
                        and st.env[b.id].kind[0] == 'obj':
                    objs.add(st.env[b.id].t)
                if isinstance(b, ast.Attribute) and isinstance(b.value, ast.Name) and b.value.id in st.env:
                    v = st.env[b.value.id]
                    if isinstance(v.kind, tuple) and v.kind[0] == 'obj':
                        objs.add(v.t)
                for a in n.args:
                    if isinstance(a, ast.Name) and a.id in st.env and isinstance(st.env[a.id].kind, tuple) \
                            and st.env[a.id].kind[0] == 'obj':
                        objs.add(st.env[a.id].t)
            if isinstance(n, ast.Attribute) and isinstance(n.ctx, ast.Store) and isinstance(n.value, ast.Name):
                v = st.env.get(n.value.id)
                if v is not None and isinstance(v.kind, tuple) and v.kind[0] == 'obj':
                    objs.add(v.t)
        return objs

    def invariants(self, spec, st, node, what):
        out = []
        self.spec_mode = True
        try:
            for e, txt in spec.invariants:
                out.append((self.zbool(self.truth(self.ev(e, st))), txt))
        finally:
            self.spec_mode = False
        return out

    def loop_spec(self, node):
        ordn = self.loop_ord[id(node)]
        spec = self.contract.loops.get(ordn)
        if spec is None:
            raise OutOfSubset('loop #%d at line %d has no invariant' % (ordn, node.lineno))
        return ordn, spec

    def havoc_loop(self, body, st, extra=()):
        names = self.assigned_names(body) | set(extra)
        self._last_havoc = names
        rebound = self.assigned_names(body, rebinding_only=True) | set(extra)
        # ghost snapshots taken by after_assign clauses inside this loop are not available at its head
        inner = {id(n) for n in ast.walk(ast.Module(body=list(body), type_ignores=[]))}
        for nid, key in self.assign_ord.items():
            if nid in inner:
                for cl in getattr(self.contract, 'after_assign', {}).get(key, ()):
                    if cl[0] == 'let':
                        st.env.pop(cl[1], None)
        for nme in sorted(names):
            if nme in st.env:
                v = st.env[nme]
                if isinstance(v.kind, tuple) and v.kind[0] == 'obj' and nme not in rebound:
                    continue        # a method call on an object variable: its fields are havocked below, its identity stays
                if v.kind == EMPTYLIST:
                    dk = self.contract.locals.get(nme)
                    if dk is None:
                        raise OutOfSubset('kind of list %s modified in loop is unknown; declare local(%s=...)' % (nme, nme))
                    v = self.coerce_empty(v, dk)
                if v.kind == CONST:
                    if isinstance(v.t, bool):
                        v = SVal('bool', None)
                    elif isinstance(v.t, int):
                        v = SVal('int', None)
                    elif v.t is None and nme in self.contract.locals:
                        v = SVal(self.contract.locals[nme], None)
                    else:
                        # constant re-assigned in loop to something else: need declaration
                        dk = self.contract.locals.get(nme)
                        if dk is None:
                            st.env.pop(nme)
                            continue
                        v = SVal(dk, None)
                if v.kind in (OPAQUE, ('ref',), ('boundmethod',), ('cfgattr',), 'cfg'):
                    continue
                st.env[nme] = self.fresh(v.kind, nme)
        for oid in self.mutated_objects(body, st):
            for (o, fld), v in list(st.heap.items()):
                if o == oid:
                    st.heap[(o, fld)] = self.fresh(v.kind, fld)

    def st_For(self, node, st):
        if node.orelse:
            raise OutOfSubset('for-else')
        ordn, spec = self.loop_spec(node)
        kname = spec.index or ('_k%d' % ordn)
        k0 = z3.Int('%s!%d' % (kname, next(self.counter)))
        pre = st
        # the iterable is evaluated once, in the pre-state
        frozen = pre.fork()
        n_term, _ = self.iter_source(node.iter, node.target, z3.IntVal(0), frozen)
        is_range = isinstance(node.iter, ast.Call) and isinstance(node.iter.func, ast.Name) \
            and node.iter.func.id == 'range'
        targets = [n_.id for n_ in ast.walk(node.target) if isinstance(n_, ast.Name)]

        def at_head(s, kterm):
            "bind the ghost index; for range loops the loop variable denotes the next value"
            s.env[kname] = SVal('int', kterm)
            for tname in targets:
                s.env.pop(tname, None)
            if is_range:
                _, b = self.iter_source(node.iter, node.target, kterm, frozen.fork())
                b(s)

        # 1. establish (entry clauses first: they refer to the enclosing loop's head through at_head)
        at_head(pre, z3.IntVal(0))
        if spec.entry_:
            self.run_finally(spec, pre, None, node, clauses=spec.entry_, label='loop-entry')
        for g, txt in self.invariants(spec, pre, node, 'establish'):
            self.oblige(pre, 'inv-init', node, g, 'loop %d invariant holds on entry: %s' % (ordn, txt))
        # 2. arbitrary iteration
        head = pre.fork()
        self.havoc_loop(node.body, head, extra=targets)
        hv_names = self._last_havoc
        at_head(head, k0)
        head.pc.append(z3.And(0 <= k0, k0 <= n_term))
        for g, txt in self.invariants(spec, head, node, 'assume'):
            head.pc.append(g)
        after = head.fork()
        body_st = head.fork()
        body_st.pc.append(k0 < n_term)
        _, binder = self.iter_source(node.iter, node.target, k0, frozen.fork())
        binder(body_st)
        src = getattr(self, '_last_iter_seq', None)
        if src is not None:
            body_st.pc.append(self.seqth(src.kind).snoc_hint(src.t, k0))
        self.add_hints(spec, body_st)
        if not getattr(self, 'inline_of', None):
            self.vac_points.append(('loop %d body' % ordn, body_st.hyps()))
        outs = []
        head_snapshot = body_st.fork()
        head_snapshot.heap = dict(body_st.heap)
        outer_head = getattr(self, 'head', None)
        self.head = head_snapshot
        self.havoc_stack.append(hv_names)
        try:
            body_results = self.run_block(node.body, body_st)
        finally:
            self.head = outer_head
            self.havoc_stack.pop()
        for tag, s2, payload in body_results:
            if tag in ('next', 'continue'):
                self.run_finally(spec, s2, head_snapshot, node)
                at_head(s2, k0 + 1)
                for g, txt in self.invariants(spec, s2, node, 'preserve'):
                    self.oblige(s2, 'inv-keep', node, g, 'loop %d invariant preserved: %s' % (ordn, txt))
            elif tag == 'break':
                outs.append(('next', s2, None))
            else:
                outs.append((tag, s2, payload))
        # 3. exit
        after.pc.append(k0 == n_term)
        for tname in targets:
            after.env.pop(tname, None)
        snap = after.fork()
        snap.heap = dict(after.heap)
        after.env['$exit%d' % ordn] = snap      # travels with the path
        outs.append(('next', after, None))
        return outs

    def run_finally(self, spec, st, head, node, clauses=None, label='end-of-body'):
        saved_head = getattr(self, 'head', None)
        if head is not None:
            self.head = head
        self.spec_mode = True
        try:
            for what, e, txt in (spec.finally_ if clauses is None else clauses):
                if what == 'check':
                    g = self.zbool(self.truth(self.ev(e, st)))
                    self.spec_mode = False
                    self.oblige(st, 'ghost-check', node, g, label + ' check: ' + txt)
                    self.spec_mode = True
                    self.assume(st, g)
                else:
                    self.assume_hint(e, txt, st)
        finally:
            self.spec_mode = False
            self.head = saved_head

    def call_at_head(self, node, st):
        if getattr(self, 'head', None) is None:
            raise OutOfSubset('at_head() outside a finally clause')
        return self.ev(node.args[0], self.head.fork())

    def add_hints(self, spec, st):
        self.spec_mode = True
        try:
            for e, txt in spec.hints:
                self.assume_hint(e, txt, st)
        finally:
            self.spec_mode = False

    def assume_hint(self, e, txt, st):
        """A hint is either an instance of a proved lemma (lemma_name(args)) or a prelude fact
        (snoc(s, k)); hints never introduce unproved facts."""
        if isinstance(e, ast.Call) and isinstance(e.func, ast.Name):
            nm = e.func.id
            if nm == 'snoc':
                s = self.ev(e.args[0], st)
                k = self.to_int(self.ev(e.args[1], st))
                st.pc.append(self.seqth(s.kind).snoc_hint(s.t, k))
                return
            q = 'lemma.' + nm
            if q in self.reg.lemmas:
                c = self.reg.lemmas[q]
                args = [self.ev(a, st) for a in e.args]
                save = self.spec_mode
                node = e
                self.instantiate_lemma(c, args, node, st)
                self.spec_mode = save
                return
        raise OutOfSubset('hint %s is neither snoc(..) nor a lemma instance' % txt)

    def instantiate_lemma(self, c, args, node, st):
        frame = State()
        frame.heap, frame.pc, frame.guards, frame.fresh_objs = st.heap, st.pc, st.guards, st.fresh_objs
        for (pname, pkind, _), a in zip(c.params, args):
            frame.env[pname] = self.lift(a, pkind)
        pres = [self.zbool(self.truth(self.ev(e, frame))) for e, _ in c.requires]
        posts = [self.zbool(self.truth(self.ev(e, frame))) for e, _ in c.ensures]
        pre = z3.And(*pres) if pres else z3.BoolVal(True)
        for p in posts:
            st.pc.append(z3.Implies(pre, p))

    def st_While(self, node, st):
        if node.orelse:
            raise OutOfSubset('while-else')
        ordn, spec = self.loop_spec(node)
        for g, txt in self.invariants(spec, st, node, 'establish'):
            self.oblige(st, 'inv-init', node, g, 'loop %d invariant holds on entry: %s' % (ordn, txt))
        head = st.fork()
        self.havoc_loop(node.body, head)
        hv_names = self._last_havoc
        for g, txt in self.invariants(spec, head, node, 'assume'):
            head.pc.append(g)
        c = self.truth(self.ev(node.test, head))
        c = self.zbool(c)
        after = head.fork()
        body_st = head.fork()
        body_st.pc.append(c)
        after.pc.append(z3.Not(c))
        variant0 = None
        if spec.decreases is not None:
            self.spec_mode = True
            variant0 = self.to_int(self.ev(spec.decreases, body_st))
            self.spec_mode = False
            self.oblige(body_st, 'variant-bounded', node, variant0 >= 0, 'loop %d variant is bounded below' % ordn)
        else:
            raise OutOfSubset('while loop #%d needs decreases(...)' % ordn)
        self.add_hints(spec, body_st)
        if not getattr(self, 'inline_of', None):
            self.vac_points.append(('loop %d body' % ordn, body_st.hyps()))
        outs = []
        head_snapshot = body_st.fork()
        head_snapshot.heap = dict(body_st.heap)
        self.havoc_stack.append(hv_names)
        try:
            while_results = self.run_block(node.body, body_st)
        finally:
            self.havoc_stack.pop()
        for tag, s2, payload in while_results:
            if tag in ('next', 'continue'):
                self.run_finally(spec, s2, head_snapshot, node)
                for g, txt in self.invariants(spec, s2, node, 'preserve'):
                    self.oblige(s2, 'inv-keep', node, g, 'loop %d invariant preserved: %s' % (ordn, txt))
                self.spec_mode = True
                v1 = self.to_int(self.ev(spec.decreases, s2))
                self.spec_mode = False
                self.oblige(s2, 'variant-decreases', node, v1 < variant0, 'loop %d variant decreases' % ordn)
            elif tag == 'break':
                outs.append(('next', s2, None))
            else:
                outs.append((tag, s2, payload))
        snap = after.fork()
        snap.heap = dict(after.heap)
        after.env['$exit%d' % ordn] = snap      # travels with the path
        outs.append(('next', after, None))
        return outs

    def call_after_loop(self, node, st):
        ordn = ast.literal_eval(node.args[0])
        snap = st.env.get('$exit%d' % ordn)
        if snap is None:
            raise OutOfSubset('after_loop(%d): loop not executed on this path' % ordn)
        return self.ev(node.args[1], snap.fork())

    # ---------------------------------------------------------------- function level
    def alias_check(self):
        """Reject functions where a mutated list is aliased by plain assignment."""
        body = ast.Module(body=list(self.body), type_ignores=[])
        mutated = set()
        for n in ast.walk(body):
            if isinstance(n, ast.Call) and isinstance(n.func, ast.Attribute) and n.func.attr in MUTATORS \
                    and isinstance(n.func.value, ast.Name):
                mutated.add(n.func.value.id)
            if isinstance(n, (ast.Assign, ast.AugAssign)):
                for t in (n.targets if isinstance(n, ast.Assign) else [n.target]):
                    if isinstance(t, ast.Subscript):
                        b = t.value
                        while isinstance(b, ast.Subscript):
                            b = b.value
                        if isinstance(b, ast.Name):
                            mutated.add(b.id)
            if isinstance(n, ast.AugAssign) and isinstance(n.target, ast.Name):
                mutated.add(n.target.id)
        for n in ast.walk(body):
            if isinstance(n, ast.Assign) and isinstance(n.value, ast.Name):
                src = n.value.id
                for t in n.targets:
                    if isinstance(t, ast.Name) and (src in mutated or t.id in mutated) and src != t.id:
                        kinds_ok = False
                        raise OutOfSubset('possible aliasing of mutated list: %s = %s (line %d)' % (t.id, src, n.lineno))
        params = {a.arg for a in self.fn.args.args} if hasattr(self.fn, 'args') else set()
        bad = [p for p in mutated & params]
        return bad

    def bind_params(self, st):
        c = self.contract
        fn_params = [a.arg for a in self.fn.args.args] + [a.arg for a in self.fn.args.kwonlyargs]
        cnames = c.param_names()
        if fn_params != cnames:
            raise TargetMissing('%s: parameters of the real function %r differ from the contract %r' %
                                (self.qualname, fn_params, cnames))
        for pname, pkind, _ in c.params:
            if pkind == OPAQUE:
                st.env[pname] = SVal(OPAQUE, pname)
            elif pkind == CONST:
                st.env[pname] = const(None)
            elif pkind == 'cfg':
                st.env[pname] = SVal('cfg', pname)
            else:
                v = self.fresh(pkind, pname)
                st.env[pname] = v
                if isinstance(pkind, tuple) and pkind[0] == 'obj':
                    self.init_fields(v, st)
        for gname, gkind in c.ghosts.items():
            st.env[gname] = self.fresh(gkind, gname)

    def verify(self):
        """Generate all obligations for the function.  Returns (obligations, info)."""
        c = self.contract
        st = State()
        self.bind_params(st)
        self.param_names = set(c.param_names())
        self.spec_mode = True
        for e, txt in c.requires:
            self.assume(st, self.zbool(self.truth(self.ev(e, st))))
        self.spec_mode = False
        self.pre_hyps = list(st.pc)
        self.vac_points.append(('entry', list(st.pc)))
        oldst = st.fork()
        oldst.heap = dict(st.heap)
        self.old = oldst
        # the frame: every non-modifies heap location must be unchanged at exit -> checked at stores
        outs = self.run_block(self.body, st)
        for tag, s2, payload in outs:
            if tag == 'raise':
                node, name = payload
                allowed = [r for r in c.raises if r[0] in name]
                if allowed:
                    continue
                self.oblige(s2, 'no-raise', node, False, 'raise %s is unreachable' % name)
                continue
            if tag in ('break', 'continue'):
                raise OutOfSubset('break/continue outside loop')
            val = payload if tag == 'return' else const(None)
            self.returning_paths = getattr(self, 'returning_paths', 0) + 1
            self.check_post(s2, val, oldst)
        return self.obls

    def check_post(self, st, val, oldst):
        c = self.contract
        line_node = self.fn
        if c.ret is not None and c.ret != CONST:
            try:
                val = self.lift(val, c.ret)
            except OutOfSubset:
                raise OutOfSubset('%s returns %r, contract declares %r' % (self.qualname, val.kind, c.ret))
        st.env['result'] = val
        # parameters in postconditions denote entry values (Dafny/Verus convention)
        for pname, _, _ in c.params:
            st.env[pname] = oldst.env[pname]
        self.spec_mode, self.old = True, oldst
        try:
            for h, txt in c.hints:
                self.assume_hint(h, txt, st)
            for what, e, txt in c.finally_:
                if what == 'check':
                    g = self.zbool(self.truth(self.ev(e, st)))
                    self.oblige(st, 'ghost-check', ast.copy_location(ast.Pass(), self.fn), g, 'exit check: ' + txt)
                    self.assume(st, g)
                else:
                    self.assume_hint(e, txt, st)
            for e, txt in c.ensures:
                g = self.zbool(self.truth(self.ev(e, st)))
                self.oblige(st, 'post', ast.copy_location(ast.Pass(), self.fn), g, 'postcondition: ' + txt)
        finally:
            self.spec_mode = False


class _InlineFork(Exception):
    def __init__(self, live):
        self.live = live


def _as_load(node):
    n = ast.parse(ast.unparse(node), mode='eval').body
    return ast.copy_location(n, node)


# spec functions available in contract expressions: name -> (arg kinds, result kind, theory accessor)
SPEC_FUNCS = {
    'rout': ([('seq', 'V'), ('seq', 'E')], ('seq', 'V'), lambda th: th.rout),
    'rtake': ([('seq', 'V'), ('seq', 'E')], 'int', lambda th: th.rtake),
    'apply_seq': ([('seq', 'V'), ('seq', 'E')], ('seq', 'V'), lambda th: th.apply_seq),
    'apply_v': (['V', ('seq', 'E')], 'V', lambda th: th.apply_v),
    'wf_seq': ([('seq', 'E'), 'int'], 'bool', lambda th: th.wf_seq),
    'wf_entry': (['E', 'int'], 'bool', lambda th: th.wf_entry),
    'ordered': (['E', 'E'], 'bool', lambda th: th.ordered),
    'span': (['E'], 'int', lambda th: th.span),
    'mk_addrange': (['int', ('seq', 'V')], 'E', lambda th: th.mk_addrange),
    'mk_removerange': (['int', 'int'], 'E', lambda th: th.mk_removerange),
    'mk_patch': (['int', ('seq', 'E')], 'E', lambda th: th.mk_patch),
    'mk_madd': (['str', 'V'], 'ME', lambda th: th.mk_madd),
    'mk_mremove': (['str'], 'ME', lambda th: th.mk_mremove),
    'mk_mreplace': (['str', 'V'], 'ME', lambda th: th.mk_mreplace),
    'mk_mpatch': (['str', ('seq', 'E')], 'ME', lambda th: th.mk_mpatch),
    'pyeq': (['V', 'V'], 'bool', lambda th: th.pyeq),
    'cmp': (['fn', 'V', 'V'], 'bool', lambda th: th.cmp),
    'wf_map': ([('seq', 'E'), 'map'], 'bool', lambda th: th.wf_map),
    'apply_map': (['map', ('seq', 'E')], 'map', lambda th: th.apply_map),
    'is_atomic': (['V', 'path'], 'bool', lambda th: th.is_atomic),
    'entry_for': ([('seq', 'E'), 'str'], 'int', lambda th: th.entry_for),
    'enum_keys': (['kset'], ('seq', 'str'), lambda th: th.enum_keys),
    'enum_pos': (['kset', 'str'], 'int', lambda th: th.enum_pos),
    'keys_of': (['map'], 'kset', lambda th: th.m_dom),
    'ekeys_of': (['emap'], 'kset', lambda th: th.em_dom),
    'keyed': (['emap'], 'bool', lambda th: th.keyed),
    'em_put': (['emap', 'str', 'ME'], 'emap', lambda th: th.em_put),
    'sorted_keys': (['kset'], ('seq', 'str'), lambda th: th.sorted_keys),
    'key_pos': (['kset', 'str'], 'int', lambda th: th.key_pos),
    'kdiff': (['kset', 'kset'], 'kset', lambda th: th.ks_diff),
    'kinter': (['kset', 'kset'], 'kset', lambda th: th.ks_inter),
    'same_type': (['V', 'V'], 'bool', lambda th: th.same_type),
    'is_list': (['V'], 'bool', lambda th: th.is_list),
    'is_dict': (['V'], 'bool', lambda th: th.is_dict),
    'is_str': (['V'], 'bool', lambda th: th.is_str),
    'as_list': (['V'], ('seq', 'V'), lambda th: th.as_list),
    'of_list': ([('seq', 'V')], 'V', lambda th: th.of_list),
    'as_map': (['V'], 'map', lambda th: th.as_map),
    'of_map': (['map'], 'V', lambda th: th.of_map),
    'wf_v': (['V', ('seq', 'E')], 'bool', lambda th: th.wf_v),
    'diffable': (['V', 'V'], 'bool', lambda th: th.diffable),
    'pred_typed': (['fn', 'path'], 'bool', lambda th: th.pred_typed),
    'any_cmp': ([('seq', 'fn'), 'V', 'V'], 'bool', lambda th: th.any_cmp),
    'preds_diffable': ([('seq', 'fn')], 'bool', lambda th: th.preds_diffable),
    'has_preds': (['path'], 'bool', lambda th: th.has_preds),
    'path_norm': (['path'], 'path', lambda th: th.path_norm),
    'path_key': (['path', 'str'], 'path', lambda th: th.path_key),
    'sorted_b': ([('seq', 'E')], 'bool', lambda th: th.sorted_b),
    'gap_ok': ([('seq', 'V'), ('seq', 'V'), 'fn', 'int', 'int', 'int'], 'bool', lambda th: th.gap_ok),
    'al': ([('seq', 'V'), ('seq', 'V'), ('seq', 'E'), 'fn'], 'bool', lambda th: th.al),
    'al_step': ([('seq', 'V'), ('seq', 'V'), 'fn', 'int', 'int', 'E'], 'bool', lambda th: th.al_step),
    'aligned': ([('seq', 'V'), ('seq', 'V'), ('seq', 'E'), 'fn'], 'bool', lambda th: th.aligned),
    'step_out': ([('seq', 'V'), ('seq', 'V'), 'int', 'E'], ('seq', 'V'), lambda th: th.step_out),
    'step_take': (['int', 'E'], 'int', lambda th: th.step_take),
    'pref_eq': ([('seq', 'V'), ('seq', 'V')], 'bool', lambda th: th.pref_eq),
    'gap_eq': ([('seq', 'V'), ('seq', 'V'), 'int', 'int', 'int'], 'bool', lambda th: th.gap_eq),
    'good_differ': (['fn'], 'bool', lambda th: th.good_differ),
    'differs_ok': ([], 'bool', lambda th: (lambda: th.differs_ok)),
    'atomic_ok': ([], 'bool', lambda th: (lambda: th.atomic_ok)),
    'pred_exact': (['fn', 'path'], 'bool', lambda th: th.pred_exact),
    'preds_at': (['path'], ('seq', 'fn'), lambda th: th.preds_at),
    'differs_at': (['path'], 'fn', lambda th: th.differs_at),
    'path_star': (['path'], 'path', lambda th: th.path_star),
    'differ': (['fn', 'V', 'V', 'path'], ('seq', 'E'), lambda th: th.differ),
    'has_valuelist': (['E'], 'bool', lambda th: th.has['valuelist']),
    'has_length': (['E'], 'bool', lambda th: th.has['length']),
    'has_diff': (['E'], 'bool', lambda th: th.has['diff']),
    'has_value': (['E'], 'bool', lambda th: th.has['value']),
}
