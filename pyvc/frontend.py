"""Front end: locate real functions in /repo's current working tree, resolve names through the
module's import table, and parse sidecar contract files (which are *parsed*, never imported, by the
prover)."""
import ast
import os

REPO = os.environ.get('NBDIME_REPO', '/repo')


class OutOfSubset(Exception):
    pass


class TargetMissing(Exception):
    "the function a contract is keyed on no longer exists in the tree (proof-lost)"


_module_cache = {}


class Module:
    def __init__(self, modname, repo=None):
        self.name = modname
        repo = repo or REPO
        path = os.path.join(repo, *modname.split('.'))
        if os.path.isdir(path):
            self.file = os.path.join(path, '__init__.py')
            self.package = modname
        else:
            self.file = path + '.py'
            self.package = modname.rsplit('.', 1)[0] if '.' in modname else ''
        if not os.path.exists(self.file):
            raise TargetMissing('module %s not found at %s' % (modname, self.file))
        with open(self.file) as fh:
            self.source = fh.read()
        self.tree = ast.parse(self.source, self.file)
        self.imports = {}     # local name -> qualified name
        self.defs = {}        # local name -> ast node (FunctionDef / ClassDef)
        self.consts = {}      # module-level simple constants
        for node in self.tree.body:
            self._scan(node)

    def _scan(self, node):
        if isinstance(node, ast.Import):
            for a in node.names:
                self.imports[a.asname or a.name.split('.')[0]] = a.name if a.asname else a.name.split('.')[0]
        elif isinstance(node, ast.ImportFrom):
            base = node.module or ''
            if node.level:
                pkg = self.package.split('.')
                if node.level > 1:
                    pkg = pkg[:-(node.level - 1)]
                base = '.'.join(pkg + ([node.module] if node.module else []))
            for a in node.names:
                self.imports[a.asname or a.name] = base + '.' + a.name
        elif isinstance(node, (ast.FunctionDef, ast.ClassDef)):
            self.defs[node.name] = node
        elif isinstance(node, ast.Assign) and len(node.targets) == 1 and isinstance(node.targets[0], ast.Name):
            try:
                self.consts[node.targets[0].id] = ast.literal_eval(node.value)
            except Exception:
                # a tuple of builtin type names such as  sequence_types = (str, list): kept as text for isinstance()
                if isinstance(node.value, ast.Tuple) and all(isinstance(x, ast.Name) for x in node.value.elts):
                    self.type_tuples = getattr(self, 'type_tuples', {})
                    self.type_tuples[node.targets[0].id] = tuple(x.id for x in node.value.elts)
        elif isinstance(node, (ast.If, ast.Try)):
            for sub in ast.iter_child_nodes(node):
                if isinstance(sub, ast.stmt):
                    self._scan(sub)

    def resolve(self, name):
        "qualified name of a module-level identifier, or None"
        if name in self.defs:
            return self.name + '.' + name
        if name in self.imports:
            return self.imports[name]
        if name in self.consts:
            return self.name + '.' + name
        return None


def load_module(modname, repo=None):
    key = (repo or REPO, modname)
    if key not in _module_cache:
        _module_cache[key] = Module(modname, repo)
    return _module_cache[key]


def clear_cache():
    _module_cache.clear()


def find_function(qualname, repo=None):
    """Return (Module, FunctionDef, classname|None) for 'pkg.mod.func' or 'pkg.mod.Class.meth'."""
    parts = qualname.split('.')
    for cut in range(len(parts) - 1, 0, -1):
        modname = '.'.join(parts[:cut])
        try:
            mod = load_module(modname, repo)
        except TargetMissing:
            continue
        rest = parts[cut:]
        node = mod.defs.get(rest[0])
        if node is None:
            raise TargetMissing('%s: no definition %s in %s' % (qualname, rest[0], mod.file))
        if len(rest) == 1:
            if not isinstance(node, ast.FunctionDef):
                raise TargetMissing('%s is not a function' % qualname)
            return mod, node, None
        if isinstance(node, ast.ClassDef) and len(rest) == 2:
            for sub in node.body:
                if isinstance(sub, ast.FunctionDef) and sub.name == rest[1]:
                    return mod, sub, rest[0]
            raise TargetMissing('%s: class %s has no method %s' % (qualname, rest[0], rest[1]))
        raise TargetMissing('%s: cannot resolve' % qualname)
    raise TargetMissing('%s: module not found' % qualname)


def class_constants(qualname, repo=None):
    "simple class-level constants, e.g. nbdime.diff_format.DiffOp -> {'ADD': 'add', ...}"
    parts = qualname.split('.')
    mod = load_module('.'.join(parts[:-1]), repo)
    node = mod.defs.get(parts[-1])
    out = {}
    if isinstance(node, ast.ClassDef):
        for sub in node.body:
            if isinstance(sub, ast.Assign) and len(sub.targets) == 1 and isinstance(sub.targets[0], ast.Name):
                try:
                    out[sub.targets[0].id] = ast.literal_eval(sub.value)
                except Exception:
                    # tuples of attribute references such as OPS = (DiffOp.ADDRANGE, ...)
                    out[sub.targets[0].id] = sub.value
    return out


# ------------------------------------------------------------------------------------------
# contracts

def parse_kind(s):
    s = s.strip()
    low = s.lower()
    if low.startswith('seq[') and s.endswith(']'):
        return ('seq', parse_kind(s[4:-1]))
    if low.startswith('tuple[') and s.endswith(']'):
        parts, depth, cur = [], 0, ''
        for ch in s[6:-1]:
            if ch == '[':
                depth += 1
            if ch == ']':
                depth -= 1
            if ch == ',' and depth == 0:
                parts.append(cur)
                cur = ''
            else:
                cur += ch
        parts.append(cur)
        return ('tuple',) + tuple(parse_kind(p) for p in parts)
    if low.startswith('obj:'):
        return ('obj', s[4:])
    if low == 'none':
        return ('const',)
    table = {'int': 'int', 'bool': 'bool', 'v': 'V', 'e': 'E', 'me': 'ME', 'str': 'str', 'path': 'path',
             'fn': 'fn', 'cfg': 'cfg', 'map': 'map', 'emap': 'emap', 'kset': 'kset', 't3': 'T3', 'opaque': ('opaque',)}
    if low in table:
        return table[low]
    raise ValueError('unknown kind %r' % s)


class LoopSpec:
    def __init__(self):
        self.index = None
        self.invariants = []     # (ast expr, source text)
        self.decreases = None
        self.hints = []
        self.finally_ = []       # ('check'|'hint', ast expr, text): evaluated at the end of every body path
        self.entry_ = []         # same, evaluated once where the loop is entered (before the invariants are established)


class Contract:
    def __init__(self, qualname):
        self.qualname = qualname
        self.params = []         # (name, kind, default ast|None)
        self.ret = None
        self.requires = []       # (ast expr, text)
        self.ensures = []
        self.modifies = []
        self.loops = {}
        self.hints = []
        self.properties = []     # property ids this contract serves
        self.assumed = False     # external dependency: contract is trusted, body not verified
        self.pure = True
        self.raises = []         # (exception name, condition expr) allowed raises
        self.file = None
        self.line = 0
        self.locals = {}         # declared kinds for locals that cannot be inferred
        self.ghosts = {}         # ghost parameters, bound by name from the caller's scope
        self.exposes = {}        # callee locals visible in postconditions (skolem constants at call sites)
        self.after_assign = {}   # (variable, occurrence) -> [('let', name, expr)|('check'|'hint', expr, text)]: ghost code after an assignment
        self.finally_ = []       # ('check'|'hint', expr, text) evaluated at every return before the postconditions
        self.inline = False      # tiny wrapper: executed inline at call sites instead of by contract

    def param_names(self):
        return [p[0] for p in self.params]


class ClassSpec:
    def __init__(self, qualname, fields):
        self.qualname = qualname
        self.fields = fields     # name -> kind


def _txt(node):
    return ast.unparse(node)


def parse_contracts(path):
    """Parse one sidecar contract file.  Returns (contracts: dict qualname -> Contract,
    classes: dict qualname -> ClassSpec, lemmas: list[FunctionDef-with-contract])."""
    with open(path) as fh:
        src = fh.read()
    tree = ast.parse(src, path)
    contracts, classes, ghosts = {}, {}, {}
    for node in tree.body:
        if isinstance(node, ast.Expr) and isinstance(node.value, ast.Call) and \
                getattr(node.value.func, 'id', None) == 'fields':
            q = ast.literal_eval(node.value.args[0])
            classes[q] = ClassSpec(q, {kw.arg: parse_kind(ast.literal_eval(kw.value)) for kw in node.value.keywords})
            continue
        if not isinstance(node, ast.FunctionDef):
            continue
        deco = None
        for d in node.decorator_list:
            if isinstance(d, ast.Call) and getattr(d.func, 'id', None) in ('contract', 'assumed', 'lemma', 'inline'):
                deco = d
        if deco is None:
            continue
        kindname = deco.func.id
        qual = ast.literal_eval(deco.args[0]) if deco.args else node.name
        if kindname == 'lemma':
            qual = 'lemma.' + qual
        c = Contract(qual)
        c.file, c.line = path, node.lineno
        c.assumed = kindname == 'assumed'
        c.inline = kindname == 'inline'
        for kw in deco.keywords:
            if kw.arg == 'properties':
                c.properties = ast.literal_eval(kw.value)
        args = node.args
        defaults = [None] * (len(args.args) - len(args.defaults)) + list(args.defaults)
        for a, dflt in zip(args.args, defaults):
            c.params.append((a.arg, parse_kind(ast.literal_eval(a.annotation)) if a.annotation else ('opaque',), dflt))
        for a, dflt in zip(args.kwonlyargs, args.kw_defaults):
            c.params.append((a.arg, parse_kind(ast.literal_eval(a.annotation)) if a.annotation else ('opaque',), dflt))
        if node.returns is not None:
            c.ret = parse_kind(ast.literal_eval(node.returns))
        body = []
        for st in node.body:
            if isinstance(st, ast.Expr) and isinstance(st.value, ast.Constant):
                continue
            if isinstance(st, ast.Pass):
                continue
            if _spec_stmt(st, c):
                continue
            body.append(st)
        if kindname == 'lemma':
            c.body = body
            c.node = node
            ghosts[qual] = c
        else:
            if body:
                raise SyntaxError('%s:%d: unexpected statement in contract body' % (path, body[0].lineno))
        if qual in contracts:
            raise SyntaxError('%s:%d: contract for %s defined twice' % (path, node.lineno, qual))
        contracts[qual] = c
    return contracts, classes, ghosts


def _spec_stmt(st, c):
    if isinstance(st, ast.Expr) and isinstance(st.value, ast.Call) and isinstance(st.value.func, ast.Name):
        fn = st.value.func.id
        a = st.value.args
        if fn == 'requires':
            c.requires.append((a[0], _txt(a[0])))
        elif fn == 'ensures':
            c.ensures.append((a[0], _txt(a[0])))
        elif fn == 'modifies':
            c.modifies.extend(a)
            c.pure = False
        elif fn == 'hint':
            c.hints.append((a[0], _txt(a[0])))
        elif fn == 'raises':
            c.raises.append((_txt(a[0]), a[1] if len(a) > 1 else None))
        elif fn == 'local':
            for kw in st.value.keywords:
                c.locals[kw.arg] = parse_kind(ast.literal_eval(kw.value))
        elif fn in ('finally_check', 'finally_hint'):
            c.finally_.append((fn[8:], a[0], _txt(a[0])))
        elif fn == 'ghost':
            for kw in st.value.keywords:
                c.ghosts[kw.arg] = parse_kind(ast.literal_eval(kw.value))
        elif fn == 'exposes':
            for kw in st.value.keywords:
                c.exposes[kw.arg] = parse_kind(ast.literal_eval(kw.value))
        else:
            return False
        return True
    if isinstance(st, ast.With) and isinstance(st.items[0].context_expr, ast.Call) and \
            getattr(st.items[0].context_expr.func, 'id', None) == 'after_assign':
        call = st.items[0].context_expr
        key = (ast.literal_eval(call.args[0]), ast.literal_eval(call.args[1]) if len(call.args) > 1 else 1)
        clauses = []
        for sub in st.body:
            if not (isinstance(sub, ast.Expr) and isinstance(sub.value, ast.Call)):
                raise SyntaxError('unknown after_assign clause')
            fn = sub.value.func.id
            if fn == 'let':
                for kw in sub.value.keywords:
                    clauses.append(('let', kw.arg, kw.value))
            elif fn in ('check', 'hint'):
                clauses.append((fn, sub.value.args[0], _txt(sub.value.args[0])))
            else:
                raise SyntaxError('unknown after_assign clause %s' % fn)
        c.after_assign[key] = clauses
        return True
    if isinstance(st, ast.With) and isinstance(st.items[0].context_expr, ast.Call) and \
            getattr(st.items[0].context_expr.func, 'id', None) == 'loop':
        call = st.items[0].context_expr
        ls = LoopSpec()
        ordinal = ast.literal_eval(call.args[0])
        for kw in call.keywords:
            if kw.arg == 'index':
                ls.index = ast.literal_eval(kw.value)
        for sub in st.body:
            if isinstance(sub, ast.Expr) and isinstance(sub.value, ast.Call):
                fn = sub.value.func.id
                if fn == 'invariant':
                    ls.invariants.append((sub.value.args[0], _txt(sub.value.args[0])))
                elif fn == 'decreases':
                    ls.decreases = sub.value.args[0]
                elif fn == 'hint':
                    ls.hints.append((sub.value.args[0], _txt(sub.value.args[0])))
                elif fn in ('finally_check', 'finally_hint'):
                    ls.finally_.append((fn[8:], sub.value.args[0], _txt(sub.value.args[0])))
                elif fn in ('entry_check', 'entry_hint'):
                    ls.entry_.append((fn[6:], sub.value.args[0], _txt(sub.value.args[0])))
                else:
                    raise SyntaxError('unknown loop clause %s' % fn)
        c.loops[ordinal] = ls
        return True
    return False
