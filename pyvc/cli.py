"""pyvc command line: verify functions under contract and print obligations."""
import glob
import os
import sys
import time

from .frontend import OutOfSubset, TargetMissing
from .symexec import Exec, Registry
from .theory import Theory
from . import solve

HERE = os.path.dirname(os.path.dirname(os.path.abspath(__file__)))


def load_registry():
    reg = Registry()
    for path in sorted(glob.glob(os.path.join(HERE, 'contracts', 'kit_*.py'))):
        reg.load(path)
    return reg


def verify_functions(qualnames, repo=None, second_backend=False, th=None, reg=None):
    th = th or Theory()
    reg = reg or load_registry()
    report = {}
    allobls = []
    for q in qualnames:
        info = {'status': None, 'obligations': []}
        report[q] = info
        try:
            ex = Exec(th, reg, q, repo)
            obls = ex.verify()
            info['obligations'] = obls
            info['pre_hyps'] = ex.pre_hyps
            allobls.extend(obls)
        except OutOfSubset as exc:
            info['status'] = 'out-of-subset'
            info['reason'] = str(exc)
        except TargetMissing as exc:
            info['status'] = 'proof-lost'
            info['reason'] = str(exc)
    solve.discharge(th, allobls, second_backend=second_backend)
    for q, info in report.items():
        if info['status'] is None:
            obls = info['obligations']
            if not obls:
                info['status'] = 'no-obligations'
            elif all(o.status == 'unsat' for o in obls):
                info['status'] = 'proved'
            else:
                info['status'] = 'failed'
    return th, report


def main(argv):
    t0 = time.time()
    th, report = verify_functions(argv)
    for q, info in report.items():
        print('==', q, info['status'], info.get('reason', ''))
        for o in info['obligations']:
            print('   %-8s %-7s %6.2fs  %s  %s' % (o.status, o.kind, o.seconds, o.id, o.text[:110]))
    print('total %.1fs' % (time.time() - t0))


if __name__ == '__main__':
    main(sys.argv[1:])
