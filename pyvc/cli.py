"""pyvc command line: verify functions under contract and print obligations."""
import glob
import os
import sys
import time

from .frontend import OutOfSubset, TargetMissing
from .symexec import Exec, Registry
from .theory import Theory
from . import solve

HERE = os.path.dirname(os.path.dirname(os.path.abspath(__file__)))


def load_registry():
    reg = Registry()
    for path in sorted(glob.glob(os.path.join(HERE, 'contracts', 'kit_*.py'))):
        reg.load(path)
    return reg


def verify_functions(qualnames, repo=None, second_backend=False, th=None, reg=None, kinds=None):
    """kinds: restrict to obligations of these kinds (e.g. {'frame'}): the VCs are generated as usual, the others are dropped."""
    th = th or Theory()
    reg = reg or load_registry()
    report = {}
    allobls = []
    for q in qualnames:
        info = {'status': None, 'obligations': []}
        report[q] = info
        try:
            ex = Exec(th, reg, q, repo)
            obls = ex.verify()
            info['returning_paths'] = getattr(ex, 'returning_paths', None)
            info['mutable_params'] = [p[0] for p in reg.contracts[q].params
                                      if (isinstance(p[1], tuple) and p[1][0] == 'seq') or p[1] in ('map', 'emap', 'kset', 'V', 'E', 'ME')]
            if kinds is not None:
                obls = [o for o in obls if o.kind in kinds]
                info['kinds_only'] = sorted(kinds)
            info['obligations'] = obls
            info['pre_hyps'] = ex.pre_hyps
            info['vac_points'] = [('%s: %s' % (q, lab), h) for lab, h in ex.vac_points]
            allobls.extend(obls)
        except OutOfSubset as exc:
            info['status'] = 'out-of-subset'
            info['reason'] = str(exc)
        except TargetMissing as exc:
            info['status'] = 'proof-lost'
            info['reason'] = str(exc)
    only = os.environ.get('PYVC_ONLY')
    if only:
        keep = [o for o in allobls if only in o.id or only in o.text]
        for o in allobls:
            if o not in keep:
                o.status, o.backend, o.seconds = 'unsat', 'skipped', 0.0
        allobls = keep
    solve.discharge(th, allobls, second_backend=second_backend)
    vpoints = [p for info in report.values() for p in info.get('vac_points', [])]
    vres = solve.vacuity(th, vpoints)
    vac_bad = {}
    by_label = {}
    for label, ok, verdict, dt in vres:
        by_label.setdefault(label, []).append(ok)
    for label, oks in by_label.items():
        # a program point reached on several paths is vacuous only if EVERY path to it is contradictory
        if not any(oks):
            vac_bad.setdefault(label.split(': ')[0], []).append(label)
    for q, info in report.items():
        info['vacuity_checked'] = len(info.get('vac_points', []))
        if info['status'] is None:
            obls = info['obligations']
            if q in vac_bad:
                info['status'] = 'vacuous'
                info['reason'] = 'contradictory hypotheses at: ' + '; '.join(vac_bad[q])
            elif not obls and info.get('kinds_only'):
                info['status'] = 'proved'          # no obligation of the requested kind arises (e.g. no parameter write exists)
            elif not obls and reg.contracts[q].ensures:
                info['status'] = 'no-obligations'
            elif not obls:
                # a contract without postconditions whose every `raise`/assert lies on a path pruned by constant folding
                # (e.g. the string-key variant of validate_diff_entry): nothing to discharge, provided some path returns
                info['status'] = 'proved' if info.get('returning_paths') else 'no-obligations'
            elif all(o.status == 'unsat' for o in obls):
                info['status'] = 'proved'
            else:
                info['status'] = 'failed'
    return th, report


def main(argv):
    t0 = time.time()
    th, report = verify_functions(argv)
    for q, info in report.items():
        print('==', q, info['status'], info.get('reason', ''))
        for o in info['obligations']:
            print('   %-8s %-7s %6.2fs  %s  %s' % (o.status, o.kind, o.seconds, o.id, o.text[:110]))
            if os.environ.get('PYVC_DEBUG') and (o.seconds > 1.5 or o.status != 'unsat'):
                for r in getattr(o, 'trace', []):
                    print('        ', r)
                if o.status != 'unsat':
                    from .solve import light_split
                    for (okp, v, b, pid), (_, g) in zip(o.parts1, light_split(th, o.goal)):
                        print('        part', pid, okp, v, str(g)[:300].replace('\n', ' '))
                    for pid, okp, rs in getattr(o, 'pieces', []):
                        print('        piece', pid, okp, [(r[0], r[1]) for r in rs])
    print('total %.1fs' % (time.time() - t0))


if __name__ == '__main__':
    main(sys.argv[1:])
