#!/bin/sh
# Build /verif/.venv offline: python3.12 venv with z3-solver + jsonschema from the local wheelhouse,
# overlaid on /venv's site-packages (nbformat, GitPython, tornado, pygments, ...).
# nbdime itself is always imported from /repo's working tree via PYTHONPATH.
set -e
cd "$(dirname "$0")"
if [ ! -x .venv/bin/python ] || ! .venv/bin/python -c "import z3" 2>/dev/null; then
  rm -rf .venv
  /venv/bin/python -m venv .venv
  PIP_NO_INDEX=1 .venv/bin/pip install -q --no-index --find-links /opt/veriftools/wheels z3-solver
  echo "import site; site.addsitedir('/venv/lib/python3.12/site-packages')" > .venv/lib/python3.12/site-packages/_overlay.pth
fi
PYTHONPATH=/repo .venv/bin/python -c "import z3, nbformat, jsonschema, git, tornado; import nbdime"
mkdir -p evidence replays
echo "setup ok"
