"""C12 -- diffing is a pure function of its inputs: no dependence on process history.

Proof part (Kit F): frame contract over the module-level mutable state; one obligation per object, per access
site and per mutable default argument found in the current sources.  Bounded part: call histories in one
process compared, call by call, with a freshly started interpreter."""
import json
import os
import random
import subprocess
import sys

from . import common

LEVEL = 'other'
KNOWN = {}


def frame_obligations(res, prefixes=None):
    """Kit F obligations; `prefixes` restricts them to state owned by / sites located in the given modules."""
    from pyvc import frames
    from contracts import kit_f
    objs, sites, defaults = frames.inventory(common.REPO)
    if prefixes:
        hit = lambda name: any(name == p or name.startswith(p + '.') for p in prefixes)
        objs = {q: d for q, d in objs.items() if hit(q)}
        sites = [s for s in sites if hit(s.obj) or hit(s.where)]
        defaults = [d for d in defaults if hit(d.where)]
    failed = []
    n = 0
    written = {s.obj for s in sites if s.kind == 'write'}
    escaping = frames.escapes(common.REPO)
    for q, desc in sorted(objs.items()):
        n += 1
        if q not in kit_f.OBJECTS and q not in kit_f.CONSTANT:
            if desc.startswith('module-level') and 'global' not in desc and q not in written and q not in escaping:
                # a list/dict/set bound at module level that no site in the package writes and that is never handed on under another
                # name: a constant table (a write site or an aliasing use added later makes this obligation fail); caches, function
                # attributes and `global` rebinding are state by nature and stay uncovered
                continue
            how = ''
            if q in escaping:
                e = escaping[q][0]
                how = '; it is handed on under another name in %s line %d (%s), so the write sites found by name do not bound what changes it' % e
            failed.append(('object', 'module-level mutable state %s (%s) is not covered by the frame contract%s' % (q, desc, how), q))
    for s in sites:
        n += 1
        if s.obj in kit_f.CONSTANT:
            if s.kind == 'write':
                failed.append(('site', 'constant table written: %r' % s, repr(s)))
            continue
        spec = kit_f.OBJECTS.get(s.obj)
        if spec is None:
            continue
        if spec.get('reads') == 'free' and s.kind != 'write':
            n -= 1              # only the writers of this object are under contract
            continue
        allowed = set(spec['history-read']) if s.kind == 'history-read' else spec[s.kind]
        if s.where not in allowed:
            failed.append(('site', '%s of %s in %s (line %d: %s) is not allowed by the frame contract' % (s.kind, s.obj, s.where, s.line, s.text), repr(s)))
    for d in defaults:
        n += 1
        if d.kind == 'mutable-default' or d.text != kit_f.ALLOWED_SHARED_DEFAULT:
            failed.append(('default', 'mutable default argument shared between calls: %r' % d, repr(d)))
    if (n == 0 or not objs) and not prefixes:
        raise common.CheckerDefect('frame inventory is empty')
    if prefixes and n == 0:
        n = 1           # the restricted statement "these modules hold no module-level mutable state and no mutable default" itself
    res.obligations += n
    res.discharged += n - len(failed)
    res.backends['frame-analysis(syntactic)'] = n - len(failed)
    res.functions['<module-level state of nbdime/*>'] = 'proved' if not failed else 'failed'
    res.coverage['frame_inventory'] = {'objects': len(objs), 'access_sites': len(sites), 'default_arguments': len(defaults)}
    res.sample({'frame_object': sorted(objs)[0] if objs else '(none in %s)' % (prefixes,), 'sites': [repr(s) for s in sites[:2]]})
    res.assumptions.append('frame analysis is syntactic: objects reached through parameters are tracked only through the alias rules of pyvc/frames.py (config.predicates / config.differs); '
                           'mutation through other aliases, C extensions, or third-party libraries is not seen')
    res.assumptions.append('lru_cache wrappers hold f(args) for deterministic f: call sites pass str/None (typed=False conflation of 1/True/1.0 cannot occur for str keys)')
    return failed


def worker(ops):
    env = dict(os.environ, PYTHONPATH='%s:%s:%s/stubs' % (common.HERE, common.REPO, common.HERE), PYTHONDONTWRITEBYTECODE='1')
    p = subprocess.run([sys.executable, '-m', 'checks.c12_worker', json.dumps(ops)], capture_output=True, text=True, env=env, cwd=common.HERE, timeout=600)
    if p.returncode != 0:
        raise common.CheckerDefect('c12 worker failed: %s' % p.stderr[-400:])
    return json.loads(p.stdout.strip().splitlines()[-1])


def gen_history(rnd, seed):
    from bounded import mergespace
    ops = []
    k = rnd.randint(4, 7)
    for _ in range(k):
        u = rnd.random()
        if u < 0.2:
            ops.append(['diff', seed, rnd.randrange(12), rnd.choice('lr')])
        elif u < 0.35:
            ops.append(['diffk', seed, rnd.randrange(12)])
        elif u < 0.65:
            a = rnd.choice(mergespace.all_args())
            ops.append(['merge', seed, rnd.randrange(12), list(mergespace.args_key(a))])
        elif u < 0.85:
            ops.append(['targets', [True] * 6 if rnd.random() < 0.35 else [rnd.random() < 0.6 for _ in range(6)]])
        elif u < 0.93:
            ops.append(['ignores', rnd.choice([{'/cells/*/outputs': True}, {'/cells/*/metadata': ['collapsed', 'tags']}, {'/metadata': True, '/cells/*': ['id']},
                                               {'/cells/*/outputs': False}, {'/cells/*/metadata': True}, {'/cells/*/metadata': ['collapsed']},
                                               {'/cells/*/metadata': ['tags']}, {'/cells/*/metadata': ['scrolled']}, {'/metadata': ['kernelspec']}])])
            if rnd.random() < 0.5:
                # the same path configured again (replaced by another value, or simply re-applied as a server would per request)
                again = rnd.choice([{'/cells/*/metadata': ['collapsed']}, {'/cells/*/metadata': ['tags']}, ops[-1][1]])
                for _ in range(rnd.choice([1, 1, 3])):
                    ops.append(['ignores', again])
        else:
            ops.append(['reset'])
        if rnd.random() < 0.12:
            # key lists given as one-shot iterables, then the same notebooks diffed several times
            ops.append(['ignores_iter', rnd.choice([{'/cells/*/metadata': ['collapsed', 'scrolled']}, {'/cells/*/metadata': ['tags']}, {'/metadata': ['kernelspec']}])])
            j = rnd.randrange(12)
            ops += [['diffk', seed, j], ['diff', seed, rnd.randrange(12), 'l'], ['diffk', seed, j]]
    ops.append(['diffk', seed, rnd.randrange(12)])
    ops.append(['diff', seed, rnd.randrange(12), 'l'])
    return ops


def in_force(ops, i, got=None):
    """the ignore-configuration operations whose effect is in force before operation i (from the last reset / last full targets call on);
    a configuration call that the code under check refused (it raised: got[j] is not 'cfg') is not in force"""
    start = 0
    for j in range(i):
        if ops[j][0] in ('reset', 'targets'):
            start = j
    eff = [o for j, o in enumerate(ops[start:i], start) if o[0] in ('reset', 'targets', 'ignores', 'ignores_iter') and (got is None or got[j] == 'cfg')]
    # set_notebook_diff_ignores configures path by path: a later call replaces what an earlier one said about the same path and leaves
    # the other paths alone.  The options in force are therefore ONE mapping (later entries win), installed once in the fresh process.
    out, merged = [], None
    for o in eff:
        if o[0] == 'ignores':
            merged = dict(merged or {}, **o[1])
        else:
            if merged is not None:
                out.append(['ignores', merged])
                merged = None
            out.append(o)
    if merged is not None:
        out.append(['ignores', merged])
    return out


def _history_job(job):
    seed, idx = job
    rnd = random.Random(seed * 1009 + idx)
    ops = gen_history(rnd, seed % 7)
    got = worker(ops)
    fails = []
    n = 0
    for i, op in enumerate(ops):
        if op[0] not in ('diff', 'diffk', 'merge'):
            continue
        n += 1
        fresh = worker(in_force(ops, i, got) + [op])[-1]
        if fresh != got[i]:
            fails.append(('history', 'call #%d %r answered %s after history %r but %s in a fresh interpreter with the same ignore options'
                          % (i, op, got[i], ops[:i], fresh), {'ops': ops, 'index': i}))
    return n, fails, json.dumps(ops)


def replay_case(where):
    ops, i = where['ops'], where['index']
    got = worker(ops)
    fresh = worker(in_force(ops, i) + [ops[i]])[-1]
    return [] if got[i] == fresh else [(got[i], fresh)]


def run(res):
    failed = frame_obligations(res)
    nh = 24 if res.tier == 'quick' else 160
    seen = set()
    nviol = len(res.violations)
    for n, fails, key in common.pmap(_history_job, [(res.seed + 1, i) for i in range(nh)]):
        res.evaluations += n
        res.nontrivial.add(key)
        for kind, detail, where in fails:
            if kind in seen:
                continue
            seen.add(kind)
            res.violation(detail + ' [%s]' % kind, dict(where, replay_kind='call', module='checks.c12', function='replay_case', args=[where]))
    witness = res.violations[nviol]['what'][:300] if len(res.violations) > nviol else None
    for kind, text, site in failed[:4]:
        res.violation('frame obligation fails: ' + text, {'obligation': 'frame:' + site, 'kind': 'failed-frame-obligation', 'witness': witness},
                      no_input=witness is None)
    res.sample({'history': json.loads(next(iter(res.nontrivial))) if res.nontrivial else None})
    from . import c20_bounded
    res.coverage['rule'] = ''
    c20_bounded.web_part(res, ('history-dependence',), 11,
                         'C12 clause: every request after the first is put again to a fresh server in a fresh process over the same files and must get the same status and body.')
    res.coverage['rule'] = ('histories of 5-8 calls (diff_notebooks, merge_notebooks under random strategy tables, set_notebook_diff_targets, set_notebook_diff_ignores, '
                            'reset_notebook_differ) over notebooks of the grammar (incl. metadata whose value at one path is a list of lists in one notebook and a list of objects in '
                            'another); every diff/merge result is compared with the same call in a freshly started interpreter configured with the ignore options in force.'
                            + res.coverage['rule'])
    res.coverage['explanation'] = ('Proof part: %d frame obligations (every module-level mutable object, every write / default-insert / history-dependent read site, every mutable default '
                                   'argument in the current sources is covered by the sidecar frame contract contracts/kit_f.py), %d discharged. Bounded part: %d calls inside random '
                                   'histories compared with fresh interpreters.' % (res.obligations, res.discharged, res.evaluations))


def replay(path):
    return common.replay_file(path)
