"""Scenarios in a process whose locale encoding is not UTF-8 (LC_ALL=C with Python's UTF-8 mode and locale coercion switched off:
what a legacy 8-bit locale or a Windows code page is), on notebooks with text outside ASCII."""
import json
import os
import subprocess
import sys

from . import common

ENV = {'LC_ALL': 'C', 'LANG': 'C', 'PYTHONUTF8': '0', 'PYTHONCOERCECLOCALE': '0', 'PYTHONIOENCODING': 'utf-8'}

_MERGE = r'''
import contextlib, json, locale, logging, random, sys
logging.disable(logging.CRITICAL)
from bounded import nbspace, mergespace, mergeoracles as mo
fails, n = [], 0
for rend in (None, 'diff3', 'builtin'):
    cm = mergespace.renderer_env(rend) if rend else contextlib.nullcontext()
    with cm:
        for k in range(6):
            base = nbspace.nonascii_disjoint_case(k)[0]
            t = nbspace.nonascii_conflict_triple(base, random.Random(k))
            for a in (mergespace.args_for(), mergespace.args_for('inline', 'inline', 'inline'), mergespace.args_for('use-local'), mergespace.args_for('mergetool')):
                n += 1
                f, res = mo.merge_case(t[0], t[1], t[2], a, {'C03'})
                for p, kind, detail in f:
                    if p == 'C03':
                        fails.append([kind, 'text-merge helper %s, case %d, strategy %r: %s' % (rend or 'as installed', k, mergespace.args_key(a), detail)])
print(json.dumps({'encoding': locale.getpreferredencoding(), 'n': n, 'failures': fails}))
'''


def run_child(script):
    env = dict(os.environ, **ENV)
    env.update(PYTHONPATH='%s:%s:%s/stubs' % (common.HERE, common.REPO, common.HERE), PYTHONDONTWRITEBYTECODE='1')
    p = subprocess.run([sys.executable, '-c', script], capture_output=True, text=True, encoding='utf-8', env=env, cwd=common.HERE, timeout=900)
    if p.returncode != 0 or not p.stdout.strip():
        raise common.CheckerDefect('locale scenario did not run: %s' % (p.stderr[-600:],))
    info = json.loads(p.stdout.strip().splitlines()[-1])
    if info['encoding'].lower().replace('-', '') in ('utf8',):
        raise common.CheckerDefect('the child process still has a UTF-8 locale encoding')
    return info


def merge_part(res, known):
    "C03: three-way merges with a conflict on a line of text outside ASCII, with each text-merge helper"
    info = run_child(_MERGE)
    res.evaluations += info['n']
    res.coverage['locale_scenario'] = {'preferred_encoding_in_child': info['encoding'], 'merges': info['n']}
    seen = set()
    for kind, text in info['failures']:
        fid = None
        for prefix, f in known.items():
            if common.kind_matches(kind, prefix):
                fid = f
        if fid:
            res.known_hit(fid)
            continue
        if kind in seen:
            continue
        seen.add(kind)
        res.violation('in a process with locale encoding %s: %s [%s]' % (info['encoding'], text, kind),
                      {'replay_kind': 'call', 'module': 'checks.localecommon', 'function': 'replay_merge', 'args': [], 'failures': info['failures'][:5]})


def replay_merge():
    info = run_child(_MERGE)
    return info['failures']
