"""Scenarios in a process whose locale encoding is not UTF-8 (LC_ALL=C with Python's UTF-8 mode and locale coercion switched off:
what a legacy 8-bit locale or a Windows code page is), on notebooks with text outside ASCII."""
import json
import os
import subprocess
import sys

from . import common

ENV = {'LC_ALL': 'C', 'LANG': 'C', 'PYTHONUTF8': '0', 'PYTHONCOERCECLOCALE': '0', 'PYTHONIOENCODING': 'utf-8'}

_MERGE = r'''
import contextlib, json, locale, logging, random, sys
logging.disable(logging.CRITICAL)
from bounded import nbspace, mergespace, mergeoracles as mo
fails, n = [], 0
for rend in (None, 'diff3', 'builtin'):
    cm = mergespace.renderer_env(rend) if rend else contextlib.nullcontext()
    with cm:
        for k in range(6):
            base = nbspace.nonascii_disjoint_case(k)[0]
            t = nbspace.nonascii_conflict_triple(base, random.Random(k))
            for a in (mergespace.args_for(), mergespace.args_for('inline', 'inline', 'inline'), mergespace.args_for('use-local'), mergespace.args_for('mergetool')):
                n += 1
                f, res = mo.merge_case(t[0], t[1], t[2], a, {'C03'})
                for p, kind, detail in f:
                    if p == 'C03':
                        fails.append([kind, 'text-merge helper %s, case %d, strategy %r: %s' % (rend or 'as installed', k, mergespace.args_key(a), detail)])
print(json.dumps({'encoding': locale.getpreferredencoding(), 'n': n, 'failures': fails}))
'''


def run_child(script):
    env = dict(os.environ, **ENV)
    env.update(PYTHONPATH='%s:%s:%s/stubs' % (common.HERE, common.REPO, common.HERE), PYTHONDONTWRITEBYTECODE='1')
    p = subprocess.run([sys.executable, '-c', script], capture_output=True, text=True, encoding='utf-8', env=env, cwd=common.HERE, timeout=900)
    if p.returncode != 0 or not p.stdout.strip():
        raise common.CheckerDefect('locale scenario did not run: %s' % (p.stderr[-600:],))
    info = json.loads(p.stdout.strip().splitlines()[-1])
    if info['encoding'].lower().replace('-', '') in ('utf8',):
        raise common.CheckerDefect('the child process still has a UTF-8 locale encoding')
    return info


def merge_part(res, known):
    "C03: three-way merges with a conflict on a line of text outside ASCII, with each text-merge helper"
    info = run_child(_MERGE)
    res.evaluations += info['n']
    res.coverage['locale_scenario'] = {'preferred_encoding_in_child': info['encoding'], 'merges': info['n']}
    seen = set()
    for kind, text in info['failures']:
        fid = None
        for prefix, f in known.items():
            if common.kind_matches(kind, prefix):
                fid = f
        if fid:
            res.known_hit(fid)
            continue
        if kind in seen:
            continue
        seen.add(kind)
        res.violation('in a process with locale encoding %s: %s [%s]' % (info['encoding'], text, kind),
                      {'replay_kind': 'call', 'module': 'checks.localecommon', 'function': 'replay_merge', 'args': [], 'failures': info['failures'][:5]})


def replay_merge():
    info = run_child(_MERGE)
    return info['failures']


def _difffile_job(job):
    """`nbdiff A B --out d.json` then `nbpatch A d.json -o out.ipynb` as real processes on notebooks full of text outside ASCII, in
    the inherited locale and in a process whose locale encoding is not UTF-8: both exit 0, d.json is UTF-8/ASCII JSON equal to the
    library diff (schema-valid, JSON round trip), out.ipynb is B"""
    k, locale = job
    import logging, shutil, tempfile
    logging.disable(logging.CRITICAL)
    import nbformat
    from bounded import nbspace
    from nbdime.diffing.notebooks import diff_notebooks
    from nbdime.diff_format import validate_diff
    a, _, _, b = nbspace.nonascii_disjoint_case(k)
    out = []
    d = tempfile.mkdtemp(prefix='nbdime-verif-loc-')
    try:
        pa, pb, pd, po = [os.path.join(d, n) for n in ('a.ipynb', 'b.ipynb', 'd.json', 'out.ipynb')]
        for p, nb in ((pa, a), (pb, b)):
            with open(p, 'w', encoding='utf8') as fh:
                nbformat.write(nb, fh)
        env = {k_: v for k_, v in os.environ.items() if not k_.startswith(('JUPYTER', 'PYTHON', 'NBDIME'))}
        env.update(PYTHONPATH='%s:%s/stubs' % (common.REPO, common.HERE), PYTHONDONTWRITEBYTECODE='1', HOME=d, JUPYTER_CONFIG_DIR=os.path.join(d, 'none'),
                   JUPYTER_CONFIG_PATH=os.path.join(d, 'none'))
        if locale == 'C':
            env.update({'LC_ALL': 'C', 'LANG': 'C', 'PYTHONUTF8': '0', 'PYTHONCOERCECLOCALE': '0'})
        tag = 'case %d, process locale %s' % (k, locale or 'as inherited')
        p1 = subprocess.run([sys.executable, '-m', 'nbdime.nbdiffapp', pa, pb, '--out', pd], cwd=d, env=env, capture_output=True, timeout=300)
        if p1.returncode != 0:
            return 1, [('difffile:nbdiff-status', 'nbdiff A B --out d.json (%s) exits with status %d: %s' % (tag, p1.returncode, p1.stderr.decode('utf8', 'replace').strip().splitlines()[-1:]), k, locale)]
        try:
            with open(pd, 'rb') as fh:
                raw = fh.read()
            written = json.loads(raw.decode('utf8'))
        except Exception as exc:
            return 1, [('difffile:not-json', 'the file written by nbdiff --out (%s) is not UTF-8 JSON: %s: %s' % (tag, type(exc).__name__, str(exc)[:120]), k, locale)]
        lib = nbspace.to_plain(diff_notebooks(a, b))
        if nbspace.canon(written) != nbspace.canon(lib):
            out.append(('difffile:differs', 'the diff written by nbdiff --out (%s) is not the library diff of the two notebooks' % tag, k, locale))
        try:
            from nbdime.diff_utils import to_diffentry_dicts
            validate_diff(to_diffentry_dicts(written))
        except Exception as exc:
            out.append(('difffile:invalid', 'the diff written by nbdiff --out (%s) does not validate: %s' % (tag, str(exc)[:160]), k, locale))
        p2 = subprocess.run([sys.executable, '-m', 'nbdime.nbpatchapp', pa, pd, '-o', po], cwd=d, env=env, capture_output=True, timeout=300)
        if p2.returncode != 0:
            out.append(('difffile:nbpatch-status', 'nbpatch A d.json -o out.ipynb (%s) exits with status %d: %s' % (tag, p2.returncode, p2.stderr.decode('utf8', 'replace').strip().splitlines()[-1:]), k, locale))
        else:
            got = nbformat.read(po, as_version=4)
            if nbspace.canon(got) != nbspace.canon(b):
                out.append(('difffile:roundtrip', 'nbdiff --out followed by nbpatch -o (%s) does not rebuild B' % tag, k, locale))
    finally:
        shutil.rmtree(d, ignore_errors=True)
    return 1, out


def replay_difffile(k, locale):
    return [list(f) for f in _difffile_job((k, locale))[1]]


def difffile_part(res, kinds=None):
    "the file interface of the diff (C01, C11) in both locales; kinds: only failure kinds with one of these prefixes are this property's business"
    seen = set()
    n = 0
    for cnt, fails in common.pmap(_difffile_job, [(k, loc) for k in range(3) for loc in (None, 'C')]):
        n += cnt
        res.evaluations += cnt
        for kind, text, k, locale in fails:
            if kinds and not any(kind.startswith(p) for p in kinds):
                continue
            if kind in seen:
                continue
            seen.add(kind)
            res.violation('%s [%s]' % (text, kind), {'replay_kind': 'call', 'module': 'checks.localecommon', 'function': 'replay_difffile', 'args': [k, locale]})
    res.coverage['difffile_locale_runs'] = n
