"""C17 -- diffing git revisions examines exactly the notebooks git reports as changed (Tier E proof under the assumed GitPython contract + real-git monitor)."""
from . import common, tier_e

LEVEL = 'proof'


def run(res):
    from contracts import kit_e
    tier_e.run(res, [('nbdime.utils.pushd', kit_e.PUSHD, kit_e.PUSHD_POST),
                     ('nbdime.gitfiles._get_diff_entry_stream', kit_e.ENTRY_STREAM, kit_e.ENTRY_STREAM_POST),
                     ('nbdime.gitfiles.changed_notebooks', kit_e.CHANGED_NB, kit_e.CHANGED_NB_POST, False)], 'c17_bounded',
               'pushd restores the directory saved by os.getcwd() on every exit (normal, exception, generator closed); _get_diff_entry_stream returns None exactly for '
               'non-notebook paths, the null file for missing sides, and touches the working tree only inside pushd(repo_dir); changed_notebooks yields exactly the '
               'pairs of streams of one diff entry (a side: ref_base, b side: ref_remote) with no None side, asks git for the diff restricted to the given paths, and '
               'holds no directory context across a yield. CONDITIONAL on the assumed GitPython contract (tree.diff yields one entry per changed path), which the '
               'real-git monitor can only refute.')
    res.assumptions.append('assumed dependency contract: GitPython tree/index .diff(other, paths) yields one entry per path `git diff --name-status` reports, with a_path/b_path/a_blob/b_blob as documented')
    res.assumptions.append('get_repo (while loop over os.path.split) is outside the Tier E subset: covered by the bounded monitor only')


def replay(path):
    return common.replay_file(path)
