import argparse
import importlib
import json
import os
import sys
import traceback

from .common import Result, CheckerDefect


def main(argv=None):
    ap = argparse.ArgumentParser()
    ap.add_argument('prop')
    ap.add_argument('--tier', default=os.environ.get('VERIF_TIER', 'quick'), choices=['quick', 'thorough'])
    ap.add_argument('--replay')
    args = ap.parse_args(argv)
    seed = int(os.environ.get('VERIF_SEED', '0'))
    try:
        mod = importlib.import_module('checks.%s' % args.prop.lower())
    except ImportError:
        traceback.print_exc()
        print('no check for %s' % args.prop)
        return 3
    if args.replay:
        return mod.replay(args.replay)
    res = Result(args.prop, args.tier, seed, mod.LEVEL)
    try:
        mod.run(res)
        return res.finish()
    except CheckerDefect as exc:
        print('CHECKER-DEFECT %s: %s' % (args.prop, exc))
        return 3
    except Exception:
        traceback.print_exc()
        print('CHECKER-DEFECT %s: unexpected exception in the checker' % args.prop)
        return 3


if __name__ == '__main__':
    sys.exit(main())
