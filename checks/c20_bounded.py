"""C20 -- the local web server's API agrees with the library and writes only where told at start-up
(bounded run-time contract).

Real `nbdime.webapp.nbdimeserver.init_app` servers (loopback socket, tornado client, all in-process inside forked
children) in the modes of nbdiffweb / nbmergeweb / nbdifftool / nbmergetool; seeded request sequences mixing
requests that must be served with requests that must be turned down; every answer is judged against the library
(in a pristine process), the whole temporary tree is compared before/after every request, and every request after
the first is put again to a fresh server in a fresh process over the same files and must get the same answer.
Harness: bounded/c20_web.py.
"""
from . import common

LEVEL = 'exploration'

# failure-kind prefix -> id of a recorded finding
KNOWN = {'error-status-missing:store:merged-not-notebook:object': 'C20-store-accepts-non-notebook-object',
         'disk-changed-on-error:accepted:store:merged-not-notebook:object': 'C20-store-accepts-non-notebook-object'}

KINDS = ['diff-not-consistent', 'merge-not-library', 'store-wrong-location', 'store-not-refused', 'store-content-wrong',
         'close-honoured-when-not-closable', 'close-not-honoured', 'error-status-missing', 'disk-changed-on-error',
         'disk-changed-on-read', 'history-dependence', 'route-missing', 'crash:<endpoint>:<site>', 'crash:startup:<site>']
# Kinds carry sub-labels after further colons (endpoint, class of malformation, raise site), e.g.
# 'error-status-missing:store:merged-not-notebook:object'; KNOWN is matched by prefix on the full kind, reports are
# deduplicated on the first two components.


def _known(kind):
    best = None
    for prefix, fid in KNOWN.items():
        if common.kind_matches(kind, prefix) and (best is None or len(prefix) > len(best[0])):
            best = (prefix, fid)
    return best[1] if best else None


def _cases(jobseed, n):
    from bounded import nbspace, c20_web as W
    triples = list(nbspace.triples(jobseed, 2 * n, max_edits=3))
    return [W.gen_case(jobseed, i, triples) for i in range(n)]


def _where(jobseed, n, i, case, keep, at):
    from bounded import c20_web as W
    reqs = case['requests'] if keep is None else [case['requests'][j] for j in keep]
    return {'seed': jobseed, 'n': n, 'index': i, 'keep': keep, 'at': at, 'mode': case['mode'], 'requests': [W.brief(r) for r in reqs]}


def _job(job):
    jobseed, n = job
    from bounded import nbspace, c20_web as W
    W.preload()
    cases = _cases(jobseed, n)
    out, keys, samples, stats, notes = [], [], [], {}, {}
    seen, swept = set(), set()
    cnt = 0
    for i, case in enumerate(cases):
        fails, nts, st = W.run_case(case)
        cnt += 1
        for k, v in st.items():
            stats[k] = stats.get(k, 0) + v
        for x in nts:
            notes[x] = notes.get(x, 0) + 1
        mode = case['mode']
        keys.append(hash((nbspace.canon([case['t1'], case['t2']]), nbspace.canon(mode), tuple(W.brief(r) for r in case['requests']))))
        if len(samples) < 1 and len(case['requests']) >= 4:
            samples.append({'mode': mode, 'requests': [W.brief(r) for r in case['requests']], 'failures': [f[0] for f in fails]})
        sk = (mode['kind'], mode['base_url'])
        if sk not in swept:
            swept.add(sk)
            for kind, text in W.run_sweep(case):
                out.append((kind, text, dict(_where(jobseed, n, i, case, None, None), sweep=True)))
        for kind, text, at in fails:
            if kind in seen:
                out.append((kind, None, None))         # counted, not reported again
                continue
            seen.add(kind)
            keep = None
            if not _known(kind):
                keep = W.minimise(case, kind, at)
            reqs = case['requests'] if keep is None else [case['requests'][j] for j in keep]
            text = '%s server (closable=%s, base_url=%r, output file %r, cwd by %s%s), requests %s: %s' % (
                mode['kind'], mode['closable'], mode['base_url'], mode.get('out'), mode['cwd'],
                ', tool arguments as %s/%s' % (mode['argform'], mode.get('special')) if 'argform' in mode else '',
                [W.brief(r) for r in reqs], text)
            out.append((kind, text, _where(jobseed, n, i, case, keep, at)))
    return cnt, out, keys, samples, stats, notes


def replay_case(where):
    from bounded import c20_web as W
    W.preload()
    case = _cases(where['seed'], where['n'])[where['index']]
    if where.get('sweep'):
        fails = [(k, t, None) for k, t in W.run_sweep(case)]
    else:
        fails, _, _ = W.run_case(case, where.get('keep'))
    return [[k, t] for k, t, _ in fails if not _known(k)]


def run_bounded(res):
    q = res.tier == 'quick'
    jobs = [(res.seed * 8191 + 17 * s + 1, 14 if q else 100) for s in range(48 if q else 128)]
    seen = set()
    stats, notes = {}, {}
    for cnt, fails, keys, samples, st, nts in common.pmap(_job, jobs):
        res.evaluations += cnt
        res.nontrivial.update(keys)
        for s in samples:
            res.sample(s)
        for k, v in st.items():
            stats[k] = stats.get(k, 0) + v
        for k, v in nts.items():
            notes[k] = notes.get(k, 0) + v
        for kind, text, where in fails:
            fid = _known(kind)
            if fid:
                res.known_hit(fid)
                continue
            coarse = ':'.join(kind.split(':')[:2])     # e.g. disk-changed-on-error:diff, crash:merge, error-status-missing:store
            if coarse in seen or text is None:
                continue
            seen.add(coarse)
            res.violation('%s [%s]' % (text, kind), dict(where, replay_kind='call', module='checks.c20_bounded', function='replay_case', args=[where]))
    res.coverage['requests_by_endpoint_and_class'] = {'%s/%s' % k: v for k, v in sorted(stats.items())}
    if notes:
        res.coverage['skipped'] = notes
    res.coverage['rule'] = (
        'case = (server mode, files, request sequence), all drawn from the seed. Modes: kind in {plain server, nbmergeweb, nbdifftool, nbmergetool} (cycled) x server '
        'parameters obtained by running the real entry point on a command line with run_server/browse replaced by recorders (70%: nbdimeserver.main, nbdiffweb.main, '
        'nbmergeweb.main, nbdifftool.main, nbmergetool.main, nbdiffweb.handle_gitrefs with file-like blobs; closable = not --persist) or built directly (30%, incl. '
        'merge tool without output file and no cwd parameter), always started through the real init_app x closable '
        'x base_url in {/, /pre/, /a/b} (cycled) x working directory passed as cwd or taken from the process cwd x output file {none, relative, in a sub-directory, absolute '
        'inside / outside cwd} pre-existing as junk / as a notebook / absent x tool arguments as relative paths, absolute paths, open files or named StringIO blobs, optionally '
        'with the explicit-missing-file base, an empty base file or an unreadable argument. Files: two notebook triples from the nbspace grammar (<= 3 edits a side) under '
        'names with sub-directory, blank and non-ASCII characters, four non-notebook files, a directory, places outside cwd. Sequences: 3-7 requests from {valid diff, valid '
        'merge, store of a notebook with extra path-like fields in body/query, malformed diff/merge/store (not JSON, JSON non-object, missing key, non-string argument, '
        'non-notebook file, unknown path, unreachable URL, merged not a notebook), unknown URL, API path outside base_url, wrong method, page GET, shutdown}; in 40% of the '
        'sessions that read files by name, one valid diff/merge request is followed by the event "that input notebook is saved again with one character changed, same '
        'length, same modification time" and by the same request again; an honoured '
        'shutdown only as last request; every sequence has at least one request to serve and one to turn down. Per request: library oracle in a pristine forked process '
        '(patch_notebook and contracts/specs.apply on the returned base+diff against the file nbformat reads; decide_notebook_merge with the mergetool strategy), full-tree '
        'snapshot (names, kinds, modes, contents) before/after, IOLoop.stop recorder; per request after the first: same request to a fresh server in a fresh forked process '
        'over the restored tree must give the same status, body, shutdown flag, exit code and tree. Once per (kind, base_url) and job: every documented route must not be 404. '
        'Distinct case = distinct (files, mode, sequence). Failing cases are shrunk to the failing request alone or one predecessor + it when that still fails.')
    res.assumptions.append('bounded: only the stated small scope of modes, files and request sequences is explored')
    res.assumptions.append('jupyter_server/jinja2/requests are the stubs of /verif/stubs (no authentication, XSRF or real templates; requests.get always fails); the '
                           'harness adds JupyterHandler.log and JupyterHandler.render_template to the stub class at run time because nbdime\'s handlers use them')
    res.assumptions.append('scratch trees live under tempfile.mkdtemp(dir=/dev/shm) when TMPDIR is unset and /dev/shm is writable (the tree is rewritten before every forked run)')
    res.assumptions.append('nbformat.read(as_version=4) defines which notebook a file holds; tornado\'s HTTP server/client transport requests faithfully')
    res.assumptions.append('a process forked from one that imported but never called nbdime has the state of a freshly started server process')
    res.assumptions.append('a valid diff/merge request answered 5xx is not counted when the library call on the same notebooks also raises in a fresh process (C02/C03)')


def web_part(res, prefixes, salt, clause):
    """the same harness on behalf of another property: only failures whose kind starts with one of `prefixes` are that
    property's business (C09: the served decisions are the library's; C12: the N-th answer equals a fresh server's)"""
    q = res.tier == 'quick'
    jobs = [(res.seed * 8191 + 17 * s + salt, 8 if q else 60) for s in range(32 if q else 96)]
    seen = set()
    n = 0
    for cnt, fails, keys, samples, st, nts in common.pmap(_job, jobs):
        n += cnt
        res.evaluations += cnt
        res.nontrivial.update(keys)
        for kind, text, where in fails:
            if text is None or not any(kind.startswith(p) for p in prefixes):
                continue
            coarse = ':'.join(kind.split(':')[:2])
            if coarse in seen:
                continue
            seen.add(coarse)
            res.violation('%s [%s]' % (text, kind), dict(where, replay_kind='call', module='checks.c20_bounded', function='replay_case', args=[where]))
    res.coverage['web_sessions'] = n
    res.coverage['rule'] = res.coverage.get('rule', '') + (
        ' Web sessions (harness of C20, bounded/c20_web.py): real init_app servers in the four tool modes, seeded request sequences incl. an input '
        'notebook saved again between two identical requests (same length, same modification time); ' + clause)
    res.assumptions.append('web sessions run against the jupyter_server/jinja2/requests stubs of /verif/stubs; bounded: %d sessions' % n)


run = run_bounded


def replay(path):
    return common.replay_file(path)
