"""C20 -- web API agrees with the library and writes only where told at start-up (Tier E proof of the handlers + in-process tornado stand-in)."""
from . import common, tier_e

LEVEL = 'proof'


def run(res):
    from contracts import kit_e
    tier_e.run(res, kit_e.C20_JOBS, 'c20_bounded',
               'On every path of the real handlers: the store handler opens only os.path.join(self.curdir, params.get("outputfilename")) (no sub-term of the name comes '
               'from the request), refuses with HTTPError before any effect when no output file was fixed, opens the file only after the document has been serialised and '
               'reports success only after the write; the close handler stops the loop / sets the exit code only under the path condition params.get("closable", False) is '
               'True; the diff handler answers {base: A, diff: diff_notebooks(A, B)} for the notebooks named base/remote of this request; the merge handler answers the '
               'decisions of decide_notebook_merge(base, local, remote, args=merge_args); file-like tool arguments are rewound before every read; no handler writes self.params. '
               'That the diff then patches base into remote is C01; "later requests are answered like the first" additionally needs C12.')
    res.assumptions.append('assumed dependency contract: tornado routes each request to a fresh handler instance initialised with the server parameters; uncaught exceptions become HTTP error statuses; nbformat.write serialises completely or raises')


def replay(path):
    return common.replay_file(path)
