"""C02 -- generic JSON diff/patch round trip is exact, including value types.

Proof part: Kit L (list diff/patch) under contract, discharged by pyvc on the real source.
Bounded stand-in (labelled bounded, never counted as proved): the public API `diff`/`patch` under
the top-level contract over small-scope JSON spaces, with the independent implementation of the
documented format (contracts/specs.apply) as oracle.
"""
import random

from . import common
from .common import pmap, chunks

LEVEL = 'other'

KIT_L = [
    'nbdime.diff_format.op_addrange', 'nbdime.diff_format.op_removerange', 'nbdime.diff_format.op_patch',
    'nbdime.diff_format.SequenceDiffBuilder.__init__', 'nbdime.diff_format.SequenceDiffBuilder.validated',
    'nbdime.diff_format.SequenceDiffBuilder.append',
    'nbdime.patching.patch_list', 'nbdime.patching.patch',
    'lemma.fold1', 'lemma.fold2', 'lemma.al_prefix',
    'nbdime.diffing.lcs.diff_from_lcs',
    'nbdime.diffing.seq_bruteforce.bruteforce_compare_grid', 'nbdime.diffing.seq_bruteforce.bruteforce_llcs_grid',
    'nbdime.diffing.seq_bruteforce.bruteforce_lcs_indices', 'nbdime.diffing.seq_bruteforce.diff_sequence_bruteforce',
    'nbdime.diff_utils.count_consumed_symbols', 'nbdime.diffing.sequences.diff_sequence', 'nbdime.diffing.generic._lookup_predicates',
    'nbdime.diffing.generic.diff_lists',
    'nbdime.diffing.seq_bruteforce.bruteforce_compute_snakes', 'nbdime.diffing.snakes.compute_snakes',
    'nbdime.diffing.snakes.compute_snakes_multilevel', 'nbdime.diffing.snakes.compute_snakes_multilevel#rect',
    'nbdime.diffing.snakes.compute_diff_from_snakes', 'nbdime.diffing.generic.diff_sequence_multilevel',
    # Kit M (mapping diff / patch)
    'nbdime.patching.patch_dict',
    'nbdime.diff_format.op_add', 'nbdime.diff_format.op_remove', 'nbdime.diff_format.op_replace', 'nbdime.diff_format.op_patch#str',
    'nbdime.diff_format.MappingDiffBuilder.__init__', 'nbdime.diff_format.MappingDiffBuilder.append',
    'nbdime.diff_format.MappingDiffBuilder.validated', 'nbdime.diffing.generic.diff_dicts',
    'nbdime.diff_format.validate_diff_entry', 'nbdime.diff_format.validate_diff_entry#map', 'nbdime.diff_format.validate_diff',
    'nbdime.diff_format.validate_diff#map', 'lemma.apply_map_nil', 'nbdime.diffing.generic.diff', 'lemma.roundtrip_generic',
]


def check_pair(a, b):
    """Top-level contract of C02 on one pair; returns None or (kind, detail)."""
    import copy
    from nbdime import diff, patch
    from contracts import specs
    a0, b0 = copy.deepcopy(a), copy.deepcopy(b)
    try:
        d = diff(a, b)
    except Exception as exc:
        return ('raise', 'diff raised %s: %s' % (type(exc).__name__, exc))
    try:
        independent = specs.apply(a0, d)
    except Exception as exc:
        return ('oracle', 'the documented-format oracle cannot apply the diff: %s: %s  diff=%r' % (type(exc).__name__, exc, d))
    if not specs.jsoneq(independent, b0):
        if independent == b0:
            return ('pyeq', 'independent patch gives %r, target %r (python-equal, JSON-distinct)' % (independent, b0))
        return ('roundtrip-oracle', 'independent patch gives %r, target %r, diff %r' % (independent, b0, d))
    try:
        own = patch(a0, d)
    except Exception as exc:
        return ('raise', 'patch raised %s: %s' % (type(exc).__name__, exc))
    if not specs.jsoneq(own, b0):
        if own == b0:
            return ('pyeq', 'patch gives %r, target %r (python-equal, JSON-distinct)' % (own, b0))
        return ('roundtrip', 'patch gives %r, target %r, diff %r' % (own, b0, d))
    if not d and not specs.jsoneq(a0, b0):
        if a0 == b0:
            return ('pyeq', 'empty diff for %r vs %r (python-equal, JSON-distinct)' % (a0, b0))
        return ('empty-diff', 'empty diff for different documents %r vs %r' % (a0, b0))
    if not specs.wf_deep(a0, d):
        return ('wf', 'diff not well formed for its base: %r (base %r)' % (d, a0))
    return None


def _job(pairs):
    out = []
    n = 0
    for a, b in pairs:
        n += 1
        r = check_pair(a, b)
        if r is not None:
            out.append((a, b, r))
    return n, out


def space(tier, seed):
    from bounded import json_space as js
    rnd = random.Random(seed)
    pairs = []
    L1 = list(js.lists([0, 1, [0], {'a': 0}], 3))
    pairs += [(a, b) for a in L1 for b in L1]
    D1 = js.dict_space()
    pairs += [(a, b) for a in D1 for b in D1] if tier == 'thorough' else \
        [(rnd.choice(D1), rnd.choice(D1)) for _ in range(4000)]
    S = list(js.strings(3))
    nS = 40000 if tier == 'thorough' else 4000
    pairs += [(rnd.choice(S), rnd.choice(S)) for _ in range(nS)]
    pairs += js.typed_pairs()
    nR = 30000 if tier == 'thorough' else 3000
    for _ in range(nR):
        a = js.random_value(rnd, 3)
        while not isinstance(a, (list, dict, str)):
            a = js.random_value(rnd, 3)
        b = a
        for _ in range(rnd.randint(1, 3)):
            b = js.mutate(rnd, b)
        if type(a) is type(b):
            pairs.append((a, b))
    if tier == 'thorough':
        L2 = list(js.lists(js.nested_values()[:8], 2))
        pairs += [(a, b) for a in L2 for b in L2]
    return pairs


def bounded(res):
    from contracts import specs
    pairs = space(res.tier, res.seed)
    results = pmap(_job, chunks(pairs, 32))
    for n, bad in results:
        res.evaluations += n
        for a, b, (kind, detail) in bad:
            if kind == 'pyeq':
                res.known_hit('C02-pyeq')
                continue
            res.violation('diff/patch round trip: %s' % detail,
                          {'replay_kind': 'call', 'module': 'checks.c02', 'function': 'check_pair', 'args': [a, b], 'detail': detail})
    for a, b in pairs[:: max(1, len(pairs) // 5)]:
        res.sample({'a': a, 'b': b})
    res.nontrivial.update(specs.canon([a, b]) for a, b in pairs if not specs.jsoneq(a, b))
    res.coverage['rule'] = ('pairs (a,b) of same-typed JSON containers: all lists of length<=3 over {0,1,[0],{"a":0}} squared; '
                            'dicts over keys {a,b} with nested values; strings of <=3 lines over 10 line shapes incl. \\r, \\x0b; '
                            'typed scalar pairs (True/1/1.0); random nested documents with 1-3 random edits (seeded). '
                            'non-trivial = a and b serialise differently; distinct by canonical JSON')
    res.coverage['bounded_note'] = 'BOUNDED stand-in for the parts of the property not under a discharged contract (the string differ and patcher are under ASSUMED contracts; the table contracts on registered differs/predicates are preconditions); never counted as proved'


def kit_s_part(res):
    """interface obligations of the (assumed) string differ / patcher: same line cutting on both sides, results wired through"""
    from contracts import kit_e
    sites = kit_e.kit_s_split_obligations(common.REPO)
    if not sites:
        raise common.CheckerDefect('no line-cutting obligations generated')
    name = '<line cutting of diff_strings_linewise / flatten_list_of_string_diff>'
    unrecognised = [t for t, ok, kind in sites if not ok and kind == 'shape']
    if unrecognised:
        res.functions[name] = 'out-of-subset'
        res.notes.append('string interface: code not in the recognised form (%s) -- no agreement statement for this run, the bounded round trip decides'
                         % '; '.join(unrecognised))
    else:
        res.obligations += len(sites)
        bad = [t for t, ok, kind in sites if not ok]
        res.discharged += len(sites) - len(bad)
        res.backends['call-shape scan(syntactic)'] = res.backends.get('call-shape scan(syntactic)', 0) + len(sites) - len(bad)
        res.functions[name] = 'proved' if not bad else 'failed'
        for t in bad[:3]:
            res.violation('string interface obligation fails: %s' % t, {'obligation': 'line-cutting agreement', 'kind': 'failed-shape-obligation', 'text': t},
                          no_input=True)
    for q, table, posts, dr in kit_e.KIT_S_JOBS:
        failed = common.prove_paths(res, q, table, posts, default_raises=dr)
        if failed:
            common.report_path_failures(res, failed)


def run(res):
    common.prove(res, KIT_L)
    kit_s_part(res)
    bounded(res)
    res.coverage['explanation'] = (
        'Proof part: %d obligations generated from the current source of %d real functions (and lemmas) under sidecar contracts, '
        '%d discharged; theorem chain: diff_sequence_bruteforce gives a well-formed aligned shallow diff for ANY predicate; diff_lists / diff_dicts / '
        'compute_diff_from_snakes (with the proved snake computation) turn alignments into diffs with apply(a, result) == b that are well formed all the way down; '
        'the dispatcher diff gives apply_v(a, result) == b and wf_v(a, result); patch_list / patch_dict / patch compute exactly apply_seq / apply_map / apply_v; '
        'lemma roundtrip_generic composes the two contracts: patch(a, diff(a, b)) == b. Strings: assumed functional contracts, discharged interface obligations. '
        'Bounded part: the public diff/patch API against the independent documented-format oracle on %d pairs.'
        % (res.obligations, len(KIT_L), res.discharged, res.evaluations))


def replay(path):
    return common.replay_file(path)
