"""C01 -- notebook diff followed by patch reproduces the target notebook exactly."""
from . import common, diffcommon, c02

LEVEL = 'other'


def run(res):
    common.prove(res, c02.KIT_L)
    c02.kit_s_part(res)
    diffcommon.run_diff_cases(res, {'C01'}, 'C01', {}, quick=(32, 80), thorough=(128, 300), cli=3 if res.tier == 'quick' else 10)
    from . import localecommon
    localecommon.difffile_part(res)          # nbdiff --out / nbpatch -o as real processes, also under a non-UTF-8 locale
    res.coverage['explanation'] = (
        'Proof part (shared with C02): %d obligations over the generic list differ/patcher that the notebook differ is built on, %d discharged. '
        'The notebook-specific differs (multilevel snakes, output/mime/attachment differs, string flattening) and the file interface are covered by a '
        'BOUNDED run-time contract on diff_notebooks/patch_notebook/nbdiff --out/nbpatch over %d notebook pairs, with the independent '
        'documented-format patcher (contracts/specs.apply) as a second oracle.' % (res.obligations, res.discharged, res.evaluations))
    res.assumptions.append('bounded part explores only the stated notebook grammar and edit scripts')


def replay(path):
    return common.replay_file(path)
