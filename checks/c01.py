"""C01 -- notebook diff followed by patch reproduces the target notebook exactly."""
from . import common, diffcommon, c02

LEVEL = 'other'


def run(res):
    common.prove(res, c02.KIT_L)
    c02.kit_s_part(res)
    diffcommon.run_diff_cases(res, {'C01'}, 'C01', {}, quick=(32, 80), thorough=(128, 300), cli=3 if res.tier == 'quick' else 10)
    # file interface, structural part (Tier E): on every returning path of nbdiffapp._handle_diff that computed the diff, the diff is
    # written once with json.dump to the file opened on --out when one is named, pretty-printed once otherwise; nothing is swallowed
    from contracts import kit_e
    failed = []
    for job in kit_e.C01_FILE_JOBS:
        failed += common.prove_paths(res, job[0], job[1], job[2], default_raises=job[3]) or []
    common.report_path_failures(res, failed)
    from . import localecommon
    localecommon.difffile_part(res)          # nbdiff --out / nbpatch -o as real processes, also under a non-UTF-8 locale
    res.coverage['explanation'] = (
        'Proof part (shared with C02): %d obligations over the generic list differ/patcher that the notebook differ is built on, %d discharged. '
        'The notebook-specific differs (multilevel snakes, output/mime/attachment differs, string flattening) and the file interface are covered by a '
        'BOUNDED run-time contract on diff_notebooks/patch_notebook/nbdiff --out/nbpatch over %d notebook pairs, with the independent '
        'documented-format patcher (contracts/specs.apply) as a second oracle.' % (res.obligations, res.discharged, res.evaluations))
    res.assumptions.append('bounded part explores only the stated notebook grammar and edit scripts')


def replay(path):
    return common.replay_file(path)
