"""Shared machinery of the per-property checks: proof section (pyvc), run-time cross-check and
refuter, known-findings matching, replay files, evidence."""
import json
import os
import sys
import time
import traceback
from concurrent.futures import ProcessPoolExecutor

HERE = os.path.dirname(os.path.dirname(os.path.abspath(__file__)))
REPO = os.environ.get('NBDIME_REPO', '/repo')
REPLAYS = os.path.join(HERE, 'replays')
# runs against a scratch tree (tools/seed_matrix.py, tools/run_seed.sh) must not overwrite the evidence of /repo
EVIDENCE = os.environ.get('VERIF_EVIDENCE_DIR') or os.path.join(HERE, 'evidence')


class CheckerDefect(Exception):
    "a defect of /verif itself: exit 3, never reported as a violation of nbdime"


def load_known():
    with open(os.path.join(HERE, 'known_findings.json')) as fh:
        return json.load(fh)


class Result:
    def __init__(self, prop, tier, seed, level):
        self.prop, self.tier, self.seed, self.level = prop, tier, seed, level
        self.t0 = time.time()
        self.violations = []       # dicts: what, replay, no_input
        self.known_hits = {}       # finding id -> count
        self.assumptions = []
        self.coverage = {}
        self.functions = {}        # qualname -> status
        self.obligations = 0
        self.discharged = 0
        self.solver_seconds = 0.0
        self.backends = {}
        self.samples = []
        self.evaluations = 0
        self.nontrivial = set()
        self.notes = []
        self.known = [f for f in load_known()['findings'] if f['property'] == prop]

    # ---- violations / findings ----
    def violation(self, what, payload, no_input=False):
        """Record a violation unless it matches a recorded known finding (matched by the finding's
        `match` predicate name, evaluated by the check that calls known_match first)."""
        os.makedirs(REPLAYS, exist_ok=True)
        n = len(self.violations)
        path = os.path.join(REPLAYS, '%s-%d.json' % (self.prop, n))
        payload = dict(payload)
        payload.update({'property': self.prop, 'what': what, 'repo': REPO})
        with open(path, 'w') as fh:
            json.dump(payload, fh, indent=1, default=repr)
        self.violations.append({'what': what, 'replay': path, 'no_input': no_input})

    def known_hit(self, finding_id, detail=None):
        self.known_hits[finding_id] = self.known_hits.get(finding_id, 0) + 1

    def sample(self, s, cap=6):
        if len(self.samples) < cap:
            self.samples.append(s)

    def count(self, key=None):
        self.evaluations += 1
        if key is not None:
            self.nontrivial.add(key)

    # ---- output ----
    def finish(self):
        wall = time.time() - self.t0
        cov = dict(self.coverage)
        cov.setdefault('evaluations', self.evaluations)
        cov.setdefault('distinct_nontrivial', len(self.nontrivial))
        cov.setdefault('samples', self.samples[:8] or ['(no samples recorded)'])
        if self.obligations:
            cov['obligations'] = self.obligations
            cov['discharged'] = self.discharged
            cov['solver_seconds'] = round(self.solver_seconds, 2)
            cov['backends'] = self.backends
            cov['functions_under_contract'] = self.functions
            cov.setdefault('checker_cmd', './check %s --tier %s' % (self.prop, self.tier))
        cov.setdefault('trusted_base', sorted(set(self.assumptions)))
        cov['known_findings_hit'] = self.known_hits
        if self.notes:
            cov['notes'] = self.notes
        ev = {
            'property_id': self.prop, 'tier': self.tier, 'seed': self.seed, 'level': self.level,
            'coverage': cov, 'assumptions': sorted(set(self.assumptions)), 'wall_s': round(wall, 2),
            'violations': len(self.violations),
        }
        os.makedirs(EVIDENCE, exist_ok=True)
        with open(os.path.join(EVIDENCE, '%s.json' % self.prop), 'w') as fh:
            json.dump(ev, fh, indent=1, default=repr)
        # one line per finding listed for this property in known_findings.json (the file is never written at run time)
        for f in self.known:
            n = self.known_hits.get(f['id'], 0)
            print('KNOWN-FINDING: property=%s %s [%s]' % (self.prop, f['what'], ('reproduced in this run: %d case(s)' % n) if n
                                                         else "listed; not reached by this run's sample"))
        for v in self.violations:
            print('VIOLATION property=%s replay=%s%s' % (self.prop, v['replay'],
                                                         ' no-failing-input-found' if v['no_input'] else ''))
            print('  ' + v['what'][:300])
        return 1 if self.violations else 0


# ------------------------------------------------------------------------------------------
# proof section

def prove(res, qualnames, second_backend=False, crosscheck_limit=1500):
    """Verify the given functions under contract; fold the outcome into `res`.
    A failed obligation becomes a violation: the refuter looks for a concrete failing input of the
    real function under the run-time form of the same contract; if none is found the violation is
    still reported, marked no-failing-input-found."""
    from pyvc import cli, runtime, symexec
    from pyvc.frontend import clear_cache
    clear_cache()
    th, report = cli.verify_functions(qualnames, repo=REPO, second_backend=second_backend)
    reg = cli.load_registry()
    res.assumptions.extend(symexec.ASSUMPTIONS)
    res.assumptions.append('SMT back ends z3 5.1 (API), z3 4.8.12 and cvc5 1.0.3 (CLI) are sound; only `unsat` discharges an obligation')
    res.assumptions.append('induction schema for recursive differs (table contract `differs_ok` on sub-values) is applied at the meta level, not inside the SMT encoding')
    for q, c in reg.contracts.items():
        if c.assumed and any(p == res.prop for p in c.properties):
            res.assumptions.append('assumed contract (not verified): %s' % q)
    total = 0
    for q, info in report.items():
        obls = info['obligations']
        status = info['status']
        res.functions[q] = status if status != 'failed' else 'failed'
        if status in ('out-of-subset', 'proof-lost'):
            res.notes.append('%s: %s (%s) -- downgraded to the bounded stand-in for this run' % (q, status, info.get('reason')))
            # its contract is only ASSUMED by its callers in this run: exercise the run-time form on the real function
            if q not in reg.lemmas:
                try:
                    rt = runtime.exercise(reg.contracts[q], reg, limit=crosscheck_limit)
                except Exception as exc:
                    res.notes.append('%s: run-time form not exercised (%s: %s)' % (q, type(exc).__name__, exc))
                    rt = None
                if rt is not None:
                    res.evaluations += rt['evaluations']
                    bad = [f for f in rt['failures'] if f['kind'] != 'harness']
                    if bad:
                        f = bad[0]
                        res.violation('contract of %s (outside the verifiable subset on this tree: %s) fails natively; failing input: %s -> %s'
                                      % (q, info.get('reason'), f['args'], f['detail']),
                                      {'function': q, 'obligation': 'run-time form of the contract of %s' % q, 'kind': 'native-contract-failure',
                                       'witness_args': f['args'], 'witness_detail': f['detail'], 'replay_kind': 'runtime-contract',
                                       'ghosts': f.get('ghosts')})
            continue
        if status == 'vacuous':
            raise CheckerDefect('vacuous proof for %s: %s' % (q, info.get('reason')))
        if status == 'no-obligations':
            raise CheckerDefect('no obligations generated for %s' % q)
        total += len(obls)
        res.obligations += len(obls)
        for o in obls:
            res.solver_seconds += o.seconds
            if o.status == 'unsat':
                res.discharged += 1
                res.backends[o.backend or '?'] = res.backends.get(o.backend or '?', 0) + 1
            elif o.status == 'disagree':
                raise CheckerDefect('back ends disagree on %s' % o.id)
        if obls:
            res.sample({'obligation': obls[0].id, 'text': obls[0].text, 'status': obls[0].status, 'backend': obls[0].backend})
        contract = reg.contracts[q]
        failed = [o for o in obls if o.status != 'unsat']
        rt = None
        if q not in reg.lemmas:
            try:
                rt = runtime.exercise(contract, reg, limit=crosscheck_limit)
            except NotImplementedError as exc:
                res.notes.append('%s: run-time form not exercised (%s)' % (q, exc))
            except Exception as exc:
                res.notes.append('%s: run-time harness error %s: %s' % (q, type(exc).__name__, exc))
        if rt is not None:
            res.evaluations += rt['evaluations']
            res.coverage.setdefault('runtime_contract_evaluations', {})[q] = rt['evaluations']
        if not failed:
            if rt is not None and rt['failures']:
                f = rt['failures'][0]
                if f['kind'] == 'harness':
                    res.notes.append('%s: harness: %s' % (q, f['detail']))
                else:
                    # the contract is discharged statically yet the REAL function breaks it on a concrete input: an assumed
                    # contract the proof leans on (see `assumptions`) does not hold on this tree, or the engine mis-models
                    # Python.  Either way the failing input is real and is reported.
                    res.violation('contract of %s fails natively (all obligations were discharged: an assumed callee contract is '
                                  'violated or the encoding is wrong); failing input: %s -> %s' % (q, f['args'], f['detail']),
                                  {'function': q, 'obligation': 'run-time form of the contract of %s' % q, 'kind': 'native-contract-failure',
                                   'witness_args': f['args'], 'witness_detail': f['detail'], 'replay_kind': 'runtime-contract',
                                   'ghosts': f.get('ghosts')})
            continue
        # failed obligations: report, with the refuter's witness if there is one
        witness = rt['failures'][0] if rt is not None and rt['failures'] and rt['failures'][0]['kind'] != 'harness' else None
        for o in failed[:3]:
            payload = {'obligation': o.id, 'function': q, 'text': o.text, 'solver_verdicts': getattr(o, 'trace', []),
                       'kind': 'failed-obligation'}
            if witness is not None:
                payload.update({'witness_args': witness['args'], 'witness_detail': witness['detail'],
                                'replay_kind': 'runtime-contract', 'ghosts': witness.get('ghosts')})
            res.violation('obligation %s not discharged (%s): %s%s' % (
                o.id, o.status, o.text, ('; failing input: %s -> %s' % (witness['args'], witness['detail'])) if witness else ''),
                payload, no_input=witness is None)
    if total == 0 and not res.notes:
        raise CheckerDefect('zero obligations')
    return report


def kind_matches(kind, prefix):
    """a recorded finding class matches a failure kind exactly, or as a prefix ending at a ':' boundary (sub-labels follow a colon);
    a bare string prefix would let 'id-missing' swallow 'id-missing-other'"""
    return kind == prefix or kind.startswith(prefix + ':')


def pmap(fn, jobs, workers=None):
    workers = workers or min(16, os.cpu_count() or 4)
    if len(jobs) <= 1 or workers == 1:
        return [fn(j) for j in jobs]
    with ProcessPoolExecutor(max_workers=workers) as ex:
        return list(ex.map(fn, jobs, chunksize=1))


def chunks(seq, n):
    seq = list(seq)
    k = max(1, (len(seq) + n - 1) // n)
    return [seq[i:i + k] for i in range(0, len(seq), k)]


def replay_file(path):
    """Re-execute a replay file against the real code of the current tree. Exit 1 if it still fails."""
    import importlib
    with open(path) as fh:
        p = json.load(fh)
    kind = p.get('replay_kind')
    print('replaying %s (%s)' % (path, kind))
    if kind == 'runtime-contract':
        from pyvc import cli, runtime
        reg = cli.load_registry()
        rc = runtime.RuntimeContract(reg.contracts[p['function']])
        print('  function:', p['function'])
        print('  args:', p['witness_args'])
        print('  recorded:', p['witness_detail'])
        print('  obligation:', p['obligation'])
        args = []
        for a in p['witness_args']:
            if isinstance(a, str) and 'DiffConfig object' in a:
                from nbdime.diffing.config import DiffConfig
                a = DiffConfig()
            elif isinstance(a, dict) and '$object' in a:
                cls = [c for c in reg.classes if c.endswith('.' + a['$object'])]
                inst = runtime.resolve_real(cls[0])()
                inst.__dict__.update(runtime.revive(a['fields']))
                a = inst
            else:
                a = runtime.revive(a)
            args.append(a)
        try:
            verdict, detail = rc.call(args, ghosts=None if not p.get('ghosts') or isinstance(p.get('ghosts'), str) else p['ghosts'])
        except Exception as exc:
            print('  replay not executable here (%s: %s); the recorded witness stands' % (type(exc).__name__, exc))
            return 1
        print('  now:', verdict, detail)
        return 0 if verdict in ('ok', 'skip') else 1
    if kind == 'call':
        mod = importlib.import_module(p['module'])
        fn = getattr(mod, p['function'])
        out = fn(*p['args'])
        print('  result:', out)
        return 1 if out else 0
    print('  no executable replay: obligation %s; solver output: %s' % (p.get('obligation'), p.get('solver_verdicts')))
    return 1


def prove_paths(res, qualname, table, posts, default_raises=True):
    """Tier E: enumerate all paths of the real function and discharge every path postcondition.
    Returns the list of failed obligations (already recorded as violations unless `defer`)."""
    from pyvc import effects
    from pyvc.frontend import clear_cache, TargetMissing, OutOfSubset
    clear_cache()
    t0 = time.time()
    try:
        paths, obls, notes = effects.verify_paths(qualname, table, posts, repo=REPO, default_raises=default_raises)
    except TargetMissing as exc:
        res.functions[qualname] = 'proof-lost'
        res.notes.append('%s: proof-lost (%s) -- the bounded stand-in decides for this run' % (qualname, exc))
        return None
    except OutOfSubset as exc:
        res.functions[qualname] = 'out-of-subset'
        res.notes.append('%s: out-of-subset (%s) -- the bounded stand-in decides for this run' % (qualname, exc))
        return None
    except (KeyError, IndexError, AttributeError, TypeError) as exc:
        # a path postcondition could not even read the shape it is stated over (a parameter or local it names is gone, an effect it
        # indexes is missing): the code has left the recognised form -- no statement for this run, never a verdict
        import traceback
        where = traceback.extract_tb(exc.__traceback__)[-1]
        if 'kit_e' not in where.filename:
            raise
        res.functions[qualname] = 'out-of-subset'
        res.notes.append('%s: out-of-subset (postcondition %s cannot read the code shape: %s: %s) -- the bounded stand-in decides for this run'
                         % (qualname, where.name, type(exc).__name__, exc))
        return None
    if not obls:
        raise CheckerDefect('no path obligations generated for %s' % qualname)
    if not any(p.outcome == 'return' for p in paths):
        raise CheckerDefect('no returning path found for %s (vacuous)' % qualname)
    res.obligations += len(obls)
    failed = [o for o in obls if not o.ok]
    res.discharged += len(obls) - len(failed)
    res.solver_seconds += time.time() - t0
    res.backends['z3-5.1.0-api(qf)'] = res.backends.get('z3-5.1.0-api(qf)', 0) + len(obls) - len(failed)
    res.functions[qualname] = 'proved' if not failed else 'failed'
    res.coverage.setdefault('paths', {})[qualname] = {'paths': len(paths), 'returning': sum(1 for p in paths if p.outcome == 'return'),
                                                      'raising': sum(1 for p in paths if p.outcome == 'raise')}
    res.sample({'obligation': obls[0].id, 'text': obls[0].text, 'detail': obls[0].detail, 'path': obls[0].trail[-3:]})
    for n in notes:
        res.notes.append('%s: %s' % (qualname, n))
    for k, v in table.items():
        res.assumptions.append('assumed effect contract: %s -> %s' % (k, {a: b for a, b in v.items()}))
    res.assumptions.append('Tier E: values are opaque terms with interpreted truthiness/equality/small integers; every call not declared quiet may raise; '
                           'loops over unknown iterables are abstracted to 0..2 iterations; KeyboardInterrupt/SystemExit are modelled as exceptions '
                           'not caught by `except Exception`; a process kill is covered by the path statement (status 0 is produced only by a return)')
    return failed


def report_path_failures(res, failed, witness=None):
    for o in failed[:4]:
        payload = {'obligation': o.id, 'function': o.func, 'text': o.text, 'detail': o.detail, 'path': o.trail, 'kind': 'failed-path-obligation'}
        if witness:
            payload['witness'] = witness
        res.violation('path obligation %s fails: %s; path: %s%s' % (o.id, o.detail, ' / '.join(o.trail[-4:]),
                                                                   ('; native witness: %s' % witness) if witness else ''),
                      payload, no_input=witness is None)
