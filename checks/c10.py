"""C10 -- use-base/use-local/use-remote equal resolving every open conflict to that side (bounded stand-in)."""
import copy
import itertools
import logging
import random

from . import common

LEVEL = 'exploration'

KNOWN = {'fabricated-glue': 'C10-glued-last-line'}
SIDES = ['use-base', 'use-local', 'use-remote']


def side_for(path, m, i, o):
    """side selected for a conflict at `path`: the strategy registered for the longest prefix of the starred
    path (nbdime resolves level-wise from the leaf upwards; each use-x strategy settles everything below it)"""
    star = '/' + '/'.join('*' if isinstance(k, int) else k for k in path)
    table = [('/cells/*/outputs/*/metadata', m), ('/cells/*/metadata', m), ('/metadata', m),
             ('/cells/*/source', i), ('/cells/*/attachments', i), ('/cells/*/outputs', o)]
    best = None
    for prefix, side in table:
        if star == prefix or star.startswith(prefix + '/'):
            if best is None or len(prefix) > len(best[0]):
                best = (prefix, side)
    return best[1] if best else m


def reference(b, l, r, m, i, o, transients):
    """open merge (web tool strategy), then every conflicted decision resolved to the configured side"""
    from bounded import mergespace
    from nbdime.merging import merge_notebooks
    from nbdime.merging.decisions import apply_decisions
    # "first computing the merge with conflicts left open": the full open merge (which applies its decisions once), not only the
    # decision step -- the decisions it returns are then resolved and applied again, exactly as a user of the result would do
    _open, dec = merge_notebooks(copy.deepcopy(b), copy.deepcopy(l), copy.deepcopy(r), mergespace.args_for('mergetool', ignore_transients=transients))
    dec = copy.deepcopy(dec)
    for d in dec:
        if d.conflict:
            # a conflict on one key of a dict is governed by the strategy registered for that key's path
            ks = {e['key'] for e in (d.get('local_diff') or []) + (d.get('remote_diff') or [])}
            path = list(d.common_path) + (list(ks) if len(ks) == 1 else [])
            side = side_for(path, m, i, o)[4:]
            d['action'] = side if side == 'base' or d.get(side + '_diff') else 'base'
            d['conflict'] = False
    return apply_decisions(b, dec)


def _job(job):
    seed, n = job
    logging.disable(logging.CRITICAL)
    from bounded import nbspace, mergespace, mergeoracles as mo
    from bounded.difforacles import first_difference
    from nbdime.merging import merge_notebooks
    rnd = random.Random(seed)
    out, cnt, keys, sample = [], 0, set(), None
    combos = list(itertools.product(SIDES, SIDES, SIDES, [True, False]))
    for ti, (b, l, r) in enumerate(nbspace.triples(seed, n, max_edits=3, tail=True)):
        picks = [(s, s, s, t) for s in SIDES for t in (True, False)] + rnd.sample(combos, 4)
        for (m, i, o, t) in picks:
            a = mergespace.args_for(m, i, o, t)
            try:
                merged, dec = merge_notebooks(b, l, r, a)
            except Exception as exc:
                # "gives exactly the notebook ...": a merge that raises gives none.  The crash sites recorded as C03 findings stay
                # C03's business (they are reported there, once); anything else is reported here too
                site = 'crash:' + mo.exc_site(exc)
                from .c03 import KNOWN as C03_KNOWN
                if not any(common.kind_matches(site, k) for k in C03_KNOWN):
                    out.append((site, 'strategy %r gives no notebook: merge_notebooks raised %s' % ((m, i, o, t), mo.exc_summary(exc)),
                                {'seed': seed, 'index': ti, 'n': n, 'strategy': [m, i, o, t]}))
                continue
            try:
                want = reference(b, l, r, m, i, o, t)
            except Exception:
                continue
            cnt += 1
            keys.add(hash((nbspace.canon(b), nbspace.canon(l), nbspace.canon(r), (m, i, o, t))))
            where = {'seed': seed, 'index': ti, 'n': n, 'strategy': [m, i, o, t]}
            if sample is None and any(d.conflict for d in dec) is False and nbspace.canon(l) != nbspace.canon(r):
                sample = {'strategy': [m, i, o, t], 'decisions': len(dec), 'cells_merged': len(merged.cells)}
            if any(d.conflict for d in dec):
                out.append(('unresolved', 'strategy %r leaves an unresolved conflict at %r' % ((m, i, o, t), [tuple(d.common_path) for d in dec if d.conflict][:2]), where))
            elif nbspace.canon(merged) != nbspace.canon(want):
                out.append(('differs', 'strategy %r differs from the open merge with every conflict resolved to that side: %s'
                            % ((m, i, o, t), first_difference(nbspace.to_plain(merged), nbspace.to_plain(want))), where))
            lines = mo.source_lines(b) | mo.source_lines(l) | mo.source_lines(r)
            fabricated = [ln for ln in mo.source_lines(merged) if ln.strip() and ln not in lines]
            glued = [ln for ln in fabricated if _glue_of(ln, lines)]
            if fabricated and len(glued) == len(fabricated):
                out.append(('fabricated-glue', 'strategy %r: input lines are glued into one (the first had no trailing newline): %r' % ((m, i, o, t), glued[:2]), where))
            elif fabricated:
                out.append(('fabricated', 'strategy %r: merged source has non-blank line(s) absent from all three inputs: %r' % ((m, i, o, t), fabricated[:3]), where))
    return cnt, out, list(keys), sample


def _glue_of(ln, lines):
    """True if `ln` is the concatenation of two or three non-empty lines of the inputs: the versions of an unterminated last line
    (the rewritten one, the kept one) and, where the other side went on after terminating it, the line it appended"""
    for k in range(1, len(ln)):
        if ln[:k] in lines:
            rest = ln[k:]
            if rest in lines or any(rest[:j] in lines and rest[j:] in lines for j in range(1, len(rest))):
                return True
    return False


def replay_case(where):
    cnt, out, _, _ = _job((where['seed'], where['n']))
    return [o for o in out if o[2]['index'] == where['index'] and o[2]['strategy'] == where['strategy']]


MERGE_STATE = ('nbdime.utils', 'nbdime.merging')


def run(res):
    # frame part (Kit F): the strategy tables hold no state shared between calls -- a strategy run and its reference cannot be
    # told apart by an oracle computed in the same (equally affected) process, so history dependence is excluded statically
    from . import c12
    for kind, text, where in c12.frame_obligations(res, MERGE_STATE):
        res.violation('frame obligation fails: %s' % text, {'kind': 'failed-frame-obligation', 'obligation': where, 'detail': text}, no_input=True)
    q = res.tier == 'quick'
    jobs = [(res.seed * 8191 + s, 60 if q else 250) for s in range(48 if q else 128)]
    seen = set()
    for cnt, fails, keys, sample in common.pmap(_job, jobs):
        res.evaluations += cnt
        res.nontrivial.update(keys)
        if sample:
            res.sample(sample)
        for kind, detail, where in fails:
            fid = None
            for prefix, f in KNOWN.items():
                if common.kind_matches(kind, prefix):
                    fid = f
            if fid:
                res.known_hit(fid)
                continue
            if kind in seen:
                continue
            seen.add(kind)
            res.violation('%s [%s]' % (detail, kind), dict(where, replay_kind='call', module='checks.c10', function='replay_case', args=[where]))
    res.coverage['rule'] = ('notebook triples from the grammar x strategy tables (merge, input, output) in {use-base,use-local,use-remote}^3 (the 3 uniform ones always, 4 random '
                            'mixed ones per triple) x transients on/off; reference = decisions under the web tool strategy with each conflicted decision re-labelled '
                            'to the side its path selects (source/attachments: input, outputs: output, else merge strategy), applied by the real apply_decisions')
    res.assumptions.append('bounded: only the stated small scope is explored')


def replay(path):
    return common.replay_file(path)
