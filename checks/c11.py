"""C11 -- every produced diff is well formed for its base document and the diff schema."""
from . import common, diffcommon, mergecommon, c02

LEVEL = 'other'

KNOWN = {}


def _json_job(pairs):
    from contracts import specs
    from nbdime import diff
    from bounded.mergeoracles import diff_validator
    import json
    n, bad = 0, []
    for a, b in pairs:
        n += 1
        try:
            d = diff(a, b)
        except Exception:
            continue            # crashes are C02's business
        if not specs.wf_deep(a, d):
            bad.append((a, b, 'generic diff not well formed for its base: %r' % (d,)))
        elif list(diff_validator().iter_errors(d)):
            bad.append((a, b, 'generic diff violates diff_format.schema.json: %r' % (d,)))
        elif json.loads(json.dumps(d)) != d:
            bad.append((a, b, 'generic diff does not survive a JSON round trip'))
    return n, bad


def check_json_pair(a, b):
    n, bad = _json_job([(a, b)])
    return bad[0][2] if bad else None


def run(res):
    # proof part: the integer/ordering halves (wf_seq postconditions) of the Kit L contracts
    common.prove(res, c02.KIT_L)
    pairs = c02.space(res.tier, res.seed)
    for n, bad in common.pmap(_json_job, common.chunks(pairs, 32)):
        res.evaluations += n
        for a, b, detail in bad[:1]:
            res.violation(detail, {'replay_kind': 'call', 'module': 'checks.c11', 'function': 'check_json_pair', 'args': [a, b]})
    res.coverage['rule'] = 'generic JSON pairs as in C02;'
    diffcommon.run_diff_cases(res, {'C11'}, 'C11', {}, quick=(32, 80), thorough=(128, 300))
    mergecommon.run_merge_cases(res, {'C03', 'C11'}, 'C11', KNOWN, quick=(32, 60, 10), thorough=(96, 100, 60))
    from . import localecommon
    # the diff as the diff command writes it to a file (JSON round trip / schema clause), also under a non-UTF-8 locale
    localecommon.difffile_part(res, kinds=('difffile:nbdiff-status', 'difffile:not-json', 'difffile:differs', 'difffile:invalid'))
    res.coverage['explanation'] = (
        'Proof part: wf_seq(result, len(a)) is a discharged postcondition of diff_from_lcs, diff_sequence_bruteforce, diff_sequence and '
        'diff_lists, and the builder order is a discharged postcondition of SequenceDiffBuilder.append (%d obligations, %d discharged). '
        'Bounded part: deep well-formedness (contracts/specs.wf_deep), diff_format.schema.json and JSON round trip for every diff returned by '
        'diff / diff_notebooks and every local/remote/custom diff inside merge decisions over %d cases.' % (res.obligations, res.discharged, res.evaluations))
    res.assumptions.append('bounded part explores only the stated small scope; in decision diffs a removerange of length 0 is tolerated (no-op, not forbidden by the statement)')


def replay(path):
    return common.replay_file(path)
