"""Shared driver for the effect properties: Tier E path proof + bounded module (cross-check and replay harness)."""
import importlib

from . import common


def run(res, jobs, bounded_name, explanation):
    failed = []
    for job in jobs:
        q, tab, post = job[:3]
        f = common.prove_paths(res, q, tab, post, default_raises=(job[3] if len(job) > 3 else True))
        failed += f or []
    nviol = len(res.violations)
    try:
        b = importlib.import_module('checks.' + bounded_name)
    except ImportError:
        b = None
        res.notes.append('bounded module %s not present' % bounded_name)
    if b is not None:
        b.run_bounded(res)
        res.coverage['bounded_note'] = ('checks/%s.py is a BOUNDED cross-check against the real environment (it can only refute the assumed contracts of git/tornado/'
                                        'nbformat and serves as replay harness of a failed path obligation); never counted as proved' % bounded_name)
    witness = res.violations[nviol]['what'][:300] if failed and len(res.violations) > nviol else None
    common.report_path_failures(res, failed, witness)
    res.coverage['explanation'] = explanation + ' Paths per function: %s.' % (res.coverage.get('paths'),)
