"""C08 -- merge command and git driver: exit status, output file, behaviour on failure (Tier E proof + fault-injection stand-in)."""
from . import common, tier_e

LEVEL = 'proof'


STATE_BEHIND_THE_COMMAND = ('nbdime.utils', 'nbdime.nbmergeapp', 'nbdime.vcs.git.mergedriver')


def _rewrite_job(job):
    """Two runs of the merge command in ONE process on the same three paths; between the runs one input is replaced by different
    content of the same byte size and the same mtime (cp -p, rsync -t, a coarse file system clock).  Each run must report and write
    what the library merge of the files then on disk gives."""
    seed, n = job
    import io, json, logging, os, random, shutil, tempfile
    logging.disable(logging.CRITICAL)
    import nbformat
    from bounded import nbspace
    from nbdime import nbmergeapp
    from nbdime.merging import merge_notebooks
    from nbdime.utils import read_notebook
    rnd = random.Random(seed)
    out, cnt = [], 0
    for k in range(n):
        lines = ['a = 1\n', 'b = 1\n', 'c = 1\n', 'd = 1\n']
        def nb(src):
            return nbspace.notebook([nbspace.code_cell(src)], minor=5)
        i, j = rnd.sample(range(4), 2)
        v1, v2, v3 = rnd.sample('23456789', 3)
        local = list(lines); local[i] = local[i].replace('1', v1)
        remote1 = list(lines); remote1[j] = remote1[j].replace('1', v2)      # another line: merges cleanly
        remote2 = list(lines); remote2[i] = remote2[i].replace('1', v3)      # the same line as local: conflicts; same size as remote1
        d = tempfile.mkdtemp(prefix='nbdime-verif-c08-')
        try:
            paths = {x: os.path.join(d, x + '.ipynb') for x in ('base', 'local', 'remote', 'out')}
            for x, src in (('base', lines), ('local', local), ('remote', remote1)):
                with io.open(paths[x], 'w', encoding='utf8') as fh:
                    nbformat.write(nb(''.join(src)), fh)
            st = os.stat(paths['remote'])
            for run, src in ((1, remote1), (2, remote2)):
                if run == 2:
                    with io.open(paths['remote'], 'w', encoding='utf8') as fh:
                        nbformat.write(nb(''.join(src)), fh)
                    if os.stat(paths['remote']).st_size != st.st_size:
                        break                     # not the shape this scenario is about
                    os.utime(paths['remote'], ns=(st.st_atime_ns, st.st_mtime_ns))
                cnt += 1
                def rd(pth):                       # read with nbformat directly: the oracle must not share nbdime's reader
                    with io.open(pth, encoding='utf8') as fh:
                        return nbformat.read(fh, as_version=4)
                want, dec = merge_notebooks(rd(paths['base']), rd(paths['local']), rd(paths['remote']), None)
                conflicted = any(x.conflict for x in dec)
                if os.path.exists(paths['out']):
                    os.unlink(paths['out'])
                try:
                    status = nbmergeapp.main([paths['base'], paths['local'], paths['remote'], '--out', paths['out']])
                except SystemExit as exc:
                    status = exc.code
                except Exception as exc:
                    out.append(('rewrite-crash', 'nbmerge raised %s: %s on run %d over the same paths' % (type(exc).__name__, exc, run), {'seed': seed, 'n': n, 'index': k}))
                    break
                got = None
                if os.path.exists(paths['out']):
                    with io.open(paths['out'], encoding='utf8') as fh:
                        got = nbformat.read(fh, as_version=4)      # the on-disk form splits multi-line strings into lists
                if bool(status) != conflicted:
                    out.append(('rewrite-status', 'run %d of nbmerge in one process over the same paths (remote replaced by different content of the same size and mtime): '
                                'exit status %r but the library merge of the files on disk has conflicts=%s' % (run, status, conflicted), {'seed': seed, 'n': n, 'index': k}))
                elif got is None or nbspace.canon(got) != nbspace.canon(want):
                    out.append(('rewrite-output', 'run %d of nbmerge in one process over the same paths (remote replaced by different content of the same size and mtime): '
                                'the output is not the library merge of the files on disk' % run, {'seed': seed, 'n': n, 'index': k}))
        finally:
            shutil.rmtree(d, ignore_errors=True)
    return cnt, out


def symlink_out_case():
    """The designated output spelled through a symbolic link and `..` (latest/../merged.ipynb with latest -> another directory): the
    merged notebook must be where the operating system resolves that path, and nowhere else."""
    import io, logging, os, shutil, tempfile
    logging.disable(logging.CRITICAL)
    import nbformat
    from bounded import nbspace
    from nbdime import nbmergeapp
    out = []
    d = os.path.realpath(tempfile.mkdtemp(prefix='nbdime-verif-c08-'))
    cwd = os.getcwd()
    try:
        work, run = os.path.join(d, 'work'), os.path.join(d, 'archive', 'run-0001')
        os.makedirs(work)
        os.makedirs(run)
        os.symlink(run, os.path.join(work, 'latest'))
        for x, src in (('base', 'a = 1\nb = 1\nc = 1\nd = 1\n'), ('local', 'a = 2\nb = 1\nc = 1\nd = 1\n'), ('remote', 'a = 1\nb = 1\nc = 1\nd = 3\n')):
            with io.open(os.path.join(work, x + '.ipynb'), 'w', encoding='utf8') as fh:
                nbformat.write(nbspace.notebook([nbspace.code_cell(src)], minor=5), fh)
        os.chdir(work)
        spelled = os.path.join('latest', os.pardir, 'merged.ipynb')
        try:
            status = nbmergeapp.main(['base.ipynb', 'local.ipynb', 'remote.ipynb', '--out', spelled])
        except SystemExit as exc:
            status = exc.code
        designated = os.path.join(d, 'archive', 'merged.ipynb')       # what open(spelled) in `work` refers to
        stray = os.path.join(work, 'merged.ipynb')
        if status in (0, 1) and not os.path.exists(designated):
            out.append(('output-elsewhere', 'nbmerge --out %s (latest is a symbolic link to another directory) finishes with status %r but there is no merged '
                        'notebook at the designated output%s' % (spelled, status, '; a file appeared at work/merged.ipynb instead' if os.path.exists(stray) else '')))
    finally:
        os.chdir(cwd)
        shutil.rmtree(d, ignore_errors=True)
    return out


def replay_symlink():
    return symlink_out_case()


def replay_rewrite(where):
    cnt, out = _rewrite_job((where['seed'], where['n']))
    return [o for o in out if o[2]['index'] == where['index']]


def run(res):
    from contracts import kit_e
    # frame part (Kit F, restricted): no module-level mutable state behind the command (a cache of parsed inputs would make the result
    # depend on what the process read before)
    from . import c12
    for kind, text, where in c12.frame_obligations(res, STATE_BEHIND_THE_COMMAND):
        res.violation('frame obligation fails: %s' % text, {'kind': 'failed-frame-obligation', 'obligation': where, 'detail': text}, no_input=True)
    tier_e.run(res, [('nbdime.nbmergeapp.main_merge', kit_e.MAIN_MERGE, kit_e.MAIN_MERGE_POST),
                     ('nbdime.vcs.git.mergedriver.main', kit_e.MERGEDRIVER, kit_e.MERGEDRIVER_POST)], 'c08_bounded',
               'Every control-flow path of the real main_merge and mergedriver.main (exceptional edge after every call) satisfies: status 0 iff no conflicted decision; '
               'merge_notebooks gets the three notebooks read from args.base/local/remote; no output effect before merge_notebooks returned; exactly one complete '
               'nbformat.write of the returned notebook to --out/stdout; no handler swallows an exception; the driver sets out=local, decisions=False and returns '
               'main_merge\'s status unchanged.')
    res.evaluations += 1
    for kind, detail in symlink_out_case():
        res.violation('%s [%s]' % (detail, kind), {'replay_kind': 'call', 'module': 'checks.c08', 'function': 'replay_symlink', 'args': []})
    seen = set()
    for cnt, fails in common.pmap(_rewrite_job, [(res.seed * 4099 + k, 3 if res.tier == 'quick' else 10) for k in range(8 if res.tier == 'quick' else 32)]):
        res.evaluations += cnt
        for kind, detail, where in fails:
            if kind in seen:
                continue
            seen.add(kind)
            res.violation('%s [%s]' % (detail, kind), dict(where, replay_kind='call', module='checks.c08', function='replay_rewrite', args=[where]))


def replay(path):
    return common.replay_file(path)
