"""C08 -- merge command and git driver: exit status, output file, behaviour on failure (Tier E proof + fault-injection stand-in)."""
from . import common, tier_e

LEVEL = 'proof'


def run(res):
    from contracts import kit_e
    tier_e.run(res, [('nbdime.nbmergeapp.main_merge', kit_e.MAIN_MERGE, kit_e.MAIN_MERGE_POST),
                     ('nbdime.vcs.git.mergedriver.main', kit_e.MERGEDRIVER, kit_e.MERGEDRIVER_POST)], 'c08_bounded',
               'Every control-flow path of the real main_merge and mergedriver.main (exceptional edge after every call) satisfies: status 0 iff no conflicted decision; '
               'merge_notebooks gets the three notebooks read from args.base/local/remote; no output effect before merge_notebooks returned; exactly one complete '
               'nbformat.write of the returned notebook to --out/stdout; no handler swallows an exception; the driver sets out=local, decisions=False and returns '
               'main_merge\'s status unchanged.')


def replay(path):
    return common.replay_file(path)
