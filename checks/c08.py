"""C08 -- merge command and git driver: exit status, output file, behaviour on failure.

Proof part (Tier E): every control-flow path of the real main_merge and mergedriver.main, including the
exceptional edge of every call, against path postconditions (contracts/kit_e.py).
Bounded part: fault injection on the real mains (checks/c08_bounded.py) -- also the replay of a failed
path obligation against the real code."""
import importlib

from . import common

LEVEL = 'proof'


def run(res):
    from contracts import kit_e
    failed = []
    for q, tab, post in (('nbdime.nbmergeapp.main_merge', kit_e.MAIN_MERGE, kit_e.MAIN_MERGE_POST),
                         ('nbdime.vcs.git.mergedriver.main', kit_e.MERGEDRIVER, kit_e.MERGEDRIVER_POST)):
        f = common.prove_paths(res, q, tab, post)
        failed += f or []
    nviol = len(res.violations)
    try:
        b = importlib.import_module('checks.c08_bounded')
    except ImportError:
        b = None
    if b is not None:
        b.run_bounded(res)
        res.coverage['bounded_note'] = 'fault-injection run of the real mains is a BOUNDED cross-check and the replay harness of the path proof; never counted as proved'
    witness = None
    if failed and len(res.violations) > nviol:
        witness = res.violations[nviol]['what'][:300]
    common.report_path_failures(res, failed, witness)
    res.coverage['explanation'] = ('all %s control-flow paths of main_merge and mergedriver.main (exceptional edge after every call) satisfy: status 0 iff no conflicted '
                                   'decision; merge_notebooks gets the three notebooks read from the three paths; no output effect before merge_notebooks returned; one complete '
                                   'nbformat.write of the returned notebook to --out/stdout; no handler swallows an exception; the driver sets out=local, decisions=False and returns '
                                   'main_merge\'s status' % res.coverage.get('paths'))


def replay(path):
    return common.replay_file(path)
