import logging
import random

from . import common


def _job(job):
    seed, npairs, props, max_edits, cli = job
    logging.disable(logging.CRITICAL)
    from bounded import nbspace, difforacles as do
    out, n, keys, sample = [], 0, set(), None
    for pi, (a, b) in enumerate(nbspace.pairs(seed, npairs, max_edits=max_edits)):
        if nbspace.validate_strict(a) or nbspace.validate_strict(b):
            out.append(('GEN', 'invalid-input', '', {'seed': seed, 'pair': pi}))
            continue
        n += 1
        fails, d = do.diff_case(a, b, props)
        if nbspace.canon(a) != nbspace.canon(b):
            keys.add(hash((nbspace.canon(a), nbspace.canon(b))))
        if sample is None and d:
            sample = {'cells_a': len(a.cells), 'cells_b': len(b.cells), 'minor': a.nbformat_minor, 'diff_entries': len(d),
                      'diff_head': nbspace.canon(d)[:200]}
        if cli and 'C01' in props and pi < cli:
            r = do.cli_roundtrip(a, b)
            if r:
                fails.append(('C01', 'cli', r))
        for p, kind, detail in fails:
            out.append((p, kind, detail, {'seed': seed, 'pair': pi, 'npairs': npairs, 'max_edits': max_edits}))
    return n, out, list(keys), sample


def run_diff_cases(res, props, report_prop, known_kinds, quick=(32, 60), thorough=(128, 200), max_edits=3, cli=0):
    nseeds, npairs = quick if res.tier == 'quick' else thorough
    jobs = [(res.seed * 7919 + s, npairs, props, max_edits, cli) for s in range(nseeds)]
    # the systematic sweep (every pool cell x every edit operation), negative seeds select it in nbspace.pairs
    jobs += [(-(res.seed * 13 + s + 1), 0, props, max_edits, 0) for s in range(2 if res.tier == 'quick' else 8)]
    seen = set()
    for n, fails, keys, sample in common.pmap(_job, jobs):
        res.evaluations += n
        res.nontrivial.update(keys)
        if sample:
            res.sample(sample)
        for p, kind, detail, where in fails:
            if p == 'GEN':
                raise common.CheckerDefect('notebook generator produced a schema-invalid input: %r' % (where,))
            if p != report_prop:
                continue
            fid = None
            for prefix, f in known_kinds.items():
                if common.kind_matches(kind, prefix):
                    fid = f
            if fid:
                res.known_hit(fid)
                continue
            if kind in seen:
                continue
            seen.add(kind)
            res.violation('%s [%s]' % (detail, kind),
                          dict(where, replay_kind='call', module='checks.diffcommon', function='replay_case',
                               args=[where, sorted(props), report_prop], kind=kind, detail=detail))
    res.coverage.setdefault('rule', '')
    res.coverage['rule'] += (' systematic sweep: every cell of the pool (between two neighbours) x every edit operation aimed at it x minors 5/4;'
                             ' notebook pairs (A, B): A from the notebook grammar (bounded/nbspace.py), B = A after 0..%d random edits of 20 kinds, or an '
                             'unrelated notebook of the same minor (15%%); non-trivial = A and B differ; distinct by canonical JSON.' % max_edits)


def replay_case(where, props, report_prop):
    logging.disable(logging.CRITICAL)
    from bounded import nbspace, difforacles as do
    for pi, (a, b) in enumerate(nbspace.pairs(where['seed'], where['npairs'], max_edits=where['max_edits'])):
        if pi == where['pair']:
            fails, _ = do.diff_case(a, b, set(props))
            return [f for f in fails if f[0] == report_prop]
    return []
