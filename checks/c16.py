"""C16 -- terminal rendering never fails; empty diff prints nothing; no ANSI codes when colour is disabled.
Proof part: Tier E obligations for the empty-diff clause and the ESC-freedom dataflow; the "never fails" and
"prints something" clauses are decided by the bounded stand-in only."""
from . import common, tier_e

LEVEL = 'other'


def run(res):
    from contracts import kit_e
    sites = kit_e.esc_literal_obligations(common.REPO)
    if not sites:
        raise common.CheckerDefect('no ESC literal obligations generated')
    res.obligations += len(sites)
    bad = [t for t, ok in sites if not ok]
    res.discharged += len(sites) - len(bad)
    res.backends['literal-scan(syntactic)'] = len(sites) - len(bad)
    res.functions['nbdime.prettyprint <string literals / colorama references>'] = 'proved' if not bad else 'failed'
    for t in bad[:3]:
        res.violation('ESC-freedom dataflow obligation fails: %s' % t, {'obligation': 'esc-literal', 'kind': 'failed-literal-obligation', 'text': t}, no_input=True)
    tier_e.run(res, kit_e.C16_JOBS, 'c16_bounded',
               'Proved: pretty_print_notebook_diff writes nothing and renders nothing when the diff is empty, and writes the header and renders the entries otherwise; with colour '
               'disabled the git diff command has " --color-words" replaced by the empty string on every path; syntax highlighting (pygments, ANSI) is reached only under '
               'config.use_color; every ESC-bearing literal / colorama constant of prettyprint.py lives inside col_const[True] and col_const is only indexed by self.use_color. '
               'NOT proved (bounded stand-in only): rendering never raises; something is printed for every visible diff; external tools emit no escape codes without a colour flag.')
    res.assumptions.append('git/diff without a colour flag emit no escape sequences (depends on the user\'s git configuration; monitored by the bounded stand-in only)')


def replay(path):
    return common.replay_file(path)
