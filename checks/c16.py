"""C16 -- terminal rendering never fails; empty diff prints nothing; no ANSI codes when colour is disabled.
Proof part: Tier E obligations for the empty-diff clause and the ESC-freedom dataflow; the "never fails" and
"prints something" clauses are decided by the bounded stand-in only."""
from . import common, tier_e

LEVEL = 'other'


_LOCALE_SCRIPT = r'''
import io, sys, json, logging, locale
logging.disable(logging.CRITICAL)
from bounded import nbspace, mergespace
from nbdime.diffing.notebooks import diff_notebooks
from nbdime.merging.notebooks import decide_notebook_merge
from nbdime import prettyprint as pp
src = u"navn = 'bl\u00e5b\u00e6r'\nprint(navn)\n# \u65e5\u672c\u8a9e\n"
b = nbspace.notebook([nbspace.code_cell(src, [nbspace.out_stream(u"gr\u00f8t\nferdig\n")], 1)])
l = nbspace.notebook([nbspace.code_cell(src.replace(u"print(navn)", u"print(navn, '\u2713')"), [nbspace.out_stream(u"gr\u00f8t\nferdig \u2713\n")], 2)])
r = nbspace.notebook([nbspace.code_cell(src + u"# \u00f8l\n", [nbspace.out_stream(u"gr\u00f8t\nferdig\n")], 1)])
out = []
for use_git in (True, False):
    for use_diff in (True, False):
        for color in (True, False):
            cfg = dict(out=io.StringIO(), use_git=use_git, use_diff=use_diff, use_color=color)
            for name, call in (('notebook diff', lambda c: pp.pretty_print_notebook_diff('a', 'b', b, diff_notebooks(b, l), c)),
                               ('merge decisions', lambda c: pp.pretty_print_merge_decisions(b, decide_notebook_merge(b, l, r, mergespace.args_for('mergetool')), c)),
                               ('notebook', lambda c: pp.pretty_print_notebook(l, c))):
                c = pp.PrettyPrintConfig(**cfg)
                try:
                    call(c)
                except Exception as exc:
                    out.append('%s (use_git=%s use_diff=%s colour=%s): %s: %s' % (name, use_git, use_diff, color, type(exc).__name__, str(exc)[:120]))
print(json.dumps({'encoding': locale.getpreferredencoding(False), 'failures': out}))
'''


def locale_part(res):
    """rendering non-ASCII notebooks in a process whose locale is not UTF-8 (LC_ALL=C, UTF-8 mode off)"""
    import json, os, subprocess, sys
    env = dict(os.environ, LC_ALL='C', LANG='C', PYTHONUTF8='0', PYTHONCOERCECLOCALE='0', PYTHONIOENCODING='utf-8',
               PYTHONPATH='%s:%s:%s/stubs' % (common.HERE, common.REPO, common.HERE), PYTHONDONTWRITEBYTECODE='1')
    p = subprocess.run([sys.executable, '-c', _LOCALE_SCRIPT], capture_output=True, text=True, encoding='utf-8', env=env, cwd=common.HERE, timeout=600)
    if p.returncode != 0 or not p.stdout.strip():
        raise common.CheckerDefect('locale scenario did not run: %s' % (p.stderr[-400:],))
    info = json.loads(p.stdout.strip().splitlines()[-1])
    res.evaluations += 24
    res.coverage['locale_scenario'] = {'preferred_encoding_in_child': info['encoding'], 'renderings': 24}
    if info['failures']:
        res.violation('rendering non-ASCII text fails in a process with locale encoding %s: %s' % (info['encoding'], info['failures'][0]),
                      {'replay_kind': 'call', 'module': 'checks.c16', 'function': 'replay_locale', 'args': [], 'failures': info['failures'][:5]})


def replay_locale():
    r = common.Result('C16', 'quick', 0, LEVEL)
    locale_part(r)
    return [v['what'] for v in r.violations]


def run(res):
    from contracts import kit_e
    locale_part(res)
    sites = kit_e.esc_literal_obligations(common.REPO)
    if not sites:
        raise common.CheckerDefect('no ESC literal obligations generated')
    res.obligations += len(sites)
    bad = [t for t, ok in sites if not ok]
    res.discharged += len(sites) - len(bad)
    res.backends['literal-scan(syntactic)'] = len(sites) - len(bad)
    res.functions['nbdime.prettyprint <string literals / colorama references>'] = 'proved' if not bad else 'failed'
    for t in bad[:3]:
        res.violation('ESC-freedom dataflow obligation fails: %s' % t, {'obligation': 'esc-literal', 'kind': 'failed-literal-obligation', 'text': t}, no_input=True)
    tier_e.run(res, kit_e.C16_JOBS, 'c16_bounded',
               'Proved: pretty_print_notebook_diff writes nothing and renders nothing when the diff is empty, and writes the header and renders the entries otherwise; with colour '
               'disabled the git diff command has " --color-words" replaced by " --no-color" on every path; syntax highlighting (pygments, ANSI) is reached only under '
               'config.use_color; every ESC-bearing literal / colorama constant of prettyprint.py lives inside col_const[True] and col_const is only indexed by self.use_color. '
               'NOT proved (bounded stand-in only): rendering never raises; something is printed for every visible diff; external tools emit no escape codes without a colour flag.')
    res.assumptions.append('git diff --no-color and plain diff emit no escape sequences (monitored by the bounded stand-in, also under a git configuration with color.ui = always)')


def replay(path):
    return common.replay_file(path)
