"""C19 -- option resolution follows flag > most specific config section > default; cwd file > other files
(bounded run-time contract against an executable model of the documented rule, bounded/c19_model.py).

Every job runs in a process of its own (python -c ... _child_main): nbdime caches per-class config instances
and installs Ignore mappings into module globals, so what a resolution returns may depend on what the process
did before.  Inside one job all generated configurations are resolved one after the other in that ONE process;
a deviation from the model that disappears when the same single resolution is done in a fresh process is
reported as history dependence.
"""
import argparse
import importlib
import io
import json
import logging
import os
import random
import shutil
import subprocess
import sys
import tempfile
import traceback

from . import common
from .common import CheckerDefect

LEVEL = 'exploration'

KNOWN = {'dispatcher-ignores-config': 'C19-dispatcher-ignores-config',
         'flag-does-not-win:toplevel:git-nbdifftool': 'C19-toplevel-flag-shadowed',
         'flag-does-not-win:toplevel:git-nbmergetool': 'C19-toplevel-flag-shadowed'}

MARK = '@@C19-RESULT@@'
ENVKEYS = ['JUPYTER_CONFIG_DIR', 'JUPYTER_CONFIG_PATH', 'JUPYTER_NO_CONFIG', 'PYTHONIOENCODING']
KINDS = ['wrong-section-priority', 'wrong-file-priority', 'flag-does-not-win', 'flag-does-not-win:toplevel',
         'default-wrong', 'default-outranks-section', 'ignore-merge-wrong', 'history-dependence', 'web-outranks-diff-section',
         'dispatcher-ignores-config', 'crash:<site>']

_G, _IGN = ['log_level'], ['sources', 'outputs', 'metadata', 'id', 'attachments', 'details']
_WEB = ['port', 'ip', 'base_url', 'browser', 'persist', 'workdirectory']
_MRG = ['merge_strategy', 'input_strategy', 'output_strategy', 'ignore_transients']
_SHA0, _SHA1 = '0' * 40, '1' * 40

# How the real console scripts (pyproject [project.scripts]) get their parser: <module>.main(argv) with
# sys.argv[0] = script name; prog is either given explicitly (git-*) or derived by argparse from sys.argv[0].
# top/sub: options that can be given as flags before / after the subcommand.
PARSERS = {
    'nbdiff': dict(module='nbdime.nbdiffapp', subs={None: dict(pos=['a.ipynb', 'b.ipynb'], sub=_G + _IGN + ['color_words'])}),
    'nbmerge': dict(module='nbdime.nbmergeapp', subs={None: dict(pos=['b.ipynb', 'l.ipynb', 'r.ipynb'], sub=_G + _IGN + _MRG)}),
    'nbshow': dict(module='nbdime.nbshowapp', subs={None: dict(pos=['n.ipynb'], sub=_G + _IGN)}),
    'nbdiff-web': dict(module='nbdime.webapp.nbdiffweb', subs={None: dict(pos=['a.ipynb', 'b.ipynb'], sub=_G + _IGN + _WEB)}),
    'nbmerge-web': dict(module='nbdime.webapp.nbmergeweb',
                        subs={None: dict(pos=['b.ipynb', 'l.ipynb', 'r.ipynb'], sub=_G + _IGN + _MRG + _WEB + ['show_base'])}),
    'git-nbdiffdriver': dict(module='nbdime.vcs.git.diffdriver', subs={
        'diff': dict(pos=['p.ipynb', 'old', _SHA0, '100644', 'new', _SHA1, '100644'], top=_G, sub=_IGN + ['color_words']),
        'webdiff': dict(pos=['p.ipynb', 'old', _SHA0, '100644', 'new', _SHA1, '100644'], top=_G, sub=_IGN)}),
    'git-nbdifftool': dict(module='nbdime.vcs.git.difftool', subs={
        'diff': dict(pos=['l.ipynb', 'r.ipynb', 'p.ipynb'], top=_G, sub=_G + _IGN + _WEB)}),
    'git-nbmergedriver': dict(module='nbdime.vcs.git.mergedriver', subs={
        'merge': dict(pos=['b.ipynb', 'l.ipynb', 'r.ipynb', '7', 'p.ipynb'], top=_G, sub=_IGN + _MRG)}),
    'git-nbmergetool': dict(module='nbdime.vcs.git.mergetool', subs={
        'merge': dict(pos=['b.ipynb', 'l.ipynb', 'r.ipynb', 'm.ipynb'], top=_G, sub=_G + _IGN + _MRG + _WEB)}),
}
# `nbdime <cmd> ...` (nbdime.__main__.main_dispatch, sys.argv[0] = 'nbdime'); the only way to start `server`
DISPATCH = {
    'nbdiff': ('diff', ['a.ipynb', 'b.ipynb'], _G + _IGN + ['color_words']),
    'nbmerge': ('merge', ['b.ipynb', 'l.ipynb', 'r.ipynb'], _G + _IGN + _MRG),
    'nbshow': ('show', ['n.ipynb'], _G + _IGN),
    'nbdiff-web': ('diff-web', ['a.ipynb', 'b.ipynb'], _G + _IGN + _WEB),
    'nbmerge-web': ('merge-web', ['b.ipynb', 'l.ipynb', 'r.ipynb'], _G + _IGN + _MRG + _WEB),
    'server': ('server', [], _G + _WEB),
}


class _Captured(Exception):
    def __init__(self, ns):
        Exception.__init__(self, 'captured')
        self.ns = ns


def _site(exc):
    tb = traceback.extract_tb(exc.__traceback__)
    frames = [f for f in tb if '/nbdime/' in f.filename.replace(os.sep, '/')]
    last = frames[-1] if frames else tb[-1]
    return '%s@%s:%s' % (type(exc).__name__, os.path.basename(last.filename), last.name)


def _plain(x):
    return json.loads(json.dumps(x))


# ------------------------------------------------------------------------------------------------
# step generation (pure; no nbdime)

def _gen_parse_step(rnd, files):
    from bounded import c19_model as M
    touched = {s for cfg in files.values() for s in cfg}
    cands = [e for e in list(PARSERS) + ['server']
             if touched & set([M.ENTRY[e][0]] + M.ENTRY[e][1])] or list(PARSERS)
    entry = rnd.choice(cands)
    if entry == 'server' or (entry in DISPATCH and rnd.random() < 0.12):
        cmd, pos, subflags = DISPATCH[entry]
        mode, sub, topflags = 'dispatch', None, []
    else:
        spec = PARSERS[entry]
        sub = rnd.choice(sorted(spec['subs'], key=str))
        mode, pos = 'script', spec['subs'][sub]['pos']
        subflags, topflags = spec['subs'][sub]['sub'], spec['subs'][sub].get('top', [])
    flags = []
    for o in M.ENTRY_OPTS[entry]:
        where = [w for w, lst in (('sub', subflags), ('top', topflags)) if o in lst]
        if where and rnd.random() < 0.25:
            tokens, value = M.flag_tokens(rnd, o)
            flags.append({'opt': o, 'at': rnd.choice(where), 'tokens': tokens, 'value': value})
    top = [t for f in flags if f['at'] == 'top' for t in f['tokens']]
    below = [t for f in flags if f['at'] == 'sub' for t in f['tokens']]
    argv = top + ([sub] if sub else []) + below + pos
    return {'do': 'parse', 'entry': entry, 'mode': mode, 'sub': sub, 'flags': flags, 'argv': argv}


def _gen_case(seed, ci):
    from bounded import c19_model as M
    rnd = random.Random(seed * 1000003 + ci)
    files = M.gen_files(rnd)
    perm = list(M.ENTRIES)
    rnd.shuffle(perm)
    steps = [{'do': 'build', 'entry': e} for e in perm]
    extra = [_gen_parse_step(rnd, files) for _ in range(3)] + [{'do': 'listing', 'entry': rnd.choice(M.ENTRIES)}]
    for s in extra:
        steps.insert(rnd.randint(1, len(steps)), s)
    # A, B, ..., A, B, A: the first two entry points are resolved again after everything else happened
    steps += [{'do': 'build', 'entry': perm[0]}, {'do': 'build', 'entry': perm[1]}, {'do': 'build', 'entry': perm[0]}]
    return files, steps


# ------------------------------------------------------------------------------------------------
# observation of the real code

def _observe_build(entry, include_none=False):
    from bounded import c19_model as M
    from nbdime.config import build_config
    real = build_config(entry, include_none) if include_none else build_config(entry)
    if not isinstance(real, dict):
        return {'__type__': type(real).__name__}
    real = _plain(real)                    # snapshot now: the result may alias state that changes later
    got = {o: real.get(o) for o in M.ENTRY_OPTS[entry]}
    ig = got.get('Ignore') or {}
    got['Ignore'] = {p: v for p, v in ig.items() if v is not None} if isinstance(ig, dict) else ig
    return got


def _observe_parse(step):
    """namespace produced by the real main() of the entry point for step['argv'] (captured right after
    parse_args) and the Ignore mappings the parser installed"""
    import nbdime.args as A
    entry = step['entry']
    recorded = []
    saved_rec, saved_argv, saved_err, saved_out = A.set_notebook_diff_ignores, list(sys.argv), sys.stderr, sys.stdout

    def parse_args(self, args=None, namespace=None):
        raise _Captured(argparse.ArgumentParser.parse_args(self, args, namespace))

    def record(ignore):
        recorded.append({p: v for p, v in _plain(ignore).items() if v is not None})

    if step['mode'] == 'dispatch':
        import nbdime.__main__ as D
        argv0, fn, argv = 'nbdime', D.main_dispatch, [DISPATCH[entry][0]] + step['argv']
    else:
        argv0, fn, argv = entry, importlib.import_module(PARSERS[entry]['module']).main, list(step['argv'])
    ns = None
    try:
        A.set_notebook_diff_ignores = record
        A.ConfigBackedParser.parse_args = parse_args
        sys.argv = ['/usr/local/bin/' + argv0] + argv
        sys.stderr, sys.stdout = io.StringIO(), io.StringIO()
        try:
            fn(argv)
        except _Captured as c:
            ns = c.ns
        except SystemExit as exc:
            return None, recorded, 'SystemExit(%r) from %s %s: %s' % (exc.code, argv0, argv, sys.stderr.getvalue()[-300:]), \
                'SystemExit@argparse:%s' % entry
        except Exception as exc:
            return None, recorded, '%s: %s' % (type(exc).__name__, str(exc)[:200]), _site(exc)
    finally:
        sys.stderr, sys.stdout = saved_err, saved_out
        sys.argv = saved_argv
        A.set_notebook_diff_ignores = saved_rec
        if 'parse_args' in A.ConfigBackedParser.__dict__:
            del A.ConfigBackedParser.parse_args
    if ns is None:
        raise CheckerDefect('C19: %s.main(%r) returned without calling parse_args' % (argv0, argv))
    return dict(vars(ns)), recorded, None, None


# ------------------------------------------------------------------------------------------------
# oracle

def _classify(entry, cfgs, opt, got, flag, mode):
    from bounded import c19_model as M
    if flag is not None:
        return 'flag-does-not-win' + ((':toplevel:%s' % entry) if flag['at'] == 'top' else '')
    if not M.setters(entry, cfgs, opt):
        return 'default-wrong'
    if mode == 'dispatch':
        dflt = {} if opt == 'Ignore' else M.defaults(entry).get(opt)
        if got == dflt or dflt == M.UNCHECKED:
            return 'dispatcher-ignores-config'
    redeclared = M.DEFAULT_OVERRIDE.get(entry, {})
    if opt in redeclared and got == redeclared[opt] and all(sec != M.ENTRY[entry][0] for _, sec in M.setters(entry, cfgs, opt)):
        # only shared sections set it, and the default the entry point's own class re-declares comes out
        return 'default-outranks-section'
    why = M.explain(entry, cfgs, opt, got) if len(cfgs) <= 4 else None
    if why == 'web-first':
        return 'web-outranks-diff-section' if entry in ('nbdiff-web', 'nbmerge-web') else 'wrong-section-priority'
    if why == 'file-order':
        return 'wrong-file-priority'
    if opt == 'Ignore' and why != 'section-order':
        return 'ignore-merge-wrong'
    return 'wrong-section-priority'


def _check_step(step, labelled):
    """run one step against the real code; -> (failures [(prelim kind, opt, text)], observed value for A-B-A)"""
    from bounded import c19_model as M
    entry = step['entry']
    cfgs = [c for _, c in labelled]
    acc = M.accepted(entry, cfgs)
    fails = []
    shown = 'files (highest priority first) %s' % json.dumps([[l, c] for l, c in labelled], sort_keys=True)
    if step['do'] in ('build', 'listing'):
        call = "build_config(%r%s)" % (entry, ', True' if step['do'] == 'listing' else '')
        try:
            got = _observe_build(entry, step['do'] == 'listing')
        except Exception as exc:
            return [('crash:' + _site(exc), None, '%s raises %s: %s; %s' % (call, type(exc).__name__, str(exc)[:200], shown))], None
        if '__type__' in got:
            return [('crash:not-a-dict', None, '%s returns a %s; %s' % (call, got['__type__'], shown))], None
        for o in M.ENTRY_OPTS[entry]:
            want = [r[o] for r in acc]
            if M.UNCHECKED in want or got[o] in want:
                continue
            kind = _classify(entry, cfgs, o, got[o], None, 'build')
            fails.append((kind, o, '%s gives %s = %s, the documented rule gives %s; %s'
                          % (call, o, json.dumps(got[o]), ' or '.join(json.dumps(w) for w in want), shown)))
        return fails, (got if step['do'] == 'build' else None)
    ns, recorded, err, site = _observe_parse(step)
    cmd = ('nbdime ' + DISPATCH[entry][0] if step['mode'] == 'dispatch' else entry) + ' ' + ' '.join(step['argv'])
    if err is not None:
        return [('crash:' + site, None, '`%s`: %s; %s' % (cmd, err, shown))], None
    flags = {f['opt']: f for f in step['flags']}
    for o in M.ENTRY_OPTS[entry]:
        if o == 'Ignore':
            want = [r[o] for r in acc]
            ok = any((not recorded and not w) or (recorded and all(rec == w for rec in recorded)) for w in want)
            if not ok:
                got = recorded[-1] if recorded else {}
                kind = _classify(entry, cfgs, o, got, None, step['mode'])
                fails.append((kind, o, '`%s` installs the Ignore mapping(s) %s, the documented rule gives %s; %s'
                              % (cmd, json.dumps(recorded), ' or '.join(json.dumps(w) for w in want), shown)))
            continue
        # an option the command line has no flag for exists in the namespace only when the config put it there
        got = ns[o] if o in ns else M.defaults(entry)[o]
        want = [flags[o]['value']] if o in flags else [r[o] for r in acc]
        if M.UNCHECKED in want or got in want:
            continue
        kind = _classify(entry, cfgs, o, got, flags.get(o), step['mode'])
        fails.append((kind, o, '`%s` parses to %s = %s, expected %s (%s); %s'
                      % (cmd, o, json.dumps(got), ' or '.join(json.dumps(w) for w in want),
                         'flag given' if o in flags else 'no flag for it: config/default applies', shown)))
    return fails, None


# ------------------------------------------------------------------------------------------------
# one job = one process

def _write_files(dirs, files):
    for d, path in dirs.items():
        fn = os.path.join(path, 'nbdime_config.json')
        if d in files:
            with open(fn, 'w') as fh:
                json.dump(files[d], fh)
        elif os.path.exists(fn):
            os.remove(fn)


def _labelled_files(dirs, files, jpath, layout=None):
    "[(label, config)] of every nbdime_config.json that exists, highest priority first: cwd, then jupyter_config_path()"
    ours = {}
    for d in ('user', 'envpath', 'cwd'):
        ours[os.path.realpath(dirs[d])] = d
    out = [('cwd', files['cwd'])] if 'cwd' in files else []
    for p in jpath:
        p = os.path.expandvars(os.path.expanduser(p))
        d = ours.get(os.path.realpath(p))
        if d == 'cwd' and layout in ('cwd-is-user', 'cwd-is-user-symlink'):
            continue             # the working directory again, in its role as user-level directory: already counted at the top
        if d == 'cwd':
            raise CheckerDefect('C19: temp cwd is on the jupyter config path')
        if d is not None:
            if d in files:
                out.append((d, files[d]))
            continue
        fn = os.path.join(p, 'nbdime_config.json')
        if os.path.exists(fn):          # a real file of this machine: part of the input, the model reads it too
            with open(fn) as fh:
                cfg = json.load(fh)
            if cfg:
                out.append((p, cfg))
    return out


def _run_job(job):
    """all cases of the job, in this process, one after the other.  job['only'] = [case, step]: only that step."""
    from bounded import c19_model as M
    seed, n, only = job['seed'], job['n'], job.get('only')
    logging.disable(logging.CRITICAL)
    root = tempfile.mkdtemp(prefix='c19-')
    saved_env = {k: os.environ.get(k) for k in ENVKEYS}
    saved_cwd = os.getcwd()
    out = {'count': 0, 'keys': [], 'fails': [], 'sample': None}
    try:
        dirs = {d: os.path.join(root, d) for d in M.DIRS}
        layout = job.get('layout')
        if layout in ('cwd-is-user', 'cwd-is-user-symlink'):
            # the working directory IS the user's jupyter configuration directory (nbdime run from ~/.jupyter, or JUPYTER_CONFIG_DIR
            # pointing at the project), directly or through a symbolic link: its file is still the working-directory file
            os.mkdir(dirs['cwd'])
            os.mkdir(dirs['envpath'])
            if layout == 'cwd-is-user-symlink':
                os.symlink(dirs['cwd'], dirs['user'])
            else:
                dirs['user'] = dirs['cwd']
        else:
            for p in dirs.values():
                os.mkdir(p)
        os.environ['JUPYTER_CONFIG_DIR'] = dirs['user']
        os.environ['JUPYTER_CONFIG_PATH'] = dirs['envpath']
        if layout == 'unexpanded':
            # the directories as a Dockerfile ENV / systemd Environment= / .env file spells them: jupyter hands such values on verbatim
            # and every jupyter application expands them when it looks for its file
            saved_env['HOME'] = os.environ.get('HOME')
            os.environ['HOME'] = root
            os.environ['JUPYTER_CONFIG_DIR'] = '~/user'
            os.environ['JUPYTER_CONFIG_PATH'] = '$HOME/envpath'
        os.environ.pop('JUPYTER_NO_CONFIG', None)
        os.environ['PYTHONIOENCODING'] = 'utf-8'      # makes nbdime.utils.setup_std_streams leave sys.stdout alone
        os.chdir(dirs['cwd'])
        from jupyter_core.paths import jupyter_config_path
        jpath = jupyter_config_path()
        expand = lambda p: os.path.realpath(os.path.expandvars(os.path.expanduser(p)))
        real = [expand(p) for p in jpath]
        for d in ('envpath', 'user'):
            if os.path.realpath(dirs[d]) not in real:
                raise CheckerDefect('C19: %s dir not on jupyter_config_path(): %r' % (d, jpath))
        confirmed = {}
        for ci in range(n):
            if only and ci != only[0]:
                continue
            files, steps = _gen_case(seed, ci)
            if layout in ('cwd-is-user', 'cwd-is-user-symlink'):
                files.pop('user', None)           # there is no separate user-level directory in this layout
            digest = M.key_of([files, steps])
            if only and job.get('digest') not in (None, digest):
                raise CheckerDefect('C19: case generation is not reproducible across processes')
            _write_files({d: p for d, p in dirs.items() if not (layout in ('cwd-is-user', 'cwd-is-user-symlink') and d == 'user')}, files)
            labelled = _labelled_files(dirs, files, jpath, layout)
            first = {}
            for si, step in enumerate(steps):
                if only and si != only[1]:
                    continue
                fails, got = _check_step(step, labelled)
                out['count'] += 1
                own, shared = M.ENTRY[step['entry']]
                if any(s in cfg for _, cfg in labelled for s in [own] + shared):
                    out['keys'].append(M.key_of([labelled, {k: v for k, v in step.items()}]))
                where = {'seed': seed, 'n': n, 'case': ci, 'step': si}
                if got is not None:
                    e = step['entry']
                    if e in first and first[e][1] != got:
                        diff = [o for o in got if got[o] != first[e][1][o]]
                        out['fails'].append({
                            'kind': 'history-dependence', 'where': dict(where, opt=diff[0]),
                            'text': 'build_config(%r) gives %s = %s at step %d and %s at step %d of the same process, files unchanged '
                                    '(entry points resolved in between: %s); files %s'
                                    % (e, diff[0], json.dumps(first[e][1][diff[0]]), first[e][0], json.dumps(got[diff[0]]), si,
                                       [s['entry'] for s in steps[first[e][0] + 1:si]], json.dumps(labelled, sort_keys=True))})
                    first.setdefault(e, (si, got))
                for kind, opt, text in fails:
                    if not only and not kind.startswith('crash:'):
                        # does the deviation survive in a fresh process doing only this resolution?
                        c = confirmed.setdefault(kind, [])
                        if len(c) >= 1:
                            continue
                        fresh = _spawn({'seed': seed, 'n': n, 'only': [ci, si], 'digest': digest, 'layout': layout})
                        still = [f for f in fresh['fails'] if f['where'].get('opt') == opt]
                        c.append(ci)
                        if not still:
                            text += '; the same single resolution in a fresh process agrees with the rule'
                            kind = 'history-dependence'
                    out['fails'].append({'kind': kind, 'where': dict(where, opt=opt), 'text': text})
                if out['sample'] is None and step['do'] == 'parse' and step['flags'] and len(labelled) > 1 and not fails:
                    out['sample'] = {'files': labelled, 'command': step['entry'] + ' ' + ' '.join(step['argv']),
                                     'mode': step['mode'], 'agrees_with_rule': True}
    finally:
        os.chdir(saved_cwd)
        for k, v in saved_env.items():
            if v is None:
                os.environ.pop(k, None)
            else:
                os.environ[k] = v
        shutil.rmtree(root, ignore_errors=True)
    return out


def _child_main():
    job = json.loads(sys.stdin.read())
    try:
        out = _run_job(job)
    except CheckerDefect as exc:
        out = {'defect': str(exc)}
    except Exception:
        out = {'defect': traceback.format_exc()[-1500:]}
    sys.__stdout__.write('\n' + MARK + json.dumps(out) + '\n')
    sys.__stdout__.flush()


def _spawn(job):
    env = dict(os.environ)
    env['PYTHONPATH'] = os.pathsep.join(p for p in sys.path if p)
    env['PYTHONDONTWRITEBYTECODE'] = '1'
    tmp = tempfile.mkdtemp(prefix='c19-run-')
    try:
        p = subprocess.run([sys.executable, '-c', 'import checks.c19_bounded as m; m._child_main()'],
                           input=json.dumps(job), capture_output=True, text=True, env=env, cwd=tmp, timeout=1500)
    finally:
        shutil.rmtree(tmp, ignore_errors=True)
    lines = [l for l in p.stdout.splitlines() if l.startswith(MARK)]
    if not lines:
        raise CheckerDefect('C19 job %r produced no result (exit %s): %s' % (job, p.returncode, p.stderr[-800:]))
    out = json.loads(lines[-1][len(MARK):])
    if 'defect' in out:
        raise CheckerDefect('C19 job %r: %s' % (job, out['defect']))
    return out


def replay_case(where):
    """re-run the recorded job (every case up to the recorded one, same order, fresh process) and return the
    failures recorded for that case/step/option; [] = passes now"""
    job = {'seed': where['seed'], 'n': where['case'] + 1, 'layout': where.get('layout')}
    out = _spawn(job)
    return [[f['kind'], f['text']] for f in out['fails']
            if f['where']['case'] == where['case'] and f['where']['step'] == where['step']
            and f['where'].get('opt') == where.get('opt')]


def run_bounded(res):
    q = res.tier == 'quick'
    njobs, n = (32, 40) if q else (128, 160)
    jobs = [{'seed': res.seed * 8191 + j, 'n': n} for j in range(njobs)]
    # the working directory doubling as the user's jupyter configuration directory (directly / through a symbolic link)
    jobs += [{'seed': res.seed * 8191 + 5000 + j, 'n': n // 2, 'layout': lay} for j in range(max(2, njobs // 8)) for lay in ('cwd-is-user', 'cwd-is-user-symlink')]
    # configuration directories spelled with ~ / $HOME in the environment
    jobs += [{'seed': res.seed * 8191 + 7000 + j, 'n': n // 2, 'layout': 'unexpanded'} for j in range(max(2, njobs // 8))]
    seen = set()
    for job, out in zip(jobs, common.pmap(_spawn, jobs)):
        res.evaluations += out['count']
        res.nontrivial.update(out['keys'])
        if out['sample']:
            res.sample(out['sample'])
        for f in out['fails']:
            kind = f['kind']
            fid = None
            for prefix, known in KNOWN.items():
                if common.kind_matches(kind, prefix) and (fid is None or len(prefix) > len(fid[0])):
                    fid = (prefix, known)
            if fid:
                res.known_hit(fid[1])
                continue
            if kind in seen:
                continue
            seen.add(kind)
            # replay needs only the cases up to the failing one
            where = dict(f['where'], kind=kind, layout=job.get('layout'))
            res.violation('%s [%s]' % (f['text'], kind),
                          dict(where, replay_kind='call', module='checks.c19_bounded', function='replay_case', args=[where]))
    res.coverage['rule'] = (
        '%d jobs x %d generated configurations; each job runs in ONE fresh process and resolves its configurations one after the other. '
        'A configuration = nbdime_config.json in 1-3 of {temp cwd, JUPYTER_CONFIG_PATH dir, JUPYTER_CONFIG_DIR dir} (in 1/9 of the jobs the working directory '
        'itself is the JUPYTER_CONFIG_DIR, directly or through a symbolic link; in 1/9 the two directories are spelled ~/user and $HOME/envpath in the environment), each with 1-4 of the '
        '7 documented shared sections / 11 entry-point sections setting 1-4 focus options they may legitimately set (log_level everywhere; web '
        'options in Web/WebTool; ignorables, Ignore, color_words in Diff/GitDiff; + merge options in Merge/GitMerge; everything in own sections) '
        'with values from small domains (booleans/None, enums, 5 ports, Ignore with 1-3 of 5 paths -> True/False/key list/None). Per configuration: '
        'build_config(e) for all 11 entry points in random order, then the first two again (A,B,...,A,B,A; equal results demanded), '
        'build_config(e, True) for one, and 3 command lines through the real main() of a console script (sys.argv[0] = script name, namespace '
        'captured right after parse_args; `nbdime <cmd>` dispatcher form in ~12%%, always for server) with each flaggable option given as a flag '
        'with probability 1/4 (top-level or subcommand position for git-* --log-level). Oracle: bounded/c19_model.py (section order per entry '
        'point written down from config.rst, files merged cwd > jupyter_config_path() order; where the text is silent on None both readings are '
        'accepted; the default of workdirectory is not compared). A deviation is re-run alone in a fresh process to tell history dependence from '
        'a wrong rule. Distinct non-trivial = distinct (files, step) where some section of the entry point is set.' % (njobs, n))
    res.assumptions.append('bounded: only the stated small scope is explored')
    res.assumptions.append('jupyter_core.paths.jupyter_config_path() is trusted for the order of the non-cwd directories '
                           '(JUPYTER_CONFIG_PATH entries rank before JUPYTER_CONFIG_DIR); the property only orders cwd before the rest')
    res.assumptions.append('section precedence dominates file precedence (files are merged per section first); Ignore of one section '
                           'given in several files merges path by path')
    res.assumptions.append('the namespace is observed by intercepting ConfigBackedParser.parse_args inside the real main(); the Ignore mapping a '
                           'parser installs is observed by replacing nbdime.args.set_notebook_diff_ignores with a recorder')


run = run_bounded


def replay(path):
    return common.replay_file(path)
