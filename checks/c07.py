"""C07 -- default merge never drops or invents source text; real conflicts are flagged (bounded stand-in)."""
import copy
import logging
import random

from . import common

LEVEL = 'exploration'

KNOWN = {'glued-marker': 'C07-diff3-glued-marker'}


def flag_case(rnd, big=False):
    """id-aligned cells where both sides rewrite the same line(s) differently"""
    from bounded import nbspace
    nlines = 3200 if big else rnd.choice([2, 4, 16])      # big: a very large cell, more than 100 000 characters of source (an embedded table)
    lines = ['stmt_%02d = %d\n' % (i, i) if nlines < 100 else 'row_%04d = %d  # padding padding\n' % (i, i) for i in range(nlines)]
    head = []
    if not big and rnd.random() < 0.3:
        # ordinary text that merely looks like a conflict marker: a setext heading underline, an RST title underline, a quote rule
        head = rnd.choice([['Results\n', '=======\n'], ['"""\n', 'Helpers\n', '==========\n', '"""\n'], ['>>>>>>> see the note below\n'], ['<<<<<<<<<< snip\n']])
    cells = [nbspace.code_cell(''.join(lines)), nbspace.md_cell('# Title\n\nSome text.\n')]
    # (the very large cell only with cell ids: without them nbdime aligns cells by character-level similarity of the whole sources,
    # which takes minutes at this size)
    b = nbspace.notebook(cells, 5 if big else rnd.choice([5, 5, 4]))
    ks = sorted(rnd.sample(range(nlines), min(nlines, rnd.choice([1, 1, 2, 3]))))
    l, r = copy.deepcopy(b), copy.deepcopy(b)
    ll, rl = list(lines), list(lines)
    variants = []
    for k in ks:
        ll[k] = 'stmt_%02d = "local rewrite %d"\n' % (k, k)
        rl[k] = 'stmt_%02d = "remote rewrite %d"\n' % (k, k)
        variants.append((ll[k], rl[k]))
    l['cells'][0]['source'] = ''.join(head + ll)
    r['cells'][0]['source'] = ''.join(head + rl)
    b['cells'][0]['source'] = ''.join(head + lines)
    return b, l, r, variants


def _job(job):
    seed, n, renderer = job
    logging.disable(logging.CRITICAL)
    from bounded import nbspace, mergespace, mergeoracles as mo
    from nbdime.merging import merge_notebooks
    rnd = random.Random(seed)
    out, cnt, keys, sample = [], 0, set(), None
    args = mergespace.args_for()
    with mergespace.renderer_env(renderer):
        for ti, (b, l, r) in enumerate(nbspace.triples(seed, max(n, 0), max_edits=3)):
            try:
                m, dec = merge_notebooks(b, l, r, args)
            except Exception:
                continue             # C03's business
            cnt += 1
            keys.add(hash((nbspace.canon(b), nbspace.canon(l), nbspace.canon(r), renderer)))
            for p, k, d in mo.c07_case(b, l, r, m, dec):
                out.append((k, d + ' (renderer=%s)' % renderer, {'seed': seed, 'index': ti, 'n': n, 'renderer': renderer, 'flag': False}))
        # n < 0: the one very large cell of this run (ten seconds of diffing: once, under the helper as installed)
        for fi in range(n // 2 if n > 0 else 1):
            b, l, r, variants = flag_case(rnd, big=n < 0)
            try:
                m, dec = merge_notebooks(b, l, r, args)
            except Exception as exc:
                out.append(('crash', 'merge of same-line rewrites raised ' + mo.exc_summary(exc), {'seed': seed, 'index': fi, 'n': n, 'renderer': renderer, 'flag': True}))
                continue
            cnt += 1
            keys.add(hash((nbspace.canon(l), nbspace.canon(r), renderer)))
            if sample is None:
                sample = {'renderer': renderer, 'rewritten_lines': len(variants), 'conflicts': sum(1 for d in dec if d.conflict),
                          'merged_source_head': m.cells[0].source[:120] if m.cells else ''}
            if not any(d.conflict for d in dec):
                out.append(('unflagged', 'both sides rewrote the same line(s) differently but no conflict is reported (renderer=%s, %d lines)' % (renderer, len(variants)),
                            {'seed': seed, 'index': fi, 'n': n, 'renderer': renderer, 'flag': True}))
            src = '\n'.join(c.source for c in m.cells)
            missing = [v for pair in variants for v in pair if v.rstrip('\n') not in src]
            if missing:
                out.append(('variant-missing', 'a conflicting variant is not presented in the merged notebook: %r (renderer=%s)' % (missing[:2], renderer),
                            {'seed': seed, 'index': fi, 'n': n, 'renderer': renderer, 'flag': True}))
            for p, k, d in mo.c07_case(b, l, r, m, dec):
                out.append((k, d + ' (renderer=%s)' % renderer, {'seed': seed, 'index': fi, 'n': n, 'renderer': renderer, 'flag': True}))
    return cnt, out, list(keys), sample


def replay_case(where):
    cnt, out, _, _ = _job((where['seed'], where['n'], where['renderer']))
    return [o for o in out if o[2]['index'] == where['index'] and o[2]['flag'] == where['flag']]


def run(res):
    q = res.tier == 'quick'
    jobs = []
    # full installations, and the partial ones: diff3 without its subsidiary diff, diff without diff3, git alone
    for rk, rend in enumerate(('git', 'diff3', 'builtin', 'diff3only', 'diff', 'gitonly')):
        for s in range((16 if rk < 3 else 4) if q else 48):
            jobs.append((res.seed * 7001 + s + 100 * rk, 200 if q else 600, rend))
    jobs.append((res.seed * 7001 + 999, -1, 'git'))
    seen = set()
    for cnt, fails, keys, sample in common.pmap(_job, jobs):
        res.evaluations += cnt
        res.nontrivial.update(keys)
        if sample:
            res.sample(sample)
        for kind, detail, where in fails:
            fid = None
            for prefix, f in KNOWN.items():
                if common.kind_matches(kind, prefix):
                    fid = f
            if fid:
                res.known_hit(fid)
                continue
            key = (kind, where['renderer'])
            if key in seen:
                continue
            seen.add(key)
            res.violation('%s [%s]' % (detail, kind), dict(where, replay_kind='call', module='checks.c07', function='replay_case', args=[where]))
    res.coverage['rule'] = ('default strategy (inline) under each text-merge helper (git merge-file, diff3, built-in; selected through PATH): notebook triples from the '
                            'grammar for the survival/provenance clauses (line sets of the three inputs, marker patterns), plus id-aligned cells of 2/4/16 lines where both '
                            'sides rewrite 1-3 common lines differently for the flagging clause')
    res.assumptions += ['bounded: only the stated small scope is explored', 'git merge-file and diff3 behave as installed in this sandbox']


def replay(path):
    return common.replay_file(path)
