"""C16 -- terminal rendering of notebooks, diffs and merge decisions never fails; nothing for an empty diff,
something for a diff touching a non-ignored category, no ANSI escapes with colour disabled (bounded stand-in).

Failure kinds (each reported at most once per run):
  crash:<ExcType>@<file>:<func>        pretty_print_* / the CLI main raised (site = innermost nbdime frame);
  crash:similar-insert:<ExcType>@...   the same, when the crash disappears once the `similar_insert` entries are dropped
  hang@<file>:<func>                   a rendering did not return within HANG_SECONDS (e.g. a dead-locked pipe)
  esc-with-color-off                   '\\x1b' in the output although use_color=False / --no-color
  output-for-empty-diff                anything printed for the empty diff
  no-output-for-visible-diff           nothing printed, or nothing but the fixed header lines, although the diff (of a
                                       decision) has a leaf entry all of whose covering categories are shown
  cli-exit:<app>:<status>              nbdiff / nbshow / nbmerge --decisions returned an unexpected status
"""
import argparse
import contextlib
import copy
import io
import itertools
import json
import logging
import os
import random
import re
import shutil
import signal
import sys
import tempfile
import threading
import traceback

from . import common
from . import c14

LEVEL = 'exploration'
KNOWN = {'crash:similar-insert': 'C16-similar-insert-render',
         'crash:AssertionError@prettyprint.py:external_diff_render': 'C16-diff-marker-lines'}

CATS = list(c14.CATS)
ALL_SUBSETS = [frozenset(c for c, bit in zip(CATS, bits) if bit) for bits in itertools.product([0, 1], repeat=6)]
# renderer name -> (use_git, use_diff, PATH kind)
RENDERERS = {
    'git': (True, True, 'full'),
    'diff': (False, True, 'full'),
    'difflib': (False, False, 'full'),
    'diff:path': (True, True, 'diff-only'),        # flags all on, git missing from PATH
    'difflib:path': (True, True, 'empty'),         # flags all on, neither git nor diff on PATH
    'git:space': (True, True, 'space'),            # the tools installed in a directory whose name contains a space (C:\\Program Files\\Git\\cmd, ~/my tools/bin)
    'diff:space': (False, True, 'space'),
}
HANG_SECONDS = 30
ANSI = re.compile(r'\x1b\[[0-9;]*[A-Za-z]')
DIFF_HEADER = re.compile(r'\Anbdiff [^\n]*\n--- [^\n]*\n\+\+\+ [^\n]*\n')
DEC_HEADER = re.compile(r'^==== (conflicted )?decision at [^\n]*:$')
DEC_KEY = re.compile(r'^--- (diff|local_diff|remote_diff|custom_diff|similar_insert)( \([a-z_ ]+\))?:$')
LARGE_LINES = 1600


class _Hang(BaseException):
    "raised by the watchdog inside a rendering call (BaseException: not swallowed by `except Exception`)"


# ------------------------------------------------------------------------------------------
# environment: temporary HOME / git config / jupyter config, PATH variants

class _Env:
    def __init__(self):
        self.saved = None
        self.tmp = None
        self.paths = {}

    def __enter__(self):
        self.saved = dict(os.environ)
        self.tmp = tempfile.mkdtemp(prefix='nbdime-verif-c16-')
        try:
            full = self.saved.get('PATH', '')
            git, diff = shutil.which('git', path=full), shutil.which('diff', path=full)
            if not git or not diff:
                raise common.CheckerDefect('C16 needs real git and diff on PATH (git=%r diff=%r)' % (git, diff))
            diff3 = shutil.which('diff3', path=full)
            for kind, tools in (('diff-only', [diff]), ('empty', []), ('space', [t for t in (git, diff, diff3) if t])):
                d = os.path.join(self.tmp, 'path-' + kind) if kind != 'space' else os.path.join(self.tmp, 'my tools', 'bin')
                os.makedirs(d)
                for t in tools:
                    os.symlink(t, os.path.join(d, os.path.basename(t)))
                self.paths[kind] = d
            self.paths['full'] = full
            home = os.path.join(self.tmp, 'home')
            os.mkdir(home)
            with open(os.path.join(self.tmp, 'gitconfig'), 'w') as fh:
                fh.write('[user]\n\tname = verif\n\temail = verif@example.org\n')
            # a user configuration that asks git for colour even when it writes to a pipe
            with open(os.path.join(self.tmp, 'gitconfig-colour'), 'w') as fh:
                fh.write('[user]\n\tname = verif\n\temail = verif@example.org\n[color]\n\tui = always\n')
            os.environ.update({'HOME': home, 'GIT_CONFIG_NOSYSTEM': '1', 'GIT_CONFIG_GLOBAL': os.path.join(self.tmp, 'gitconfig'),
                               'JUPYTER_CONFIG_DIR': os.path.join(home, 'jupyter'), 'JUPYTER_CONFIG_PATH': os.path.join(home, 'jupyter'),
                               'JUPYTER_NO_CONFIG': '1'})
            for k in ('GIT_DIR', 'GIT_WORK_TREE', 'GIT_EXTERNAL_DIFF', 'GIT_PAGER', 'PAGER', 'GIT_DIFF_OPTS'):
                os.environ.pop(k, None)
        except BaseException:
            self.__exit__(None, None, None)
            raise
        return self

    def use(self, renderer, cfg=None):
        os.environ['PATH'] = self.paths[RENDERERS[renderer][2]]
        # every other configuration runs under a git configuration with color.ui = always
        import zlib
        colour = cfg is not None and zlib.crc32(repr(cfg).encode()) % 2 == 0
        os.environ['GIT_CONFIG_GLOBAL'] = os.path.join(self.tmp, 'gitconfig-colour' if colour else 'gitconfig')

    def labels(self, cfg):
        """the two display names of a diff: mostly plain file names; also what the git-revision mode produces ('<path> (<rev>)') when a
        directory of <path> is meanwhile a regular file, names longer than the file system allows, and an existing file"""
        import zlib
        k = zlib.crc32(repr(cfg).encode()) % 7
        if k == 0:
            blocker = os.path.join(self.tmp, 'data')
            if not os.path.exists(blocker):
                with open(blocker, 'w') as fh:
                    fh.write('now a file\n')
            return os.path.join(blocker, 'nb.ipynb') + ' (HEAD~2)', os.path.join(blocker, 'nb.ipynb') + ' (HEAD~1)'
        if k == 1:
            return 'before ' + 'x' * 300, 'after ' + 'x' * 300
        if k == 2:
            return os.path.join(self.tmp, 'gitconfig'), 'b.ipynb'
        return 'a.ipynb', 'b.ipynb'

    def __exit__(self, *a):
        os.environ.clear()
        os.environ.update(self.saved)
        shutil.rmtree(self.tmp, ignore_errors=True)
        return False


@contextlib.contextmanager
def _deadline(seconds):
    if threading.current_thread() is not threading.main_thread():
        yield
        return

    def onalarm(signum, frame):
        raise _Hang()
    old = signal.signal(signal.SIGALRM, onalarm)
    signal.setitimer(signal.ITIMER_REAL, seconds)
    try:
        yield
    finally:
        signal.setitimer(signal.ITIMER_REAL, 0)
        signal.signal(signal.SIGALRM, old)


def _harness_guard(exc):
    "an exception without any nbdime frame in its traceback is a problem of this harness, not of nbdime"
    if not any('/nbdime/' in f.filename for f in traceback.extract_tb(exc.__traceback__)):
        raise common.CheckerDefect('harness error: %s' % ''.join(traceback.format_exception(type(exc), exc, exc.__traceback__))[-1500:])


def _frames_in(exc, part):
    return any(part in f.filename for f in traceback.extract_tb(exc.__traceback__))


def _site(exc):
    tb = traceback.extract_tb(exc.__traceback__)
    frames = [f for f in tb if '/nbdime/' in f.filename]
    last = frames[-1] if frames else tb[-1]
    return '%s:%s' % (os.path.basename(last.filename), last.name)


# ------------------------------------------------------------------------------------------
# configurations

def make_config(cfg):
    """cfg = [ignored categories (sorted list), use_color, color_words, renderer, via]; via 'args' builds the config
    the way the CLI does (prettyprint_config_from_args on a namespace), via 'ctor' calls PrettyPrintConfig"""
    from nbdime.prettyprint import PrettyPrintConfig
    from nbdime.args import prettyprint_config_from_args
    ignored, use_color, color_words, renderer, via = cfg
    use_git, use_diff, _ = RENDERERS[renderer]
    shown = {c: c not in ignored for c in CATS}
    if via == 'args':
        ns = argparse.Namespace(color_words=color_words, use_color=use_color, use_git=use_git, use_diff=use_diff, **shown)
        return prettyprint_config_from_args(ns, out=io.StringIO())
    return PrettyPrintConfig(out=io.StringIO(), include=argparse.Namespace(**shown), color_words=color_words,
                             use_git=use_git, use_diff=use_diff, use_color=use_color)


def sample_configs(rnd, tier, index):
    "list of cfg lists for one input"
    if tier == 'quick':
        rest = [s for s in ALL_SUBSETS if s and len(s) < 6]
        subsets = [frozenset(), frozenset(CATS)] + rnd.sample(rest, 6)
        # the diff / difflib renderers are selected by flag or by PATH, alternating with the input index
        rends = ['git'] + (['diff', 'difflib:path'] if index % 2 == 0 else ['diff:path', 'difflib']) + [['git:space'], ['diff:space'], []][index % 3]
    else:
        subsets = ALL_SUBSETS
        rends = list(RENDERERS)
    out = []
    for k, ign in enumerate(subsets):
        for use_color in (True, False):
            for cw in (False, True):
                for r in rends:
                    out.append([sorted(ign), use_color, cw, r, 'args' if (k + index) % 2 else 'ctor'])
    return out


# ------------------------------------------------------------------------------------------
# oracle helpers

def cover(sp):
    """categories that must ALL be shown before the renderer is obliged to print a leaf entry at starred path sp
    (c14.category, plus 'outputs' for everything below /cells/*/outputs); None = no ignorable category: not counted"""
    cat = c14.category(sp)
    if cat is None:
        return None
    cats = {cat}
    if sp.startswith('/cells/*/outputs'):
        cats.add('outputs')
    return cats


def visible_leaves(pdiff, prefix, ignored):
    out = []
    for sp, e in c14.entries(pdiff, prefix):
        if e['op'] == 'patch':
            continue
        cats = cover(sp)
        if cats and not (cats & set(ignored)):
            out.append(sp)
    return out


def has_esc(obj):
    from bounded import nbspace
    return '\\u001b' in nbspace.canon(obj)


def star(path):
    return ''.join('/' + ('*' if isinstance(k, int) else str(k)) for k in path)


def judge_diff(text, pdiff, cfg, input_has_esc, label='diff'):
    "oracles on the text printed for a notebook diff"
    out = []
    ignored, use_color = cfg[0], cfg[1]
    if not use_color and '\x1b' in text and not input_has_esc:
        i = text.index('\x1b')
        out.append(('esc-with-color-off', 'ANSI escape in the %s output with colour disabled: ...%r...' % (label, text[max(0, i - 30):i + 30])))
    if not pdiff:
        if text:
            out.append(('output-for-empty-diff', 'the empty diff (%s) prints %r' % (label, text[:120])))
        return out
    vis = visible_leaves(pdiff, '', ignored)
    if vis:
        body = DIFF_HEADER.sub('', ANSI.sub('', text), count=1)
        if not text:
            out.append(('no-output-for-visible-diff', 'nothing is printed although the diff has entries in shown categories at %r' % vis[:3]))
        elif not body.strip():
            out.append(('no-output-for-visible-diff',
                        'only the file header is printed although the diff has entries in shown categories at %r' % vis[:3]))
    return out


def judge_decisions(text, pdecs, cfg, input_has_esc, label='decisions'):
    out = []
    ignored, use_color = cfg[0], cfg[1]
    if not use_color and '\x1b' in text and not input_has_esc:
        i = text.index('\x1b')
        out.append(('esc-with-color-off', 'ANSI escape in the %s output with colour disabled: ...%r...' % (label, text[max(0, i - 30):i + 30])))
    vis = []
    for d in pdecs:
        prefix = star(d['common_path'])
        v = []
        for fld in ('local_diff', 'remote_diff', 'custom_diff'):
            if d.get(fld):
                v += visible_leaves(d[fld], prefix, ignored)
        vis.append(v)
    if not any(vis):
        return out
    if not text:
        out.append(('no-output-for-visible-diff', 'nothing at all is printed for %d decisions with entries in shown categories at %r'
                    % (len(pdecs), [v[0] for v in vis if v][:3])))
        return out
    # split the output at the per-decision header lines; give up (conservatively) if that does not work out
    chunks, cur = [], None
    for line in ANSI.sub('', text).split('\n'):
        if DEC_HEADER.match(line):
            cur = []
            chunks.append(cur)
        elif cur is not None and not DEC_KEY.match(line):
            cur.append(line)
    if len(chunks) != len(pdecs):
        return out
    for d, v, chunk in zip(pdecs, vis, chunks):
        if v and not ''.join(chunk).strip():
            out.append(('no-output-for-visible-diff', 'only header lines are printed for the decision at %r (action %s) although its diffs have entries in shown '
                        'categories at %r' % (d['common_path'], d.get('action'), v[:3])))
            break
    return out


def render(env, what, payload, cfg, seconds=HANG_SECONDS):
    """one rendering through the public function; returns (text, failure or None)"""
    from nbdime import prettyprint as pp
    config = None
    env.use(cfg[3], cfg)
    try:
        config = make_config(cfg)
        with _deadline(seconds):
            if what == 'diff':
                a, d = payload
                afn, bfn = env.labels(cfg)
                pp.pretty_print_notebook_diff(afn, bfn, a, d, config)
            elif what == 'notebook':
                pp.pretty_print_notebook(payload, config)
            elif what == 'decisions':
                b, dec = payload
                pp.pretty_print_merge_decisions(b, dec, config)
            else:
                raise common.CheckerDefect('unknown rendering %r' % what)
    except common.CheckerDefect:
        raise
    except _Hang as exc:
        return config.out.getvalue(), ('hang@' + _site(exc), 'pretty_print_%s did not return within %d s (innermost nbdime frame %s)' % (what, seconds, _site(exc)))
    except Exception as exc:
        from bounded.mergeoracles import exc_site, exc_summary
        _harness_guard(exc)
        return (config.out.getvalue() if config is not None else ''), ('crash:' + exc_site(exc), 'rendering a %s raised %s' % (what, exc_summary(exc)))
    finally:
        env.use('git')
    return config.out.getvalue(), None


def classify_decision_crash(env, bad, base, dec, cfg):
    """a crash that disappears when the `similar_insert` entries (a local->remote diff that the renderer applies to
    the base) are dropped from the decisions gets the stable kind prefix crash:similar-insert:"""
    if bad is None or not bad[0].startswith('crash:') or not any(d.get('similar_insert') for d in dec):
        return bad
    stripped = copy.deepcopy(dec)
    for d in stripped:
        d.pop('similar_insert', None)
    _, again = render(env, 'decisions', (base, stripped), cfg)
    if again is None:
        return ('crash:similar-insert:' + bad[0][len('crash:'):], bad[1] + ' (while rendering the similar_insert diff of a decision against the base)')
    return bad


def describe(cfg):
    return 'ignored=%s use_color=%s color_words=%s renderer=%s (config via %s)' % (cfg[0], cfg[1], cfg[2], cfg[3], cfg[4])


# ------------------------------------------------------------------------------------------
# inputs

_OTHERS = []


def strategies_for(rnd, tier):
    from bounded import mergespace
    core = [('mergetool', None, None, True), ('inline', None, None, True)]
    if not _OTHERS:
        _OTHERS.extend(k for k in (mergespace.args_key(a) for a in mergespace.sample_args(random.Random(7), 40)) if k not in core)
    return core + rnd.sample(_OTHERS, 1 if tier == 'quick' else 2)


def large_notebooks(variant):
    """(base, local, remote): one long multi-line text (~LARGE_LINES lines, non-ASCII, no trailing newline) as cell source
    ('source') or stream output ('stream'); local edits every other line, remote only adds a tag"""
    from bounded import nbspace

    def text(tag):
        return 'data = [\n' + '\n'.join("    ('sample_%05d', %s, 'café', 'état %s')," % (i, tag if i % 2 == 0 else '1.0', 'ok' if i % 7 else 'warn')
                                        for i in range(LARGE_LINES)) + '\n]'

    def nb(tag, md=None):
        if variant == 'source':
            cells = [nbspace.code_cell(text(tag), [nbspace.out_stream('x\n')], 1, md), nbspace.md_cell('# T\n')]
        else:
            cells = [nbspace.code_cell('run()\n', [nbspace.out_stream(text(tag))], 1, md), nbspace.md_cell('# T\n')]
        return nbspace.notebook(cells, 5, nbspace.NB_METADATA[1])
    return nb('0.25'), nb('0.125'), nb('0.25', {'tags': ['q']})


# ------------------------------------------------------------------------------------------
# jobs

def _matches(only, index, what, cfg=None, strategy=None):
    if only is None:
        return True
    if only['index'] != index or only['mode'] != what:
        return False
    if strategy is not None and list(only.get('strategy') or []) != list(strategy):
        return False
    return cfg is None or only['cfg'] == cfg


def _job(job, only=None):
    kind = job[0]
    logging.disable(logging.CRITICAL)
    try:
        with _Env() as env:
            if kind == 'pairs':
                return _job_pairs(env, job, only)
            if kind == 'triples':
                return _job_triples(env, job, only)
            if kind == 'large':
                return _job_large(env, job, only)
            if kind == 'cli':
                return _job_cli(env, job, only)
            raise common.CheckerDefect('unknown job %r' % (job,))
    finally:
        logging.disable(logging.NOTSET)


class _Acc:
    def __init__(self, job):
        self.job, self.cnt, self.keys, self.fails, self.sample, self.kinds = list(job), 0, set(), [], None, set()

    def case(self, key):
        self.cnt += 1
        self.keys.add(hash(key))

    def fail(self, kd, index, what, cfg, strategy=None):
        kind, detail = kd
        if kind in self.kinds:
            return
        self.kinds.add(kind)
        where = {'job': self.job, 'index': index, 'mode': what, 'cfg': cfg}
        if strategy is not None:
            where['strategy'] = list(strategy)
        self.fails.append((kind, '%s; %s' % (detail, describe(cfg) if cfg and len(cfg) == 5 else cfg), where))

    def result(self):
        return self.cnt, self.fails, list(self.keys), self.sample


def diff_marker_pairs():
    """source text that contains, as ordinary lines, the marker line the external diff tools print themselves
    ('\\ No newline at end of file'), unchanged between the two notebooks, next to a changed line"""
    from bounded import nbspace
    m = '\\ No newline at end of file\n'
    for k in (1, 3):
        a = nbspace.notebook([nbspace.code_cell('# notes on diff output\n' + m * k + 'x = 1\n')], 4)
        b = nbspace.notebook([nbspace.code_cell('# notes on diff output\n' + m * k + 'x = 2\n')], 4)
        yield a, b


def _job_pairs(env, job, only):
    _, seed, n, tier = job
    from bounded import nbspace
    from nbdime.diffing.notebooks import diff_notebooks
    acc = _Acc(job)
    for pi, (a, b) in enumerate(itertools.chain(nbspace.pairs(seed, n), diff_marker_pairs())):
        if only is not None and only['index'] != pi:
            continue
        if nbspace.validate_strict(a) or nbspace.validate_strict(b):
            continue
        try:
            d = diff_notebooks(a, b)
        except Exception:
            continue                        # C01's business
        pd = nbspace.to_plain(d)
        esc = has_esc(a) or has_esc(b)
        ca, cd, cb = nbspace.canon(a), nbspace.canon(pd), nbspace.canon(b)
        rnd = random.Random(seed * 1000003 + pi)
        cfgs = sample_configs(rnd, tier, pi) if only is None else [only['cfg']]
        seen_sc = set()
        for cfg in cfgs:
            if _matches(only, pi, 'diff', cfg):
                text, bad = render(env, 'diff', (a, d), cfg)
                acc.case(('diff', ca, cd, json.dumps(cfg)))
                for kd in ([bad] if bad else judge_diff(text, pd, cfg, esc)):
                    acc.fail(kd, pi, 'diff', cfg)
                if acc.sample is None and pd and not bad and cfg[0] and visible_leaves(pd, '', cfg[0]):
                    acc.sample = {'what': 'diff', 'cfg': cfg, 'diff_entries': sum(1 for _ in c14.entries(pd)), 'printed_chars': len(text)}
            # the empty diff, and the notebook itself: once per ignore subset x colour (renderer / colour-words do not reach them)
            sc = (tuple(cfg[0]), cfg[1])
            if only is None and sc in seen_sc:
                continue
            seen_sc.add(sc)
            if _matches(only, pi, 'empty-diff', cfg):
                text, bad = render(env, 'diff', (a, []), cfg)
                acc.case(('empty', ca, json.dumps(cfg)))
                for kd in ([bad] if bad else judge_diff(text, [], cfg, esc, 'empty-diff')):
                    acc.fail(kd, pi, 'empty-diff', cfg)
            if _matches(only, pi, 'notebook', cfg):
                text, bad = render(env, 'notebook', b, cfg)
                acc.case(('notebook', cb, json.dumps(cfg)))
                kds = [bad] if bad else []
                if not bad and not cfg[1] and '\x1b' in text and not esc:
                    i = text.index('\x1b')
                    kds.append(('esc-with-color-off', 'ANSI escape in the pretty-printed notebook with colour disabled: ...%r...' % text[max(0, i - 30):i + 30]))
                for kd in kds:
                    acc.fail(kd, pi, 'notebook', cfg)
    return acc.result()


def _job_triples(env, job, only):
    _, seed, n, tier = job
    from bounded import nbspace, mergespace
    from nbdime.merging.notebooks import decide_notebook_merge
    acc = _Acc(job)
    for ti, (b, l, r) in enumerate(nbspace.triples(seed, n)):
        if only is not None and only['index'] != ti:
            continue
        if nbspace.validate_strict(b) or nbspace.validate_strict(l) or nbspace.validate_strict(r):
            continue
        rnd = random.Random(seed * 1000003 + ti)
        esc = has_esc(b) or has_esc(l) or has_esc(r)
        cb = nbspace.canon(b)
        for strat in strategies_for(rnd, tier):
            if only is not None and list(only.get('strategy') or []) != list(strat):
                continue
            try:
                dec = decide_notebook_merge(copy.deepcopy(b), l, r, mergespace.args_for(*strat))
            except Exception:
                continue                    # C03's business
            pdec = nbspace.to_plain(dec)
            cdec = nbspace.canon(pdec)
            cfgs = sample_configs(rnd, tier, ti) if only is None else [only['cfg']]
            for cfg in cfgs:
                text, bad = render(env, 'decisions', (b, dec), cfg)
                bad = classify_decision_crash(env, bad, b, dec, cfg)
                acc.case(('decisions', cb, cdec, json.dumps(cfg)))
                for kd in ([bad] if bad else judge_decisions(text, pdec, cfg, esc)):
                    acc.fail(kd, ti, 'decisions', cfg, strat)
                if acc.sample is None and not bad and any(x.get('conflict') for x in pdec):
                    acc.sample = {'what': 'decisions', 'strategy': list(strat), 'cfg': cfg, 'decisions': len(pdec), 'printed_chars': len(text)}
    return acc.result()


def _job_large(env, job, only):
    _, variant, cfg = job
    from bounded import nbspace, mergespace
    from nbdime.diffing.notebooks import diff_notebooks
    from nbdime.merging.notebooks import decide_notebook_merge
    from nbdime.patching import patch_notebook
    acc = _Acc(job)
    b, l, r = large_notebooks(variant)
    for x in (b, l, r):
        e = nbspace.validate_strict(x)
        if e:
            raise common.CheckerDefect('large notebook is not valid: %s' % e)
    try:
        d = diff_notebooks(b, l)
        dec = decide_notebook_merge(copy.deepcopy(b), l, r, mergespace.args_for('mergetool'))
        if nbspace.canon(patch_notebook(b, d)) != nbspace.canon(l):
            return acc.result()             # not a valid diff: C01
    except Exception:
        return acc.result()                 # C01 / C03
    pd, pdec = nbspace.to_plain(d), nbspace.to_plain(dec)
    key = 'large-%s-%d' % (variant, LARGE_LINES)
    for what, payload, plain in (('diff', (b, d), pd), ('decisions', (b, dec), pdec)):
        for ign in ([], sorted(CATS)):
            c = [ign] + cfg[1:]
            if not _matches(only, 0, what, c):
                continue
            text, bad = render(env, what, payload, c, seconds=2 * HANG_SECONDS)
            acc.case((key, what, json.dumps(c)))
            if bad:
                acc.fail(bad, 0, what, c)
                return acc.result()         # do not pay the same time-out again
            kds = judge_diff(text, plain, c, False) if what == 'diff' else judge_decisions(text, plain, c, False)
            for kd in kds:
                acc.fail(kd, 0, what, c)
            if acc.sample is None and not ign:
                acc.sample = {'what': 'large ' + what, 'variant': variant, 'lines': LARGE_LINES, 'cfg': c, 'printed_chars': len(text)}
    return acc.result()


# ---- the command line paths --------------------------------------------------------------------------------

class _LogCapture(logging.Handler):
    def __init__(self):
        super().__init__(level=logging.DEBUG)
        self.records = []

    def emit(self, record):
        try:
            self.records.append(record.getMessage())
        except Exception:
            self.records.append(str(record.msg))


def _run_cli(env, mainfn, argv, renderer):
    """run a nbdime entry point in-process; returns (status, stdout, log messages, exception or None, stderr)"""
    out, err = io.StringIO(), io.StringIO()
    root = logging.getLogger()
    before = list(root.handlers)
    lg = logging.getLogger('nbdime')
    cap = _LogCapture()
    lg_level, root_level = lg.level, root.level
    logging.disable(logging.NOTSET)
    lg.addHandler(cap)
    env.use(renderer)
    status, exc = None, None
    try:
        with contextlib.redirect_stdout(out), contextlib.redirect_stderr(err):
            try:
                with _deadline(HANG_SECONDS):
                    status = mainfn(argv)
            except (Exception, SystemExit, _Hang) as e:
                exc = e
    finally:
        env.use('git')
        lg.removeHandler(cap)
        for h in list(root.handlers):
            if h not in before:
                root.removeHandler(h)
        lg.setLevel(lg_level)
        root.setLevel(root_level)
        logging.disable(logging.CRITICAL)
        for name in ('stdout', 'stderr'):          # setup_std_streams may have wrapped the real streams
            if getattr(sys, name) is not getattr(sys, '__%s__' % name) and not isinstance(getattr(sys, name), io.StringIO):
                setattr(sys, name, getattr(sys, '__%s__' % name))
    return status, out.getvalue(), cap.records, exc, err.getvalue()


def _cli_flags(cfg):
    ignored, use_color, color_words, renderer, _ = cfg
    flags = ['-' + c14.FLAG[c].upper() for c in CATS if c in ignored]
    if not use_color:
        flags.append('--no-color')
    use_git, use_diff, _p = RENDERERS[renderer]
    if not use_git:
        flags.append('--no-git')
    if not use_diff:
        flags.append('--no-use-diff')
    return flags, color_words


def _foreign(exc):
    "a crash inside the diff / merge algorithms proper (not below the renderer) belongs to C01 / C03"
    return (_frames_in(exc, '/nbdime/diffing/') or _frames_in(exc, '/nbdime/merging/')) and not _frames_in(exc, 'prettyprint.py')


def _exc_kind(exc):
    from bounded.mergeoracles import exc_site, exc_summary
    _harness_guard(exc)
    if isinstance(exc, _Hang):
        return 'hang@' + _site(exc), 'did not return within %d s (innermost nbdime frame %s)' % (HANG_SECONDS, _site(exc))
    if isinstance(exc, SystemExit):
        return 'crash:SystemExit@' + _site(exc), 'exited through SystemExit(%r)' % (exc.code,)
    return 'crash:' + exc_site(exc), 'raised ' + exc_summary(exc)


def _job_cli(env, job, only):
    _, seed, n, tier = job
    import nbformat
    from bounded import nbspace
    from nbdime import nbdiffapp, nbshowapp, nbmergeapp
    from nbdime.diffing import notebooks as nbd
    acc = _Acc(job)
    work = os.path.join(env.tmp, 'work')
    os.mkdir(work)

    def write(name, nb):
        p = os.path.join(work, name)
        with open(p, 'w', encoding='utf8') as fh:
            json.dump(nbspace.to_plain(nb), fh, ensure_ascii=False)
        return p

    def cli_cfgs(rnd, index):
        if only is not None:
            return [only['cfg']]
        rest = [s for s in ALL_SUBSETS if s and len(s) < 6]
        subs = [frozenset(), frozenset(CATS)] + rnd.sample(rest, 2 if tier == 'quick' else 8)
        rends = list(RENDERERS)
        out = []
        for k, s in enumerate(subs):
            for use_color in (True, False):
                out.append([sorted(s), use_color, bool((k + index) % 2) != use_color, rends[(k + index + use_color) % len(rends)], 'cli'])
        return out

    try:
        for ti, (b, l, r) in enumerate(nbspace.triples(seed, n)):
            if only is not None and only['index'] != ti:
                continue
            if nbspace.validate_strict(b) or nbspace.validate_strict(l) or nbspace.validate_strict(r):
                continue
            esc = has_esc(b) or has_esc(l) or has_esc(r)
            fb, fl, fr = write('base.ipynb', b), write('local.ipynb', l), write('remote.ipynb', r)
            rnd = random.Random(seed * 1000003 + ti)
            for cfg in cli_cfgs(rnd, ti):
                flags, cw = _cli_flags(cfg)
                # ---- nbdiff base local / nbdiff base base
                for what, other in (('nbdiff', fl), ('nbdiff-same', fb)):
                    if not _matches(only, ti, what, cfg):
                        continue
                    argv = flags + (['--color-words'] if cw else []) + [fb, other]
                    nbd.reset_notebook_differ()
                    try:
                        status, text, logs, exc, _err = _run_cli(env, nbdiffapp.main, argv, cfg[3])
                        acc.case((what, nbspace.canon(b), nbspace.canon(l) if what == 'nbdiff' else '', json.dumps(cfg)))
                        if exc is not None:
                            k, dtl = _exc_kind(exc)
                            if not _foreign(exc):
                                acc.fail((k, 'nbdiff %s %s' % (' '.join(argv[:-2]), dtl)), ti, what, cfg)
                            continue
                        if status != 0:
                            acc.fail(('cli-exit:nbdiff:%s' % status, 'nbdiff %s returned %r' % (' '.join(argv[:-2]), status)), ti, what, cfg)
                            continue
                        try:
                            # the differ is still configured by the flags just processed: the same (filtered) diff
                            fd = nbspace.to_plain(nbd.diff_notebooks(nbformat.read(fb, as_version=4), nbformat.read(other, as_version=4)))
                        except Exception:
                            continue
                        for kd in judge_diff(text, fd, cfg, esc, what):
                            acc.fail((kd[0], 'nbdiff %s: %s' % (' '.join(argv[:-2]), kd[1])), ti, what, cfg)
                    finally:
                        nbd.reset_notebook_differ()
                # ---- nbshow local (no colour / renderer options: ignore flags only)
                if _matches(only, ti, 'nbshow', cfg) and (cfg[1] or only is not None):
                    argv = [f for f in flags if len(f) == 2] + [fl]
                    status, text, logs, exc, _err = _run_cli(env, nbshowapp.main, argv, cfg[3])
                    acc.case(('nbshow', nbspace.canon(l), json.dumps(cfg[0])))
                    if exc is not None:
                        k, dtl = _exc_kind(exc)
                        acc.fail((k, 'nbshow %s %s' % (' '.join(argv[:-1]), dtl)), ti, 'nbshow', cfg)
                    elif status != 0:
                        acc.fail(('cli-exit:nbshow:%s' % status, 'nbshow %s returned %r' % (' '.join(argv[:-1]), status)), ti, 'nbshow', cfg)
                # ---- nbmerge --decisions base local remote
                if _matches(only, ti, 'nbmerge', cfg):
                    strat = ['inline', 'use-base', 'use-local'][ti % 3]
                    argv = flags + ['--decisions', '--merge-strategy', strat, fb, fl, fr]
                    nbd.reset_notebook_differ()
                    try:
                        status, text, logs, exc, _err = _run_cli(env, nbmergeapp.main, argv, cfg[3])
                        acc.case(('nbmerge', nbspace.canon(b), nbspace.canon(l), nbspace.canon(r), strat, json.dumps(cfg)))
                        if exc is not None:
                            k, dtl = _exc_kind(exc)
                            if not _foreign(exc):
                                if k.startswith('crash:') and _frames_in(exc, 'prettyprint.py'):
                                    try:
                                        from nbdime.merging import merge_notebooks
                                        from bounded import mergespace
                                        _m, dec = merge_notebooks(copy.deepcopy(b), l, r, mergespace.args_for(strat))
                                        c2 = [cfg[0], cfg[1], cfg[2], cfg[3], 'args']
                                        _t, bad = render(env, 'decisions', (b, dec), c2)
                                        if bad is not None and bad[0] == k:
                                            k = classify_decision_crash(env, bad, b, dec, c2)[0]
                                    except common.CheckerDefect:
                                        raise
                                    except Exception:
                                        pass
                                acc.fail((k, 'nbmerge %s %s' % (' '.join(argv[:-3]), dtl)), ti, 'nbmerge', cfg)
                            continue                  # a crash inside the merge itself is C03's business
                        if status not in (0, 1):
                            acc.fail(('cli-exit:nbmerge:%s' % status, 'nbmerge %s returned %r' % (' '.join(argv[:-3]), status)), ti, 'nbmerge', cfg)
                            continue
                        shown = [m for m in logs if m.startswith('Decisions:')]
                        if not cfg[1] and not esc and any('\x1b' in m for m in shown):
                            acc.fail(('esc-with-color-off', 'nbmerge %s logs decisions with ANSI escapes although --no-color is given' % ' '.join(argv[:-3])), ti, 'nbmerge', cfg)
                        if acc.sample is None and shown:
                            acc.sample = {'what': 'nbmerge --decisions', 'argv': argv[:-3], 'status': status, 'printed_chars': len(shown[0])}
                    finally:
                        nbd.reset_notebook_differ()
    finally:
        shutil.rmtree(work, ignore_errors=True)
    return acc.result()


# ------------------------------------------------------------------------------------------

def replay_case(where):
    cnt, fails, _, _ = _job(list(where['job']), only=where)
    return fails


def _jobs(tier, seed):
    q = tier == 'quick'
    jobs = []
    # the large inputs first: they are the slowest single cases
    combos = [(uc, cw, r) for r in ('git', 'diff', 'difflib', 'diff:path') for uc in (True, False) for cw in (False, True)]
    for k, (uc, cw, r) in enumerate(combos):
        if q and r == 'diff:path':
            continue
        for variant in (['source', 'stream'][k % 2:k % 2 + 1] if q else ['source', 'stream']):
            jobs.append(('large', variant, [[], uc, cw, r, 'ctor' if k % 2 else 'args']))
    base = seed * 7919
    jobs += [('pairs', base + s, 24 if q else 32, tier) for s in range(32 if q else 48)]
    jobs += [('triples', base + 500 + s, 10 if q else 14, tier) for s in range(32 if q else 48)]
    jobs += [('cli', base + 900 + s, 6 if q else 20, tier) for s in range(8 if q else 16)]
    return jobs


def run_bounded(res):
    jobs = _jobs(res.tier, res.seed)
    seen = set()
    per_kind = {}
    for job, (cnt, fails, keys, sample) in zip(jobs, common.pmap(_job, jobs)):
        res.evaluations += cnt
        res.nontrivial.update(keys)
        per_kind[job[0]] = per_kind.get(job[0], 0) + cnt
        if sample and sum(1 for s in res.samples if s.get('what') == sample.get('what')) < 2:
            res.sample(sample)
        for kind, detail, where in fails:
            fid = None
            for prefix, f in KNOWN.items():
                if common.kind_matches(kind, prefix):
                    fid = f
            if fid:
                res.known_hit(fid)
                continue
            root = 'crash:similar-insert' if kind.startswith('crash:similar-insert') else kind     # one root cause, several sites
            if root in seen:
                continue
            seen.add(root)
            res.violation('%s [%s]' % (detail, kind), dict(where, replay_kind='call', module='checks.c16_bounded', function='replay_case', args=[where]))
    if not res.evaluations:
        raise common.CheckerDefect('C16: no case was exercised at all')
    for k in ('large', 'pairs', 'triples', 'cli'):
        if not per_kind.get(k):
            # e.g. diff_notebooks / decide_notebook_merge fail for every input of the class: C01 / C03 report that
            res.notes.append('no case of class %r could be exercised (its inputs could not be diffed / merged)' % k)
    q = res.tier == 'quick'
    res.coverage['cases_by_class'] = per_kind
    res.coverage['rule'] = (
        'inputs: notebook pairs (A,B) of the grammar with D=diff_notebooks(A,B) [pretty_print_notebook_diff(A,D), the empty diff on A, pretty_print_notebook(B)]; display names: plain file names, '
        '"<path> (<rev>)" below a regular file, 300-character labels, an existing file (chosen by a hash of the configuration); '
        'triples of the grammar with decide_notebook_merge under the web-tool, the default inline and %s other strategy table(s) [pretty_print_merge_decisions]; '
        'one %d-line non-ASCII text without trailing newline (cell source or stream output, every other line edited: the external tools print more than 64 KiB) '
        'as diff and as one-sided decision list; nbdiff / nbshow / nbmerge --decisions run in-process on files written from triples. '
        'configurations: %s ignore subsets per input x colour on/off x colour-words on/off x renderer in %s (git/diff/difflib chosen by use_git/use_diff, '
        '":path" variants by removing git / git and diff from PATH), config objects built alternately by PrettyPrintConfig(...) and prettyprint_config_from_args. '
        'a case is distinct by (input, diff or decisions, configuration). oracles: no exception and return within %d s; no ESC with colour off; '
        'nothing printed for []; more than the header printed when a leaf entry of the diff lies in shown categories only (table of checks/c14.category, '
        'entries below /cells/*/outputs additionally need outputs shown)'
        % ('1' if q else '2', LARGE_LINES, '8 of the 64 (always none and all ignored)' if q else 'all 64',
           'git, diff|diff:path, difflib|difflib:path (alternating)' if q else sorted(RENDERERS), HANG_SECONDS))
    res.assumptions += [
        'bounded: only the stated small scope is explored',
        'real git and diff executables of this machine stand for "the external tools"; their absence is simulated by PATH manipulation and by use_git/use_diff',
        'a decision / diff entry counts as visible only if every category that could cover it is shown (conservative: the renderer is never required to print an entry that one reading of the ignore flags hides)',
        'the fixed header lines (nbdiff/---/+++; "==== decision at", "--- local_diff:") do not count as printing something for a visible entry',
        'crashes of diff_notebooks / decide_notebook_merge themselves are left to C01 / C03',
    ]


run = run_bounded


def replay(path):
    return common.replay_file(path)
