"""C03 -- three-way merge always completes (bounded stand-in + proved assertion obligations when available)."""
from . import common, mergecommon

LEVEL = 'exploration'

KNOWN = {
    'crash:IndexError@strategies.py:resolve_strategy_inline_outputs': 'C03-inline-outputs-append',
    'crash:TypeError@strategies.py:<genexpr>': 'C03-none-diff-bundle',
    'crash:KeyError@strategies.py:resolve_strategy_inline_attachments': 'C03-attachments-keyerror',
    'crash:ValueError@strategies.py:resolve_strategy_inline_recurse': 'C03-similar-insert-attachments',
    'crash:AssertionError@strategies.py:resolve_strategy_inline_recurse': 'C03-similar-insert-celltype',
    'crash:KeyError@strategies.py:resolve_strategy_inline_recurse': 'C03-similar-insert-id-keyerror',
    'crash:TypeError@strategies.py:combine_patches': 'C03-combine-mixed-keys',
}


def run(res):
    rend = (None,) if res.tier == 'quick' else ('git', 'diff3', 'builtin', 'diff', 'diff3only', 'gitonly')
    mergecommon.run_merge_cases(res, {'C03'}, 'C03', KNOWN, quick=(64, 80, 16), thorough=(128, 100, 282), renderers=rend)
    if res.tier == 'quick':
        # the three text-merge helpers, on a smaller sample
        mergecommon.run_merge_cases(res, {'C03'}, 'C03', KNOWN, quick=(8, 40, 8), renderers=('diff3', 'builtin', 'diff', 'diff3only', 'gitonly'))
    from . import localecommon
    localecommon.merge_part(res, KNOWN)
    res.assumptions += ['bounded: only the stated small scope of notebooks, edit scripts and strategy tables is explored',
                        'external helpers git merge-file / diff3 behave as installed in this sandbox']


def replay(path):
    return common.replay_file(path)
