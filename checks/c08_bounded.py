"""C08 -- merge command and git merge driver: exit status, output file, behaviour on failure
(bounded run-time contract with single-fault injection; see bounded/c08_harness.py).

The real entry points nbdime.nbmergeapp.main and nbdime.vcs.git.mergedriver.main are run in-process on files
in a temp dir (and, for a few cases, as real subprocesses).  Oracle without faults: exit status 0 iff the library
merge of freshly read copies has no conflicted decision; the output is well-formed JSON, readable by nbformat
and equal to the library result; nothing else in the directory changes.  Oracle with one injected fault: the run
does not report success, and a fault before the first byte of the result is written leaves the output untouched."""
import itertools
import json
import logging
import os
import random
import warnings

from . import common

LEVEL = 'exploration'

KNOWN = {}

CORE = [('inline', None, None, True), ('use-local', None, None, True), ('use-remote', None, None, True),
        ('use-base', None, None, True), ('inline', None, 'clear-all', True), ('inline', None, 'remove', True),
        ('inline', 'use-local', 'use-remote', False), ('use-base', 'inline', 'inline', True), ('inline', None, None, False)]


def all_strategies():
    from bounded import mergespace
    return list(itertools.product(mergespace.MERGE, mergespace.INPUT, mergespace.OUTPUT, [True, False]))


# ------------------------------------------------------------------------------------------
# one case

def triple_at(seed, n, index, gen=None):
    from bounded import nbspace
    if gen == 'nonascii':
        # text outside ASCII: even index -- both sides change the same line (conflict); odd -- different cells (clean)
        if index % 2:
            return nbspace.nonascii_disjoint_case(index // 2)[:3]
        return nbspace.nonascii_conflict_triple(nbspace.nonascii_disjoint_case(index // 2)[0], random.Random(seed * 31 + index))
    for ti, t in enumerate(nbspace.triples(seed, n)):
        if ti == index:
            return t
    raise common.CheckerDefect('triple %d of triples(%d, %d) does not exist' % (index, seed, n))


def run_case(triple, where):
    """Execute ONE case against the real code. -> (list of (kind, detail), info dict).
    info['skipped'] is set when the library merge itself raises (C03's business)."""
    from bounded import c08_harness as H, nbspace
    from bounded.difforacles import first_difference
    from bounded.mergeoracles import exc_site, exc_summary
    import nbformat
    logging.disable(logging.CRITICAL)
    warnings.simplefilter('ignore')
    b, l, r = triple
    app, layout, strategy = where['app'], where['layout'], tuple(where['strategy'])
    fault_step, mode = where.get('fault'), where.get('mode', 'inproc')
    with_out = where.get('with_out', True)
    rnd = random.Random(where['seed'] * 1000003 + where['index'])
    if layout == 'samestat':
        l, r = H.make_samestat_pair(l, r, rnd)
    fails, info = [], {}
    try:
        with H.scratch() as d:
            p = H.materialise(d, H.layout_texts(b, l, r, layout), layout, app, where.get('pre_out', False))
            ignore = tuple(where.get('ignore') or ())
            exp = H.Expect(p, strategy, ignore)
            info['distinct'] = nbspace.canon(exp.L) != nbspace.canon(exp.R)
            info['key'] = hash((nbspace.canon(exp.B), nbspace.canon(exp.L), nbspace.canon(exp.R), app, layout, strategy, fault_step, mode, with_out, ignore, where.get('log_level')))
            if not isinstance(exp.main, H.LibResult):
                info['skipped'] = 'library merge raises' if exp.main is None else 'library result unserialisable'
                return fails, info
            lib = exp.main
            conflicted = lib.conflicted
            info['conflicted'] = conflicted
            argv = H.argv_for(app, layout, p, strategy, where.get('explicit', True), where.get('pathname', True), with_out, ignore, where.get('log_level'))
            outname = os.path.basename(p['out'])
            fired, exc, stdout, crashed = False, None, None, None
            damaged = bool(fault_step) and fault_step.split(':')[0] in ('missing', 'corrupt')
            if damaged:
                H.damage_input(fault_step, p)
                fired = True
            before = H.snapshot(d)
            if mode == 'subproc':
                rc, stdout, stderr = H.invoke_subprocess(app, argv, d, fault_step, where.get('locale'))
                status, how = rc, 'process exit status %d' % rc
                if fault_step:
                    fired = rc == -9
                elif 'Traceback (most recent call last)' in stderr:
                    last = stderr.strip().splitlines()[-1]
                    crashed = (last.split(':')[0].split('.')[-1].strip() or 'Exception', last[:200])
            elif damaged:
                status, how, exc, stdout = H.invoke_inproc(app, argv)
            elif fault_step:
                with H.inject(fault_step, p) as f:
                    status, how, exc, stdout = H.invoke_inproc(app, argv)
                fired = f.fired
            else:
                status, how, exc, stdout = H.invoke_inproc(app, argv)
            if isinstance(exc, H.HarnessError):
                raise common.CheckerDefect('fault injector misbehaved: %r' % (exc,))
            after = H.snapshot(d)
            info.update(status=status, fired=fired)
            desc = '%s %s' % ('git-nbmergedriver' if app == 'driver' else 'nbmerge',
                              ' '.join(a.replace(d + os.sep, '') for a in argv))
            if where.get('locale'):
                desc += (' (process locale %s, not UTF-8; notebooks with text outside ASCII)' % where['locale'] if where['locale'] == 'C' else
                         ' (PYTHONIOENCODING=%s in a UTF-8 process; notebooks with text outside ASCII)' % where['locale'][3:])

            others = sorted(k for k in set(before) | set(after) if k != outname and before.get(k) != after.get(k))
            if others:
                fails.append(('other-file-changed', '%s: file(s) other than the output %s changed/appeared/vanished: %s' % (desc, outname, others)))

            if fault_step and fired:
                if status == 0:
                    fails.append(('success-despite-fault:' + fault_step,
                                  '%s: fault injected at step %r (%s) yet the run reports success (%s)' % (desc, fault_step, mode, how)))
                if fault_step in H.BEFORE_WRITE and before.get(outname) != after.get(outname):
                    fails.append(('output-touched-before-failure:' + fault_step,
                                  '%s: fault at step %r strikes before the result is written, but the output %s was %s' % (
                                      desc, fault_step, outname, 'removed' if outname not in after else 'created' if outname not in before else 'modified')))
                return fails, info
            if fault_step and mode == 'subproc':
                info['skipped'] = 'kill point not reached'
                return fails, info

            # ---- no fault struck: the full contract applies
            if crashed:
                fails.append(('crash:%s@subprocess' % crashed[0], '%s: valid inputs, library merge succeeds, but the process died with a traceback '
                              '(exit status %d): %s' % (desc, status, crashed[1])))
                return fails, info
            if exc is not None:
                fails.append(('crash:' + exc_site(exc), '%s: valid inputs, library merge succeeds, but main() raised %s' % (desc, exc_summary(exc))))
                return fails, info
            if status == 0 and conflicted:
                fails.append(('exit-zero-with-conflict', '%s: %s although the library merge leaves unresolved conflicts' % (desc, how)))
            if status != 0 and not conflicted:
                fails.append(('exit-nonzero-without-conflict', '%s: %s although the library merge has no unresolved conflict' % (desc, how)))
            if with_out:
                data = after.get(outname)
            else:
                data = stdout
            if data is None:
                if layout != 'del-both':
                    fails.append(('output-missing', '%s: finished (%s) but there is no output file %s' % (desc, how, outname)))
                return fails, info
            try:
                # what goes to stdout is in the encoding the user forced on the standard streams, files are UTF-8
                enc = where['locale'][3:] if (not with_out and str(where.get('locale') or '').startswith('io-')) else 'utf8'
                text = data.decode(enc)
                json.loads(text)
            except ValueError as e:
                fails.append(('output-not-json', '%s: output %s is not well-formed JSON (%s); %d bytes, starts %r' % (
                    desc, outname if with_out else '<stdout>', str(e)[:80], len(data), data[:60])))
                return fails, info
            try:
                got_nb = nbformat.reads(text, as_version=4)
                H.normalise(got_nb)
            except Exception as e:
                fails.append(('output-not-json', '%s: output is JSON but nbformat cannot read it: %s: %s' % (desc, type(e).__name__, str(e)[:120])))
                return fails, info
            if not lib.same(got_nb):
                which = exp.ignored_input(got_nb)
                diff = first_difference(json.loads(lib.norm), json.loads(H.normalise(got_nb, lib.noid)))
                if which:
                    fails.append(('input-not-read:' + which, '%s: the output equals the library merge with the %s input ignored, not the merge of the '
                                  'three files (library vs output: %s)' % (desc, which, diff)))
                else:
                    fails.append(('output-differs-from-library', '%s: output differs from merge_notebooks on the same inputs and strategy: %s' % (desc, diff)))
    except H.HarnessError as e:
        raise common.CheckerDefect('C08 harness: %s' % e)
    finally:
        # the command installs its ignore options process-wide (as a command may): the next case starts from the defaults
        from nbdime.diffing import notebooks as nbd
        nbd.reset_notebook_differ()
        if where.get('log_level'):
            from nbdime.log import set_nbdime_log_level
            set_nbdime_log_level(logging.INFO)
    return fails, info


# ------------------------------------------------------------------------------------------
# enumeration

def plan_for_triple(seed, n, ti, steps_mod):
    """the in-process cases explored for triple `ti` of triples(seed, n)"""
    from bounded import c08_harness as H
    rnd = random.Random(seed * 7919 + ti)
    allst = all_strategies()
    out = []
    for ai, app in enumerate(('cli', 'driver')):
        layouts = H.CLI_LAYOUTS if app == 'cli' else H.DRIVER_LAYOUTS
        layout = layouts[(ti + 3 * ai + seed) % len(layouts)]
        s1 = CORE[(ti + ai) % len(CORE)]
        s2 = rnd.choice(allst)
        base = {'seed': seed, 'n': n, 'index': ti, 'app': app, 'layout': layout, 'mode': 'inproc',
                'pre_out': rnd.random() < 0.6, 'pathname': rnd.random() < 0.5, 'explicit': rnd.random() < 0.7}
        out.append(dict(base, strategy=list(s1), fault=None))
        out.append(dict(base, strategy=list(s2), fault=None))
        if layout in ('plain', 'samestat', 'null-base') and rnd.random() < 0.35:
            # a verbose run (--log-level DEBUG): the result is still the library merge of the three files
            out.append(dict(base, strategy=list(s1), fault=None, log_level='DEBUG'))
        if layout in ('plain', 'samestat') and rnd.random() < 0.5:
            # diff-ignore options on the command line: the library merge "for the same options" runs with them in force
            out.append(dict(base, strategy=list(s1), fault=None, ignore=rnd.choice([['-O'], ['-M'], ['-D'], ['-O', '-D'], ['-S'], ['-M', '-A', '-I']])))
        if app == 'cli' and layout != 'del-both' and rnd.random() < 0.3:
            out.append(dict(base, strategy=list(s2), fault=None, with_out=False, pre_out=False))
        if layout != 'samestat' and rnd.random() < 0.25:
            out.append(dict(base, layout='samestat', strategy=list(s1), fault=None))
        steps = H.STEPS_DELBOTH if layout == 'del-both' else H.STEPS_MERGE
        placeholders = {'null-base': ['base'], 'no-base-arg': ['base'], 'del-local': ['local'], 'del-remote': ['remote'],
                        'del-both': ['local', 'remote']}.get(layout, [])
        steps = [s for s in steps if s.split(':')[1:2] not in [[x] for x in placeholders] or s.split(':')[0] not in ('read', 'missing', 'corrupt')]
        if layout == 'empty-base':
            steps = [s for s in steps if s != 'corrupt:base']
        if app == 'driver':
            steps = [s for s in steps if s != 'missing:local']       # the local file is the output location itself
        if steps_mod > 1 and layout != 'del-both':
            off = rnd.randrange(steps_mod)
            steps = [s for k, s in enumerate(steps) if (k + off) % steps_mod == 0]
        fs = s1 if rnd.random() < 0.5 else s2
        for s in steps:
            out.append(dict(base, strategy=list(fs), fault=s))
    return out


def subprocess_plan(seed, count):
    from bounded import c08_harness as H
    rnd = random.Random(seed * 31 + 5)
    n = 40
    combos = [('cli', lay, True) for lay in H.CLI_LAYOUTS] + [('driver', lay, True) for lay in H.DRIVER_LAYOUTS] + \
             [('cli', 'plain', False), ('cli', 'null-base', False), ('cli', 'samestat', False)]
    out = []
    kills = 0
    for k in range(count):
        app, layout, with_out = combos[k % len(combos)]
        fault = None
        if k % 3 == 2 and layout != 'del-both' and with_out:
            fault = H.KILL_STEPS[kills % 2]
            kills += 1
        out.append({'seed': seed * 13 + 1, 'n': n, 'index': rnd.randrange(n), 'app': app, 'layout': layout, 'mode': 'subproc',
                    'with_out': with_out, 'pre_out': bool(k % 2), 'pathname': bool(k % 3), 'explicit': True,
                    'strategy': list(CORE[k % len(CORE)]), 'fault': fault})
    # processes whose locale encoding is not UTF-8, on notebooks full of text outside ASCII: named output, stdout, git driver
    for k, (app, layout, with_out) in enumerate([('cli', 'plain', True), ('cli', 'plain', False), ('driver', 'plain', True), ('cli', 'plain', True),
                                                 ('cli', 'plain', False), ('driver', 'plain', True), ('cli', 'null-base', True), ('cli', 'plain', False)]):
        out.append({'seed': seed, 'n': 8, 'index': k, 'gen': 'nonascii', 'locale': 'C', 'app': app, 'layout': layout, 'mode': 'subproc',
                    'with_out': with_out, 'pre_out': bool(k % 2), 'pathname': True, 'explicit': True, 'strategy': list(CORE[0]), 'fault': None})
    # standard streams forced to latin-1 / ascii through PYTHONIOENCODING in an otherwise UTF-8 process: the notebook printed to stdout
    for k, loc in enumerate(['io-latin-1', 'io-ascii', 'io-latin-1', 'io-ascii']):
        out.append({'seed': seed, 'n': 8, 'index': 6 + k % 2 if k < 2 else k, 'gen': 'nonascii', 'locale': loc, 'app': 'cli', 'layout': 'plain', 'mode': 'subproc',
                    'with_out': k == 3, 'pre_out': False, 'pathname': True, 'explicit': True, 'strategy': list(CORE[0]), 'fault': None})
    return out


def _job(job):
    kind = job[0]
    logging.disable(logging.CRITICAL)
    warnings.simplefilter('ignore')
    from bounded import nbspace
    results = []       # (where, fails, info)
    if kind == 'batch':
        _, seed, n, steps_mod = job
        for ti, triple in enumerate(nbspace.triples(seed, n)):
            bad = [e for nb in triple for e in (nbspace.validate_strict(nb) or [])]
            if bad:
                results.append(({'seed': seed, 'n': n, 'index': ti}, [('GEN', 'invalid generated notebook: %s' % (bad[:1],))], {}))
                continue
            for where in plan_for_triple(seed, n, ti, steps_mod):
                fails, info = run_case(triple, where)
                results.append((where, fails, info))
    else:
        _, where = job
        fails, info = run_case(triple_at(where['seed'], where['n'], where['index'], where.get('gen')), where)
        results.append((where, fails, info))
    return results


def replay_case(where):
    fails, info = run_case(triple_at(where['seed'], where['n'], where['index'], where.get('gen')), where)
    want = where.get('kind')
    return [f for f in fails if want is None or f[0] == want]


def run_bounded(res):
    from bounded import c08_harness as H
    q = res.tier == 'quick'
    njobs, ntriples, steps_mod, nsub = (32, 10, 2, 24) if q else (96, 30, 1, 128)
    jobs = [('one', w) for w in subprocess_plan(res.seed, nsub)]
    jobs += [('batch', res.seed * 6007 + s, ntriples, steps_mod) for s in range(njobs)]
    seen = set()
    stats = {'skipped-library-raises': 0, 'skipped-library-result-unserialisable': 0, 'fault-not-reached': 0, 'faults-struck': 0, 'no-fault-runs': 0, 'subprocess-runs': 0,
             'conflicted': 0, 'clean': 0}
    struck = {}
    sampled = set()
    for results in common.pmap(_job, jobs):
        for where, fails, info in results:
            if fails and fails[0][0] == 'GEN':
                raise common.CheckerDefect(fails[0][1])
            if info.get('skipped'):
                stats[{'library merge raises': 'skipped-library-raises', 'library result unserialisable': 'skipped-library-result-unserialisable'}.get(
                    info['skipped'], 'fault-not-reached')] += 1
                continue
            res.count(info['key'] if info.get('distinct') else None)
            if where.get('mode') == 'subproc':
                stats['subprocess-runs'] += 1
            if where.get('fault'):
                if info.get('fired'):
                    stats['faults-struck'] += 1
                    struck[where['fault']] = struck.get(where['fault'], 0) + 1
                else:
                    stats['fault-not-reached'] += 1
            else:
                stats['no-fault-runs'] += 1
                stats['conflicted' if info.get('conflicted') else 'clean'] += 1
            sk = (where['app'], where['mode'], bool(where.get('fault')))
            if sk not in sampled and info.get('distinct'):
                sampled.add(sk)
                res.sample({'app': where['app'], 'layout': where['layout'], 'strategy': where['strategy'], 'fault': where.get('fault'),
                            'mode': where['mode'], 'exit_status': info.get('status'), 'library_conflicted': info.get('conflicted'),
                            'fault_struck': info.get('fired')})
            for kind, detail in fails:
                fid = None
                for prefix, f in KNOWN.items():
                    if common.kind_matches(kind, prefix):
                        fid = f
                if fid:
                    res.known_hit(fid)
                    continue
                if kind in seen:
                    continue
                seen.add(kind)
                w = dict(where, kind=kind)
                res.violation('%s [%s]' % (detail, kind), dict(w, replay_kind='call', module='checks.c08_bounded', function='replay_case', args=[w]))
    # vacuity guard: every fault step must actually have struck somewhere (otherwise the patch points are stale)
    expected_steps = set(H.STEPS_MERGE) | set(H.STEPS_DELBOTH) | set(H.KILL_STEPS)
    missing = sorted(expected_steps - set(struck))
    if missing and not res.violations:
        raise common.CheckerDefect('fault step(s) never struck in any run (patch points stale?): %s' % missing)
    if stats['conflicted'] == 0 or stats['clean'] == 0:
        raise common.CheckerDefect('explored cases do not cover both conflicted and clean merges: %r' % stats)
    res.coverage['stats'] = stats
    res.coverage['faults_struck_per_step'] = struck
    res.coverage['rule'] = (
        'triples (base, local, remote) from bounded/nbspace.triples(seed, n) (valid notebooks, <=3 cells bases, minors 5/4/2, 0..2 random edits per side) '
        'written to files in a temp dir under a layout cycling through: CLI {plain, samestat (local/remote differ but identical size and mtime), empty-base '
        '(zero-byte), null-base (/dev/null), no-base-arg, del-local, del-remote, del-both (/dev/null placeholders)}, driver {plain, samestat, empty-base, '
        'null-base, del-remote}; pre-existing / absent --out file and presence of the pathname argument (%%P) alternate; per (triple, app): 2 strategy tables (9 fixed + random of the '
        '4x5x7x2 CLI flag combinations) without fault -- for half of the plain/samestat layouts a third run adds diff-ignore flags (-S/-O/-A/-M/-I/-D), the library merge then runs with '
        'the same options in force, and for a third of the plain layouts a run with --log-level DEBUG (reference: the library merge at the default level) --, plus ONE fault per run at each step in turn: each non-placeholder input file missing, cut off in the middle, or failing to be read (OSError EIO at '
        'read_notebook / nbformat.read / open), merge_notebooks, 1st and 2nd diff_notebooks, decide_merge_with_diff, apply_decisions (MemoryError / KeyboardInterrupt / RuntimeError), '
        'nbformat.write before writing (ENOSPC), opening the output (ENOSPC), 1st and 2nd write() to it (ENOSPC after half the data), close (EIO), '
        'KeyboardInterrupt after the write; del-both: read of base, os.remove of the output. Real subprocesses (python -m nbdime.nbmergeapp / '
        'nbdime.vcs.git.mergedriver): %d cases over all layouts incl. stdout output (no --out) and SIGKILL at merge / before write, plus 8 cases (named output, stdout, '
        'git driver; conflicted and clean) in a process whose locale encoding is not UTF-8 (LC_ALL=C, UTF-8 mode and coercion off) on notebooks with text outside ASCII. '
        'Cases whose library merge raises are skipped (C03). Non-trivial = local and remote differ as read; distinct by canonical JSON of inputs + '
        'app, layout, strategy, fault.' % nsub)
    res.assumptions.append('bounded: only the stated small scope is explored; faults are injected at Python-level step boundaries by monkey-patching, one per run')
    res.assumptions.append('oracle trusts nbdime.merging.merge_notebooks (C03-C10 cover it), nbformat.reads/writes and the strategy table built by bounded/mergespace.args_for from the CLI flags')
    res.assumptions.append('an exception propagating out of main() is taken as a non-zero exit (CPython semantics); os-level partial writes / power loss below Python file objects are not modelled')
    res.assumptions.append('the git driver is not run with a /dev/null local file (git never does; the agreed-deletion branch would remove /dev/null)')


run = run_bounded


def replay(path):
    return common.replay_file(path)
