"""C19 -- option resolution follows flag > most specific config section > default.
Proof part: Tier E layering obligations of build_config + finite per-entry-point obligations over the class table read from
the current source; recursive_update's value semantics and the argparse interaction are covered by the bounded model check."""
from . import common, tier_e

LEVEL = 'other'


def run(res):
    from contracts import kit_e
    st = kit_e.c19_static_obligations(common.REPO)
    if len(st) < 10:
        raise common.CheckerDefect('static C19 obligations missing')
    res.obligations += len(st)
    bad = [t for t, ok in st if not ok]
    res.discharged += len(st) - len(bad)
    res.backends['finite-check(class table from AST, C3 linearisation)'] = len(st) - len(bad)
    res.functions['nbdime.config <section class table>'] = 'proved' if not bad else 'failed'
    res.sample({'finite_obligation': st[-1][0]})
    for t in bad[:3]:
        res.violation('resolution-order obligation fails: %s' % t, {'obligation': 'c19-static', 'text': t, 'kind': 'failed-finite-obligation'}, no_input=True)
    tier_e.run(res, kit_e.C19_JOBS, 'c19_bounded',
               'Proved: on every path of build_config the files are loaded with the working directory first in the priority list, all built-in defaults are layered into '
               '`config` before any disk section, each default layer is config_instance(c).configured_traits(c) and each section layer disk_config[c.__name__] of the class '
               'being visited, with the caller\'s include_none, and the layered dict is returned; the loops walk reversed(mro()) / path[::-1]; for each of the 11 entry points '
               'the documented sections occur most-specific-first in the C3 resolution order computed from the class statements. NOT proved (bounded model check only): '
               'recursive_update\'s per-key merge semantics (Ignore merging, None deleting), traitlets defaults, the argparse default/flag interaction.')
    res.assumptions.append('traitlets class_own_traits/config tagging and argparse set_defaults behave as documented (assumed; exercised by the bounded model check)')


def replay(path):
    return common.replay_file(path)
