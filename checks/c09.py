"""C09 -- merge decisions are lossless, schema-conformant and ordered (bounded stand-in; sort-key proof below when available)."""
import logging
import random

from . import common, mergecommon

LEVEL = 'other'


def _side_job(job):
    seed, ntriples = job
    logging.disable(logging.CRITICAL)
    from bounded import nbspace, mergespace, mergeoracles as mo
    from nbdime.merging.notebooks import decide_notebook_merge
    from nbdime.merging.decisions import apply_decisions
    import copy
    out, n = [], 0
    args = mergespace.args_for('mergetool')
    for ti, (b, l, r) in enumerate(nbspace.triples(seed, ntriples, max_edits=3)):
        try:
            decisions = decide_notebook_merge(b, l, r, args)
        except Exception:
            continue                       # crashes are C03's business
        n += 1
        for side, want in (('local', l), ('remote', r)):
            ds = copy.deepcopy(decisions)
            for d in ds:
                # a side that did not change this part of the document has no diff: taking that side = keeping base
                d['action'] = side if d.get(side + '_diff') else 'base'
                d['conflict'] = False
            try:
                got = apply_decisions(b, ds)
            except Exception as exc:
                out.append(('side-crash:' + mo.exc_site(exc), 'choosing %s for every decision raised %s' % (side, mo.exc_summary(exc)),
                            {'seed': seed, 'triple': ti, 'ntriples': ntriples, 'side': side}))
                continue
            if nbspace.canon(got) != nbspace.canon(want):
                from bounded.difforacles import first_difference
                out.append(('side:' + side, 'choosing %s for every decision does not reproduce the %s notebook: %s'
                            % (side, side, first_difference(nbspace.to_plain(got), nbspace.to_plain(want))),
                            {'seed': seed, 'triple': ti, 'ntriples': ntriples, 'side': side}))
    return n, out


def replay_side(where):
    n, out = _side_job((where['seed'], where['ntriples']))
    return [o for o in out if o[2]['triple'] == where['triple']]


def order_part(res):
    from contracts import kit_e
    sites = kit_e.c09_order_obligations(common.REPO)
    if not sites:
        raise common.CheckerDefect('no ordering obligations generated')
    unrecognised = [t for t, ok, kind in sites if not ok and kind == 'shape']
    if unrecognised:
        res.functions['nbdime.merging.decisions._sort_key / MergeDecisionBuilder.validated'] = 'out-of-subset'
        res.notes.append('ordering clause: code not in the recognised form (%s) -- no structural statement for this run, the bounded ordering oracle decides'
                         % '; '.join(unrecognised))
        return
    res.obligations += len(sites)
    bad = [t for t, ok, kind in sites if not ok]
    res.discharged += len(sites) - len(bad)
    res.backends['structure scan(syntactic)'] = len(sites) - len(bad)
    res.functions['nbdime.merging.decisions._sort_key / MergeDecisionBuilder.validated'] = 'proved' if not bad else 'failed'
    for t in bad[:3]:
        res.violation('ordering obligation fails: %s' % t, {'obligation': 'decision ordering', 'kind': 'failed-structure-obligation', 'text': t}, no_input=True)
    res.assumptions.append('ordering clause: Python compares lists lexicographically with a proper prefix smaller, tuples likewise; sorted(reverse=True) '
                           'returns the items in non-increasing key order (language semantics, assumed)')


def run(res):
    order_part(res)
    mergecommon.run_merge_cases(res, {'C03', 'C09'}, 'C09', {}, quick=(48, 60, 14), thorough=(128, 100, 282))
    nseeds, ntriples = (48, 80) if res.tier == 'quick' else (128, 200)
    seen = set()
    for n, fails in common.pmap(_side_job, [(res.seed * 104729 + s, ntriples) for s in range(nseeds)]):
        res.evaluations += n
        for kind, detail, where in fails:
            if kind in seen:
                continue
            seen.add(kind)
            res.violation(detail + ' [%s]' % kind, dict(where, replay_kind='call', module='checks.c09', function='replay_side', args=[where]))
    from . import c12
    for kind, text, where in c12.frame_obligations(res, ('nbdime.webapp',)):
        res.violation('frame obligation fails: %s' % text, {'kind': 'failed-frame-obligation', 'obligation': where, 'detail': text}, no_input=True)
    from . import c20_bounded
    c20_bounded.web_part(res, ('merge-not-library', 'history-dependence:merge'), 5,
                         'C09 clause: the merge_decisions in the body of POST /api/merge are decide_notebook_merge (web tool strategy) of the three files as they are on disk at the time of the request.')
    res.assumptions.append('bounded: only the stated small scope is explored')
    res.coverage['rule'] += ' Lossless clause: decisions under the web tool strategy (mergetool), every decision re-labelled local (resp. remote) and applied with the real apply_decisions, compared with the local (remote) notebook.'


def replay(path):
    return common.replay_file(path)
