"""C17 -- diffing git revisions / index / working tree examines exactly the notebooks git reports as changed, pairs
each with its content on either side, skips non-notebooks and leaves the caller's working directory alone
(bounded run-time contract: random small real git repositories; oracle = `git diff --name-status -z`, `git show`,
working-tree files; nbdime is run in-process after os.chdir into the temporary repository)."""
import contextlib
import io
import json
import os
import posixpath
import random
import re
import sys
import traceback

from . import common

LEVEL = 'exploration'

KNOWN = {}

MODULE = 'checks.c17_bounded'
# failure kinds (stable names):
#   missing-entry              a notebook entry git reports is not yielded (CLI: no diff printed / no --out file written for it)
#   extra-entry                a yielded pair corresponds to nothing git reports (e.g. an untracked or unchanged notebook)
#   wrong-content              the right entry, but one side's stream differs from git's blob / the working file / the null file
#   non-notebook-included      a non-*.ipynb file is yielded
#   cwd-changed-after          os.getcwd() differs after the generator is exhausted (or after nbdiffapp.main returns)
#   cwd-changed-during         os.getcwd() differs inside the consumer's loop body
#   cwd-changed-after-abandon  os.getcwd() differs after break+close / break+del / an exception in the loop body / gen.throw
#   filter-ignored             with a path filter: entries outside the filter are yielded, or entries inside it are missed
#                              although the same filter spelled relative to the repository root (from the root) finds them
#   cli-out-misplaced          nbdiffapp.main run from a sub-directory wrote its relative --out file somewhere else
#   crash:<Exc>@<file>:<func>  changed_notebooks raised;  crash:cli:<...>  nbdiffapp.main raised / returned non-zero
KINDS = ['missing-entry', 'extra-entry', 'wrong-content', 'non-notebook-included', 'cwd-changed-after',
         'cwd-changed-during', 'cwd-changed-after-abandon', 'filter-ignored', 'cli-out-misplaced', 'crash:<site>']
ABANDON_MODES = ['break-close', 'break-del', 'raise-in-body', 'gen-throw']


class _Boom(Exception):
    "raised by the consumer inside the loop body"


def _exc_site(exc):
    tb = traceback.extract_tb(exc.__traceback__)
    frames = [f for f in tb if '/nbdime/' in f.filename.replace(os.sep, '/')]
    last = frames[-1] if frames else tb[-1]
    return '%s@%s:%s' % (type(exc).__name__, os.path.basename(last.filename), last.name)


@contextlib.contextmanager
def _quiet_fd2():
    """nbdime spawns `git check-attr` etc. inheriting fd 2; keep their complaints (after a mis-set cwd) off the report"""
    try:
        sys.stderr.flush()
    except Exception:
        pass
    saved = os.dup(2)
    null = os.open(os.devnull, os.O_WRONLY)
    try:
        os.dup2(null, 2)
        yield
    finally:
        os.dup2(saved, 2)
        os.close(saved)
        os.close(null)


def _exc_text(exc):
    return '%s: %s' % (type(exc).__name__, str(exc).replace('\n', ' ')[:200])


# ------------------------------------------------------------------------------------------------------
# case enumeration (pure function of the repository description and a seed)

def _ref_name(rnd, info, idx):
    """some spelling of commit number idx"""
    n = len(info['commits'])
    forms = [info['commits'][idx], info['commits'][idx][:12]]
    back = n - 1 - idx
    forms.append('HEAD' if back == 0 else 'HEAD~%d' % back)
    if back == 0:
        forms.append('main')
    for t, c in info['tags'].items():
        if c == idx:
            forms.append(t)
    return rnd.choice(forms)


def _filters_for(rnd, info, cwd):
    """path filters relative to cwd: files and directories below it (from every path that ever existed), '.', a name
    that never existed, a glob, two filters at once, and one pointing outside through '..'"""
    prefix = cwd + '/' if cwd else ''
    below = [p[len(prefix):] for p in info['ever'] if p.startswith(prefix)]
    nbs = [p for p in below if p.endswith('.ipynb')]
    direct = [p for p in nbs if '/' not in p]
    subdirs = sorted({p.split('/')[0] for p in below if '/' in p})
    out = []
    if direct:
        out.append([rnd.choice(direct)])
    if nbs:
        out.append([rnd.choice(nbs)])
    if subdirs:
        out.append([rnd.choice(subdirs)])
        out.append([rnd.choice(subdirs) + '/'])
    if below:
        out.append([rnd.choice(below)])
        if len(below) > 1:
            out.append(rnd.sample(below, 2))
    out.append(['.'])
    out.append(['nonexistent.ipynb'])
    out.append(['*.ipynb'])
    if cwd:
        others = [p for p in info['ever'] if not p.startswith(prefix)]
        if others:
            up = '/'.join(['..'] * len(cwd.split('/')))
            out.append([up + '/' + rnd.choice(others)])
    seen, uniq = set(), []
    for f in out:
        if tuple(f) not in seen:
            seen.add(tuple(f))
            uniq.append(f)
    return uniq


def enumerate_cases(info, seed, quick):
    """list of case dicts {kind, refs (spellings), idx (commit numbers), cwd, paths, paths_as}"""
    from bounded import c17_repos as R
    rnd = random.Random(seed * 7919 + 13)
    n = len(info['commits'])
    pairs = []
    cc = [(i, j) for i in range(n) for j in range(n) if i != j]
    rnd.shuffle(cc)
    keep = [(0, n - 1), (n - 2, n - 1), (n - 1, 0)]
    for p in cc:
        if len(keep) >= (4 if quick else 8):
            break
        if p not in keep:
            keep.append(p)
    seen = set()
    for i, j in keep:
        if (i, j) not in seen:
            seen.add((i, j))
            pairs.append(('cc', [i, j]))
    pairs.append(('cc', [n - 1, n - 1]))          # identical refs: nothing changed
    singles = [n - 1] + rnd.sample(range(n - 1), min(n - 1, 1 if quick else 3))
    for k in ('ci', 'cw'):
        for i in singles:
            pairs.append((k, [i]))
    pairs.append(('iw', []))
    cases = []
    for kind, idx in pairs:
        cwds = list(R.CWDS)
        if quick:
            cwds = [''] + rnd.sample(['pkg', 'other'], 1) + rnd.sample(['pkg/docs', 'pkg/sub', 'other/deep'], 2)
        for cwd in cwds:
            filters = _filters_for(rnd, info, cwd)
            chosen = [None] + rnd.sample(filters, min(len(filters), 2 if quick else 5))
            for paths in chosen:
                refs = [_ref_name(rnd, info, i) for i in idx]
                paths_as = 'none'
                if paths is not None:
                    paths_as = 'str' if (len(paths) == 1 and rnd.random() < 0.4) else rnd.choice(['list', 'tuple'])
                cases.append({'kind': kind, 'idx': idx, 'refs': refs, 'cwd': cwd, 'paths': paths, 'paths_as': paths_as})
    return cases


# ------------------------------------------------------------------------------------------------------
# observing nbdime

def _describe(f, null_name):
    """(content or NULL, display name) of one side of a yielded pair; closes file objects"""
    from bounded.c17_repos import NULL
    if isinstance(f, str):
        if f == null_name:
            return NULL, f
        try:
            with io.open(f, encoding='utf-8', newline='') as fh:
                return fh.read(), f
        except (IOError, OSError):
            return '<unreadable path %r from %s>' % (f, os.getcwd()), f
    name = getattr(f, 'name', '')
    try:
        text = f.read()
    finally:
        try:
            f.close()
        except Exception:
            pass
    return text, name


def _call_args(case):
    import nbdime.gitfiles as gf
    kind, refs = case['kind'], case['refs']
    if kind == 'cc':
        a, b = refs
    elif kind == 'ci':
        a, b = refs[0], gf.GitRefIndex
    elif kind == 'cw':
        a, b = refs[0], gf.GitRefWorkingTree
    else:
        a, b = gf.GitRefIndex, gf.GitRefWorkingTree
    paths = case['paths']
    if paths is not None:
        if case['paths_as'] == 'str':
            paths = paths[0]
        elif case['paths_as'] == 'tuple':
            paths = tuple(paths)
        else:
            paths = list(paths)
    return a, b, paths


def _observe(case, cwd_abs, mode, explicit_repo_dir=None):
    """Run changed_notebooks for `case` from cwd_abs as a consumer would, in the given consumption mode.
    Returns dict(pairs=[((a_text,a_name),(b_text,b_name))...], during=[cwd seen in the loop body...], after=cwd, exc=exception|None).
    The harness' own cwd is restored in every case."""
    import nbdime.gitfiles as gf
    from nbdime.utils import EXPLICIT_MISSING_FILE
    a, b, paths = _call_args(case)
    obs = {'pairs': [], 'during': [], 'after': None, 'exc': None, 'yielded': 0}
    os.chdir(cwd_abs)
    before = os.getcwd()
    if before != cwd_abs:
        raise common.CheckerDefect('scratch path %r is not canonical (%r)' % (cwd_abs, before))
    # explicit_repo_dir: the caller (e.g. the server extension) names the directory the filters are relative to and runs from elsewhere
    extra = {} if explicit_repo_dir is None else {'repo_dir': explicit_repo_dir}

    def body(pair):
        obs['yielded'] += 1
        now = os.getcwd()
        fa, fb = pair
        da = _describe(fa, EXPLICIT_MISSING_FILE)
        db = _describe(fb, EXPLICIT_MISSING_FILE)
        obs['pairs'].append((da, db))
        later = os.getcwd()
        if now != before or later != before:
            obs['during'].append(now if now != before else later)

    def drive():
        if mode == 'exhaust':
            for pair in gf.changed_notebooks(a, b, paths, **extra):
                body(pair)
        elif mode == 'break-close':
            gen = gf.changed_notebooks(a, b, paths)
            for pair in gen:
                body(pair)
                break
            gen.close()
        elif mode == 'break-del':
            gen = gf.changed_notebooks(a, b, paths)
            for pair in gen:
                body(pair)
                break
            del gen
            pair = None
        elif mode == 'raise-in-body':
            try:
                for pair in gf.changed_notebooks(a, b, paths):
                    body(pair)
                    raise _Boom()
            except _Boom:
                pass
        elif mode == 'gen-throw':
            gen = gf.changed_notebooks(a, b, paths)
            try:
                for pair in gen:
                    body(pair)
                    gen.throw(_Boom())
            except _Boom:
                pass
            del gen
        else:
            raise common.CheckerDefect('unknown mode %r' % mode)

    try:
        try:
            with _quiet_fd2():
                drive()
        except common.CheckerDefect:
            raise
        except Exception as exc:       # raised by nbdime / GitPython under nbdime
            obs['exc'] = exc
        obs['after'] = os.getcwd()
    finally:
        os.chdir(cwd_abs)
    obs['before'] = before
    return obs


def _name_path(name):
    """path part of a stream name ('<path> (<ref>)' for blobs, '<path>' for working-tree files)"""
    if not isinstance(name, str):
        return None
    if name.endswith(')') and ' (' in name:
        return name.rsplit(' (', 1)[0]
    return name


def _short(text):
    from bounded.c17_repos import NULL
    if text == NULL:
        return 'null-file'
    for ln in text.split('\n'):
        if 'version T' in ln or ln.startswith('T'):
            return ln.strip()[:40]
    return repr(text[:40])


def _sides(case, info):
    k = case['kind']
    c = info['commits']
    if k == 'cc':
        return c[case['idx'][0]], c[case['idx'][1]]
    if k == 'ci':
        return c[case['idx'][0]], 'INDEX'
    if k == 'cw':
        return c[case['idx'][0]], 'WT'
    return 'INDEX', 'WT'


def _oracle_refs(case, info):
    """the oracle is given full shas, never the spelling handed to nbdime"""
    return [info['commits'][i] for i in case['idx']]


def _label(case):
    k = {'cc': 'commit/commit', 'ci': 'commit/index', 'cw': 'commit/working tree', 'iw': 'index/working tree'}[case['kind']]
    return '%s %r from cwd=<repo>/%s paths=%r' % (k, case['refs'], case['cwd'], case['paths'])


def check_case(root, info, contents, case, modes):
    """returns (failures [(kind, text)], n_required_expected, any_notebook_change_unfiltered)"""
    from bounded import c17_repos as R
    cwd_abs = os.path.join(root, *case['cwd'].split('/')) if case['cwd'] else root
    sides = _sides(case, info)
    refs = _oracle_refs(case, info)
    req, opt, skip = R.expected_entries(root, contents, case['cwd'], case['kind'], refs, sides, case['paths'])
    fails = []
    lab = _label(case)

    def fail(kind, text):
        fails.append((kind, '%s: %s' % (lab, text)))

    unf_req = req
    if case['paths'] is not None:
        unf_req, unf_opt, unf_skip = R.expected_entries(root, contents, case['cwd'], case['kind'], refs, sides, None)
    if 'exhaust' in modes:
        obs = _observe(case, cwd_abs, 'exhaust')
        if obs['exc'] is not None:
            fail('crash:' + _exc_site(obs['exc']), 'changed_notebooks raised %s' % _exc_text(obs['exc']))
        if obs['during']:
            fail('cwd-changed-during', 'while the caller handles yielded pair the working directory is %r, not %r'
                 % (obs['during'][0], obs['before']))
        if obs['after'] != obs['before']:
            fail('cwd-changed-after', 'after exhausting the generator the working directory is %r, was %r'
                 % (obs['after'], obs['before']))
        if obs['exc'] is None:
            # ---- entries: match by the pair of contents (every written file version is unique in the repository)
            remaining = list(req)
            tolerated = list(opt)
            nonnb_contents = {}
            for e in skip + (unf_skip if case['paths'] is not None else []):
                for t in (e['a'], e['b']):
                    if t != R.NULL:
                        nonnb_contents[t] = e
            unmatched = []
            for (da, db) in obs['pairs']:
                hit = next((e for e in remaining if e['a'] == da[0] and e['b'] == db[0]), None)
                if hit is not None:
                    remaining.remove(hit)
                    continue
                # a rename between a notebook name and a non-notebook name: tolerated however it is presented
                tol = next((e for e in tolerated if (da[0] in (e['a'], R.NULL)) and (db[0] in (e['b'], R.NULL))), None)
                if tol is not None:
                    tolerated.remove(tol)
                    continue
                unmatched.append((da, db))
            filter_blamed = False
            for (da, db) in unmatched:
                pa, pb = _name_path(da[1]), _name_path(db[1])
                shown = '(%s [%s], %s [%s])' % (da[1], _short(da[0]), db[1], _short(db[0]))
                nonnb = (da[0] in nonnb_contents or db[0] in nonnb_contents or
                         any(p and da_t != R.NULL and not p.endswith('.ipynb') for p, da_t in ((pa, da[0]), (pb, db[0]))))
                same_paths = next((e for e in remaining if
                                   (e['a'] == R.NULL) == (da[0] == R.NULL) and (e['b'] == R.NULL) == (db[0] == R.NULL) and
                                   (da[0] == R.NULL or pa == e['a_path']) and (db[0] == R.NULL or pb == e['b_path'])), None)
                outside = None
                if case['paths'] is not None:
                    outside = next((e for e in unf_req if e['a'] == da[0] and e['b'] == db[0]), None)
                if nonnb:
                    fail('non-notebook-included', 'a non-notebook file is yielded as a notebook pair %s' % shown)
                elif same_paths is not None:
                    remaining.remove(same_paths)
                    which = 'base' if same_paths['a'] != da[0] else 'remote'
                    fail('wrong-content', 'entry %s -> %s (git status %s): %s side content is [%s], git has [%s]'
                         % (same_paths['a_path'], same_paths['b_path'], same_paths['status'], which,
                            _short(da[0] if which == 'base' else db[0]),
                            _short(same_paths['a'] if which == 'base' else same_paths['b'])))
                elif outside is not None:
                    filter_blamed = True
                    fail('filter-ignored', 'pair %s lies outside the path filter (git reports it only without the filter)' % shown)
                else:
                    fail('extra-entry', 'yielded pair %s is not among the %d notebook entries git reports' % (shown, len(req)))
            if remaining:
                e = remaining[0]
                txt = ('%d of %d notebook entries git reports are not examined, e.g. %s %s -> %s; yielded %d pair(s)'
                       % (len(remaining), len(req), e['status'], e['a_path'], e['b_path'], len(obs['pairs'])))
                kind = 'missing-entry'
                if case['paths'] is not None and filter_blamed:
                    kind = 'filter-ignored'
                    txt += ' (entries outside the filter are examined instead)'
                elif case['paths'] is not None and case['cwd']:
                    # Is the filter, or the entry, what is mishandled?  Ask again from the repository root with the same
                    # filter spelled relative to the root: if that is complete, resolving the filter against the cwd fails.
                    rooted = [posixpath.normpath(case['cwd'] + '/' + p) for p in case['paths']]
                    c2 = dict(case, cwd='', paths=rooted, paths_as='list')
                    o2 = _observe(c2, root, 'exhaust')
                    if o2['exc'] is None:
                        got = [(da[0], db[0]) for da, db in o2['pairs']]
                        if all((e['a'], e['b']) in got for e in remaining):
                            kind = 'filter-ignored'
                            txt += (' (the same filter spelled relative to the repository root, %r from <repo>/, is handled: the filter is not '
                                    'resolved against the directory nbdime is run from)' % (rooted,))
                fail(kind, txt)
    # ---- the same request with an explicit repo_dir, run from another directory (inside and outside the repository)
    # (only repo_dir = the repository root, which is how nbdime's own server extension calls it; nothing is stated for a sub-directory)
    if 'exhaust' in modes and obs['exc'] is None and not fails and not case['cwd']:
        want = sorted((da[0], db[0]) for da, db in obs['pairs'])
        elsewhere = [os.path.dirname(root)]
        inside = next((os.path.join(root, d) for d in ('pkg', 'other') if os.path.isdir(os.path.join(root, d))), None)
        if inside:
            elsewhere.append(inside)
        for other in elsewhere:
            o3 = _observe(case, other, 'exhaust', explicit_repo_dir=cwd_abs)
            where = 'outside the repository' if other == os.path.dirname(root) else '<repo>/%s' % os.path.relpath(other, root).replace('.', '')
            if o3['exc'] is not None:
                fail('repo-dir-ignored', 'with repo_dir=<repo>/%s given explicitly and the process running from %s, changed_notebooks raised %s'
                     % (case['cwd'], where, _exc_text(o3['exc'])))
            elif sorted((da[0], db[0]) for da, db in o3['pairs']) != want:
                fail('repo-dir-ignored', 'with repo_dir=<repo>/%s given explicitly and the process running from %s, %d pair(s) are examined instead of the %d '
                     'examined when run from that directory (filters are relative to repo_dir)' % (case['cwd'], where, len(o3['pairs']), len(want)))
            elif o3['after'] != o3['before']:
                fail('cwd-changed-after', 'explicit repo_dir: the working directory is %r afterwards, was %r' % (o3['after'], o3['before']))
    # ---- abandoning the generator early
    for mode in modes:
        if mode == 'exhaust' or not req:
            continue
        obs = _observe(case, cwd_abs, mode)
        if obs['exc'] is not None:
            fail('crash:' + _exc_site(obs['exc']), 'changed_notebooks (%s) raised %s' % (mode, _exc_text(obs['exc'])))
            continue
        if obs['yielded'] and obs['after'] != obs['before']:
            fail('cwd-changed-after-abandon', 'after abandoning the generator (%s) after the first pair the working directory is %r, was %r'
                 % (mode, obs['after'], obs['before']))
    return fails, len(req), bool(unf_req), (req, opt, skip)


# ------------------------------------------------------------------------------------------------------
# the command line path

def _find_out(top, cwd_abs, name):
    """every place the (uniquely named) --out file exists: the scratch tree, and -- should a mis-set cwd have escaped it --
    the ancestors of the scratch directory"""
    found = []
    for d, dirs, files in os.walk(top):
        if '.git' in dirs:
            dirs.remove('.git')
        if name in files:
            found.append(os.path.join(d, name))
    d = os.path.dirname(top)
    while True:
        if os.path.isfile(os.path.join(d, name)):
            found.append(os.path.join(d, name))
        if os.path.dirname(d) == d:
            break
        d = os.path.dirname(d)
    return found


def _rel(root, p):
    r = os.path.relpath(p, root)
    return '<repo>/' + ('' if r == '.' else r)


def check_cli(top, root, info, contents, cli):
    """cli: {'kind','idx','refs','cwd','paths','out'}.  Run nbdime.nbdiffapp.main from a sub-directory."""
    from bounded import c17_repos as R
    import nbdime.nbdiffapp as app
    cwd_abs = os.path.join(root, *cli['cwd'].split('/')) if cli['cwd'] else root
    argv = list(cli['refs']) + list(cli['paths'] or [])
    if cli['out']:
        argv += ['--out', cli['out']]
    sides = _sides(cli, info)
    req, opt, skip = R.expected_entries(root, contents, cli['cwd'], cli['kind'], _oracle_refs(cli, info), sides, cli['paths'])
    fails = []
    lab = 'nbdiffapp.main(%r) from cwd=<repo>/%s' % (argv, cli['cwd'])
    want_out = os.path.join(cwd_abs, cli['out']) if cli['out'] else None
    if cli['out'] and _find_out(top, cwd_abs, cli['out']):
        raise common.CheckerDefect('output file %s exists before the run: %r' % (cli['out'], _find_out(top, cwd_abs, cli['out'])))
    so, se = sys.stdout, sys.stderr
    buf = io.StringIO()
    os.chdir(cwd_abs)
    before = os.getcwd()
    exc = None
    status = None
    try:
        try:
            with _quiet_fd2(), contextlib.redirect_stdout(buf), contextlib.redirect_stderr(io.StringIO()):
                status = app.main(argv)
        except common.CheckerDefect:
            raise
        except BaseException as e:      # SystemExit from argparse included
            exc = e
        after = os.getcwd()
    finally:
        sys.stdout, sys.stderr = so, se
        os.chdir(cwd_abs)
    try:
        if exc is not None:
            fails.append(('crash:cli:' + _exc_site(exc), '%s raised %s' % (lab, _exc_text(exc))))
            return fails, len(req)
        if after != before:
            fails.append(('cwd-changed-after', '%s: the working directory afterwards is %r, was %r' % (lab, after, before)))
        if status != 0:
            fails.append(('crash:cli:status', '%s returned status %r; output: %s' % (lab, status, buf.getvalue()[:200])))
            return fails, len(req)
        if cli['out']:
            found = _find_out(top, cwd_abs, cli['out'])
            elsewhere = [p for p in found if p != want_out]
            if req:
                if elsewhere:
                    fails.append(('cli-out-misplaced', '%s: with %d changed notebook(s) the relative --out file must be written below the directory the '
                                  'command is run from (<repo>/%s); it was written to %s%s' % (
                                      lab, len(req), cli['cwd'], ', '.join(_rel(root, p) for p in elsewhere),
                                      '' if want_out in found else ' instead')))
                elif want_out not in found:
                    e = req[0]
                    fails.append(('missing-entry', '%s: no --out file was written anywhere although git reports %d changed notebook(s), e.g. %s %s -> %s'
                                  % (lab, len(req), e['status'], e['a_path'], e['b_path'])))
                else:
                    with open(want_out) as fh:
                        try:
                            json.load(fh)
                        except ValueError:
                            fails.append(('crash:cli:out-not-json', '%s: the --out file is not JSON' % lab))
            elif found and not opt:
                fails.append(('extra-entry', '%s: an --out file was written (%s) although git reports no changed notebook'
                              % (lab, ', '.join(_rel(root, p) for p in found))))
        else:
            # one header per examined pair whose notebooks differ
            heads = [ln for ln in re.sub(r'\x1b\[[0-9;]*m', '', buf.getvalue()).split('\n') if ln.startswith('nbdiff ')]
            differing = [e for e in req if e['a'] != e['b']]
            maybe = [e for e in opt]
            if len(heads) < len(differing):
                miss = [e for e in differing if not any(
                    (e['a'] == R.NULL or e['a_path'] in h) and (e['b'] == R.NULL or e['b_path'] in h) for h in heads)]
                e = (miss or differing)[0]
                fails.append(('missing-entry', '%s: printed %d diff header(s) for %d changed notebook(s) git reports, e.g. no diff for %s -> %s'
                              % (lab, len(heads), len(differing), e['a_path'], e['b_path'])))
            elif len(heads) > len(differing) + len(maybe):
                fails.append(('extra-entry', '%s: printed %d diff header(s), git reports only %d changed notebook(s): %r'
                              % (lab, len(heads), len(differing), heads[:4])))
    finally:
        if cli['out']:
            for p in _find_out(top, cwd_abs, cli['out']):
                os.remove(p)
    return fails, len(req)


def cli_cases(info, seed, cases_info, quick):
    outname = 'c17-rel-%d.json' % seed
    """CLI invocations for this repository: --out from a sub-directory for commit/commit and commit/working tree (the
    latter is where nbdime switches directories), and one stdout run with a path filter."""
    rnd = random.Random(seed * 104729 + 5)
    n = len(info['commits'])
    out = []
    subs = ['pkg/docs', 'pkg', 'other/deep', 'pkg/sub', 'other']
    rnd.shuffle(subs)
    # commit/working tree, remote omitted on the command line (=> working tree), refs spelled HEAD~k
    base = rnd.randrange(n)
    back = n - 1 - base
    spelled = 'HEAD' if back == 0 else 'HEAD~%d' % back
    out.append({'kind': 'cw', 'idx': [base], 'refs': [spelled], 'cwd': subs[0], 'paths': None, 'out': outname})
    out.append({'kind': 'cc', 'idx': [0, n - 1], 'refs': [info['commits'][0], 'HEAD'], 'cwd': subs[1], 'paths': None, 'out': outname})
    out.append({'kind': 'cc', 'idx': [0, n - 1], 'refs': [info['commits'][0][:10], 'HEAD'], 'cwd': subs[2], 'paths': ['.'], 'out': None})
    if not quick:
        out.append({'kind': 'cw', 'idx': [0], 'refs': [info['commits'][0]], 'cwd': subs[3], 'paths': ['.'], 'out': None})
        out.append({'kind': 'cw', 'idx': [base], 'refs': [spelled], 'cwd': '', 'paths': None, 'out': outname})
    return out


# ------------------------------------------------------------------------------------------------------
# jobs

def _job(job):
    """one repository: build it, enumerate and check all its cases.  job = (repo_seed, quick, only)
    only: None | ('case', index, modes) | ('cli', index)"""
    from bounded import c17_repos as R
    repo_seed, quick, only = job
    top, root, home = R.mkscratch()
    start = os.getcwd()
    fails, cnt, keys, samples = [], 0, [], []
    try:
        with R.isolated_environ(home):
            try:
                info = R.build_repo(root, repo_seed)
            except R.HarnessError as exc:
                return {'defect': 'repository %d could not be built: %s' % (repo_seed, exc)}
            import nbdime.gitfiles  # noqa: F401  (after the environment is isolated: GitPython looks for git at import)
            contents = R.Contents(root)
            cases = enumerate_cases(info, repo_seed, quick)
            rnd = random.Random(repo_seed * 31 + 7)
            try:
                for ci, case in enumerate(cases):
                    if only is not None and (only[0] != 'case' or only[1] != ci):
                        continue
                    modes = ['exhaust']
                    if only is not None:
                        modes = only[2]
                    elif rnd.random() < (0.5 if quick else 0.7):
                        modes = ['exhaust'] + rnd.sample(ABANDON_MODES, 2)
                    f, nreq, anynb, (req, opt, skip) = check_case(root, info, contents, case, modes)
                    cnt += 1
                    if nreq or anynb:
                        keys.append((repo_seed, ci))
                    if nreq >= 2 and case['cwd'] and len(samples) < 1:
                        samples.append({'repo_seed': repo_seed, 'history': info['log'][:12], 'case': _label(case),
                                        'git_reports': ['%s %s -> %s' % (e['status'], e['a_path'], e['b_path']) for e in req + opt + skip][:8],
                                        'notebook_entries': nreq, 'modes': modes})
                    for kind, text in f:
                        text = text.replace(root, '<repo>').replace(top, '<scratch>')
                        fails.append((kind, text, {'repo_seed': repo_seed, 'quick': quick, 'site': 'case', 'index': ci,
                                                   'modes': modes, 'kind': kind, 'case': case,
                                                   'history': info['log']}))
                for xi, cli in enumerate(cli_cases(info, repo_seed, cases, quick)):
                    if only is not None and (only[0] != 'cli' or only[1] != xi):
                        continue
                    f, nreq = check_cli(top, root, info, contents, cli)
                    cnt += 1
                    if nreq:
                        keys.append((repo_seed, 'cli', xi))
                    for kind, text in f:
                        text = text.replace(root, '<repo>').replace(top, '<scratch>')
                        fails.append((kind, text, {'repo_seed': repo_seed, 'quick': quick, 'site': 'cli', 'index': xi,
                                                   'kind': kind, 'case': cli, 'history': info['log']}))
            except R.HarnessError as exc:
                return {'defect': 'oracle failure in repository %d: %s' % (repo_seed, exc)}
    finally:
        try:
            os.chdir(start)
        except OSError:
            os.chdir('/')
        R.rmscratch(top)
    return {'cnt': cnt, 'fails': fails, 'keys': keys, 'samples': samples}


def replay_case(where):
    only = ('cli', where['index']) if where.get('site') == 'cli' else ('case', where['index'], where.get('modes') or ['exhaust'])
    out = _job((where['repo_seed'], where.get('quick', True), only))
    if 'defect' in out:
        raise common.CheckerDefect(out['defect'])
    if out['cnt'] != 1:
        raise common.CheckerDefect('replay selected %d cases' % out['cnt'])
    return [(k, t) for k, t, w in out['fails'] if not where.get('kind') or k == where['kind']]


def run_bounded(res):
    q = res.tier == 'quick'
    nrepos = 48 if q else 160
    jobs = [(res.seed * 100003 + 17 * s + 1, q, None) for s in range(nrepos)]
    seen = set()
    for out in common.pmap(_job, jobs):
        if 'defect' in out:
            raise common.CheckerDefect(out['defect'])
        res.evaluations += out['cnt']
        res.nontrivial.update(out['keys'])
        for s in out['samples']:
            res.sample(s)
        for kind, text, where in out['fails']:
            fid = None
            for prefix, f in KNOWN.items():
                if common.kind_matches(kind, prefix):
                    fid = f
            if fid:
                res.known_hit(fid)
                continue
            if kind in seen:
                continue
            seen.add(kind)
            res.violation('%s [%s]' % (text, kind), dict(where, replay_kind='call', module=MODULE, function='replay_case', args=[where]))
    res.coverage['rule'] = (
        '%d random repositories built with the real git in temp dirs (2-6 commits of 1-4 operations each: add / small edit / rewrite / delete / '
        'rename / rename+edit of tiny valid notebooks (*.ipynb, names with a space and extra dots) and non-notebooks (txt, py, md, "x.ipynb.bak", '
        '"data.ipynbx", "ipynb", notebook-shaped "nb.json") in "", pkg/, pkg/docs/, pkg/sub/, other/, other/deep/, other/deep/er/; then 0-3 staged '
        '(add, edit, rm, mv) and 0-3 unstaged (edit, delete, untracked file, intent-to-add) working-tree changes, also on top of staged ones). '
        'Per repository: ref pairs commit/commit (%s incl. first/last, reversed and identical), commit/index, commit/working tree (HEAD and %s other), '
        'index/working tree; refs spelled as sha, short sha, HEAD~k, branch or tag; cwd in %s; paths None plus %s filters relative to the cwd (notebook in cwd, nested '
        'notebook, sub-directory with/without slash, any file, two paths, ".", never-existing name, "*.ipynb", "../"-path outside the cwd) passed as str/list/tuple. '
        'Each case: changed_notebooks consumed to exhaustion with the streams read inside the loop body and os.getcwd() sampled in the body and afterwards; '
        'a random %s of the cases with >=1 expected entry also abandon the generator after the first pair (break+close, break+del, exception raised in the '
        'loop body, gen.throw). Oracle: `git diff --name-status -z [--cached] <full shas> -- <paths>` run from the same cwd, `git show <sha>:<path>` / '
        '`git show :<path>` / the working-tree file; entries matched by the pair of contents (every written file version is unique). A missed entry under a filter is blamed on '
        'the filter (filter-ignored) only if the same filter spelled relative to the repository root, from the root, finds it. Command line (3 per repository, 5 in thorough): '
        'nbdiffapp.main from a sub-directory with a uniquely named relative --out (commit/working tree with the remote omitted, and commit/commit): the file must appear in that '
        'sub-directory and nowhere else in the scratch tree or its ancestors; one run printing to stdout with the filter ".": one "nbdiff" header per changed notebook whose content differs. '
        'A case is non-trivial/distinct when git reports at least one changed notebook for its ref pair (with or without the filter); key = (repository seed, case number).'
        % (nrepos, 'up to 4 pairs' if q else 'up to 8 pairs', '1' if q else '3', '4 of 6 directories (root, one and two levels deep)' if q else 'all 6 directories (root, one and two levels deep)',
           '2' if q else 'up to 5', 'half' if q else '70%'))
    res.assumptions.append('bounded: only the stated small scope is explored')
    res.assumptions.append('git (the installed binary) is the reference for "what git reports as changed", including its default rename detection '
                           '(nbdime asks GitPython for -M, `git diff` defaults to diff.renames=true: same 50% threshold)')
    res.assumptions.append('a rename between a notebook name and a non-notebook name is accepted whether or not nbdime examines it (the property does not decide it)')
    res.assumptions.append('no git clean filters are configured in the temporary repositories (nbdime.vcs.git.filter_integration returns the file unchanged)')
    res.assumptions.append('yielded streams are identified by their content; the stream name is only used to word a wrong-content/non-notebook report')


# the driver (checks/main.py) looks for run/replay
run = run_bounded


def replay(path):
    return common.replay_file(path)
