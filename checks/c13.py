"""C13 -- diff, patch, merge and rendering never modify their inputs.

Proof part: for the real functions under contract (Kit L / Kit M / dispatchers) the engine's value model turns every write
through a list / dict / set parameter (subscript store, mutating method, augmented assignment, also through a local alias) into a
`frame` obligation that fails by construction, every write to an object field outside the declared `modifies` into a frame
violation, and every in-place update of a JSON value (kind V) or diff entry into out-of-subset.  The VCs are regenerated from the
current source; only the frame obligations are looked at here (the functional ones belong to C01/C02/C11).
Bounded part: before/after canonical-JSON snapshots of every argument of the public calls."""
import io
import logging

from . import common, diffcommon, mergecommon

LEVEL = 'other'


def _render_job(job):
    seed, n = job
    logging.disable(logging.CRITICAL)
    from bounded import nbspace, mergespace
    from nbdime.diffing.notebooks import diff_notebooks
    from nbdime.merging.notebooks import decide_notebook_merge
    from nbdime import prettyprint as pp
    import random
    out, cnt = [], 0
    rnd = random.Random(seed)
    for ti, (b, l, r) in enumerate(nbspace.triples(seed, n, max_edits=3, tail=True)):
        try:
            d = diff_notebooks(b, l)
            dec = decide_notebook_merge(b, l, r, mergespace.args_for('mergetool'))
        except Exception:
            continue
        # a caller may hand in a valid diff whose mapping entries are in any order
        shuffled = nbspace.to_plain(d)
        _shuffle(shuffled, rnd)
        from nbdime.diff_utils import to_diffentry_dicts
        d2 = to_diffentry_dicts(shuffled)
        for name, call, inputs in (
                ('pretty_print_notebook_diff', lambda cfg: pp.pretty_print_notebook_diff('a', 'b', b, d2, cfg), (b, d2)),
                ('pretty_print_notebook', lambda cfg: pp.pretty_print_notebook(l, cfg), (l,)),
                ('pretty_print_merge_decisions', lambda cfg: pp.pretty_print_merge_decisions(b, dec, cfg), (b, dec))):
            snap = [nbspace.canon(x) for x in inputs]
            cnt += 1
            try:
                call(pp.PrettyPrintConfig(out=io.StringIO(), use_color=False))
            except Exception:
                continue                   # failures are C16's business
            if [nbspace.canon(x) for x in inputs] != snap:
                out.append((name, '%s modified an object passed in (it no longer serialises to the same JSON)' % name,
                            {'seed': seed, 'triple': ti, 'n': n}))
    return cnt, out


def _shuffle(d, rnd):
    if isinstance(d, list):
        if d and all(isinstance(e, dict) and isinstance(e.get('key'), str) for e in d):
            rnd.shuffle(d)
        for e in d:
            if isinstance(e, dict) and e.get('op') == 'patch':
                _shuffle(e['diff'], rnd)


def _alias_job(job):
    """The same OBJECT passed in two roles (a server that finds a file unchanged diffs nb against nb; a merge where one side did
    nothing passes base twice): no argument may be modified then either."""
    seed, n = job
    logging.disable(logging.CRITICAL)
    from bounded import nbspace, mergespace
    from nbdime.diffing.notebooks import diff_notebooks
    from nbdime.merging import merge_notebooks
    out, cnt = [], 0
    for pi, (a, b) in enumerate(nbspace.pairs(seed, n, max_edits=2)):
        for name, call, objs in (
                ('diff_notebooks(nb, nb)', lambda: diff_notebooks(a, a), (a,)),
                ('merge_notebooks(base, base, remote)', lambda: merge_notebooks(a, a, b, mergespace.args_for('inline')), (a, b)),
                ('merge_notebooks(base, local, local)', lambda: merge_notebooks(a, b, b, mergespace.args_for('inline')), (a, b)),
                ('merge_notebooks(nb, nb, nb)', lambda: merge_notebooks(a, a, a, mergespace.args_for('mergetool')), (a,))):
            snap = [nbspace.canon(x) for x in objs]
            cnt += 1
            try:
                call()
            except Exception:
                continue                  # failures are C03's business
            if [nbspace.canon(x) for x in objs] != snap:
                out.append(('aliased:' + name.split('(')[0], '%s modified a notebook passed in (the same object in two roles)' % name,
                            {'seed': seed, 'pair': pi, 'n': n, 'call': name}))
    return cnt, out


def replay_alias(where):
    n, out = _alias_job((where['seed'], where['n']))
    return [o for o in out if o[2]['pair'] == where['pair'] and o[2]['call'] == where['call']]


def replay_render(where):
    n, out = _render_job((where['seed'], where['n']))
    return [o for o in out if o[2]['triple'] == where['triple']]


def frame_part(res):
    from pyvc import cli, symexec
    from pyvc.frontend import clear_cache
    from .c02 import KIT_L
    clear_cache()
    reg = cli.load_registry()
    fns = [q for q in KIT_L if q not in reg.lemmas]
    th, report = cli.verify_functions(fns, repo=common.REPO, kinds={'frame'})
    nparams = 0
    for q, info in report.items():
        st = info['status']
        res.functions[q] = 'frame-' + st if st == 'proved' else st
        if st in ('out-of-subset', 'proof-lost'):
            res.notes.append('%s: %s (%s) -- no frame statement for this run; the bounded snapshots decide' % (q, st, info.get('reason')))
            continue
        nparams += len(info.get('mutable_params', []))
        for o in info['obligations']:
            res.obligations += 1
            if o.status == 'unsat':
                res.discharged += 1      # the write sits on a path that is infeasible under the contract
                continue
            res.violation('frame obligation fails: %s: %s' % (q, o.text), {'kind': 'failed-frame-obligation', 'obligation': o.id, 'function': q,
                                                                            'detail': o.text}, no_input=True)
    # one obligation per list/dict/value/entry parameter: "not written through", discharged when no write site exists
    res.obligations += nparams
    res.discharged += nparams
    res.backends['value-model frame check (pyvc)'] = res.backends.get('value-model frame check (pyvc)', 0) + nparams
    res.coverage['frame_part'] = {'functions': len(fns), 'parameters_checked': nparams}
    if nparams == 0:
        raise common.CheckerDefect('no parameter was frame-checked')
    res.assumptions.append('frame part: lists, dicts, sets, JSON values and diff entries are VALUES in the verifier; a write through a parameter or a '
                           'local alias of one is an obligation that fails, an in-place update of a nested JSON value is outside the subset (the function '
                           'is then reported as not covered); callee effects are those of the callee contracts (pure, or `modifies` on builder fields)')


def detach_part(res):
    """Tier E: the output differ (the one place where the differ edits its arguments) puts back what it detaches, on every returning path"""
    from contracts import kit_e
    failed = []
    for job in kit_e.C13_JOBS:
        failed += common.prove_paths(res, job[0], job[1], job[2], default_raises=job[3]) or []
    return failed


def run(res):
    frame_part(res)
    detach_failed = detach_part(res)
    diffcommon.run_diff_cases(res, {'C01', 'C13'}, 'C13', {}, quick=(24, 60), thorough=(96, 200))
    mergecommon.run_merge_cases(res, {'C03', 'C09', 'C13'}, 'C13', {}, quick=(48, 60, 12), thorough=(128, 100, 100))
    seen = set()
    nseeds, n = (24, 40) if res.tier == 'quick' else (96, 100)
    for cnt, fails in common.pmap(_render_job, [(res.seed * 31337 + s, n) for s in range(nseeds)]):
        res.evaluations += cnt
        for kind, detail, where in fails:
            if kind in seen:
                continue
            seen.add(kind)
            res.violation(detail, dict(where, replay_kind='call', module='checks.c13', function='replay_render', args=[where]))
    seen = set()
    for cnt, fails in common.pmap(_alias_job, [(res.seed * 8191 + s, 40 if res.tier == 'quick' else 120) for s in range(16 if res.tier == 'quick' else 64)]):
        res.evaluations += cnt
        for kind, detail, where in fails:
            if kind in seen:
                continue
            seen.add(kind)
            res.violation(detail, dict(where, replay_kind='call', module='checks.c13', function='replay_alias', args=[where]))
    # failed path obligations are reported with the bounded part's witness when it found one
    witness = next((v['what'][:300] for v in res.violations if 'mutated' in v.get('what', '') or 'modified' in v.get('what', '')), None)
    common.report_path_failures(res, detach_failed, witness)
    res.assumptions.append('detach part: copy.deepcopy, the generic differ and the mime-bundle differ do not write to their arguments (the differs are covered by the frame part / the bounded snapshots)')
    res.assumptions.append('bounded: deep JSON snapshot of every argument before/after each public call over the stated small scope')
    res.coverage['rule'] += ' Every public call (diff_notebooks, patch_notebook, merge_notebooks, apply_decisions, pretty_print_*) is wrapped in a before/after canonical-JSON snapshot of all arguments; rendering also gets valid diffs with mapping entries in shuffled order; diff and merge are also called with the SAME object in two roles (nb vs nb; base twice; one side twice).'


def replay(path):
    return common.replay_file(path)
