"""C18 -- git integration setup is idempotent and never touches foreign settings (Tier E proof over the git-config effect log + real-git monitor)."""
from . import common, tier_e

LEVEL = 'proof'


def _lookup_job(job):
    """run-time contract of nbdime.utils.has_gitattribute (the rule lookup the attributes obligation relies on) against an independent
    regular-expression reading of 'an uncommented rule for exactly this pattern carries the attribute' -- bounded"""
    seed, n = job
    import random, re
    from nbdime.utils import has_gitattribute
    rnd = random.Random(seed)
    pats = ['*.ipynb', 'docs/*.ipynb', '*.py', '#', '# *.ipynb', '#*.ipynb', '**/*.ipynb', '*.ipynbx', 'x*.ipynb']
    attrs = ['diff=jupyternotebook', 'merge=jupyternotebook', '-diff', 'text', 'diff=other', 'merge=jupyternotebookx', 'xdiff=jupyternotebook', 'diff', 'binary']
    out, cnt = [], 0
    for i in range(n):
        lines = []
        for _ in range(rnd.randint(0, 5)):
            u = rnd.random()
            if u < 0.15:
                lines.append(rnd.choice(['', '   ', '# comment diff=jupyternotebook']))
            else:
                sep = rnd.choice(['\t', ' ', '  ', ' \t'])
                lines.append(rnd.choice(['', '', ' ']) + rnd.choice(pats) + sep + sep.join(rnd.sample(attrs, rnd.randint(1, 3))) + rnd.choice(['', ' ']))
        text = rnd.choice(['\n', '\r\n']).join(lines) + rnd.choice(['', '\n'])
        for attr in ('diff=jupyternotebook', 'merge=jupyternotebook'):
            cnt += 1
            want = any(re.match(r'^[ \t]*\*\.ipynb[ \t]+(?:\S+[ \t]+)*' + re.escape(attr) + r'(?:[ \t]+\S+)*[ \t]*$', ln) is not None
                       for ln in re.split(r'\r\n|\n', text))
            try:
                got = has_gitattribute(text, '*.ipynb', attr)
            except Exception as exc:
                out.append(('lookup-crash', 'has_gitattribute(%r, \'*.ipynb\', %r) raised %s: %s' % (text, attr, type(exc).__name__, exc), {'seed': seed, 'n': n, 'index': i}))
                continue
            if bool(got) != want:
                out.append(('lookup-contract', 'has_gitattribute(%r, \'*.ipynb\', %r) is %r, the rule-lookup contract says %r' % (text, attr, got, want), {'seed': seed, 'n': n, 'index': i}))
    return cnt, out


def replay_lookup(where):
    return [o for o in _lookup_job((where['seed'], where['n']))[1] if o[2]['index'] == where['index']]


def lookup_part(res):
    try:
        import importlib
        if not hasattr(importlib.import_module('nbdime.utils'), 'has_gitattribute'):
            return                   # the code under check does not use the helper (substring test: covered by the path obligation itself)
    except Exception:
        return
    seen = set()
    for cnt, fails in common.pmap(_lookup_job, [(res.seed * 271 + s, 400) for s in range(8)]):
        res.evaluations += cnt
        for kind, text, where in fails:
            if kind in seen:
                continue
            seen.add(kind)
            res.violation('%s [%s]' % (text, kind), dict(where, replay_kind='call', module='checks.c18', function='replay_lookup', args=[where]))
    res.assumptions.append('nbdime.utils.has_gitattribute is used through an assumed contract (true iff an uncommented rule for exactly the pattern carries the attribute), '
                           'checked at run time on 6400 generated attributes texts against an independent regular-expression reading -- bounded, not proved')


def run(res):
    lookup_part(res)
    from contracts import kit_e
    tier_e.run(res, kit_e.C18_JOBS, 'c18_bounded',
               'For the 8 enable/disable functions, on every path: each git invocation is `git config [--scope]` with the scope flag exactly when requested (reads and '
               'writes alike); only nbdime\'s own keys/sections are written or removed; merge.tool / diff.guitool are set only to "nbdime" and unset only under the path '
               'condition that the value just read from the same key is "nbdime"; the attributes file is opened only for reading/appending, the appended text is exactly one '
               '"\\n*.ipynb\\t<driver>=jupyternotebook\\n" line and is reached only when the marker was searched and not found (or the file is new); disable of a driver issues '
               'one --remove-section. Idempotence and "all sequences" follow by composing these per-command facts over the assumed git-config semantics.')
    res.assumptions.append('assumed dependency contract: `git config [--scope] key value` sets exactly that key in that scope; `--unset key` / `--remove-section s` remove exactly that key / section or fail with CalledProcessError; monitored against real git by checks/c18_bounded.py')


def replay(path):
    return common.replay_file(path)
