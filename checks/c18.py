"""C18 -- git integration setup is idempotent and never touches foreign settings (Tier E proof over the git-config effect log + real-git monitor)."""
from . import common, tier_e

LEVEL = 'proof'


def run(res):
    from contracts import kit_e
    tier_e.run(res, kit_e.C18_JOBS, 'c18_bounded',
               'For the 8 enable/disable functions, on every path: each git invocation is `git config [--scope]` with the scope flag exactly when requested (reads and '
               'writes alike); only nbdime\'s own keys/sections are written or removed; merge.tool / diff.guitool are set only to "nbdime" and unset only under the path '
               'condition that the value just read from the same key is "nbdime"; the attributes file is opened only for reading/appending, the appended text is exactly one '
               '"\\n*.ipynb\\t<driver>=jupyternotebook\\n" line and is reached only when the marker was searched and not found (or the file is new); disable of a driver issues '
               'one --remove-section. Idempotence and "all sequences" follow by composing these per-command facts over the assumed git-config semantics.')
    res.assumptions.append('assumed dependency contract: `git config [--scope] key value` sets exactly that key in that scope; `--unset key` / `--remove-section s` remove exactly that key / section or fail with CalledProcessError; monitored against real git by checks/c18_bounded.py')


def replay(path):
    return common.replay_file(path)
