"""Worker for the C12 history test: executes a JSON list of operations in ONE interpreter and prints one
digest per operation.  Run as: python -m checks.c12_worker '<json ops>'"""
import hashlib
import json
import logging
import sys


def digest(x):
    from bounded import nbspace
    return hashlib.sha1(nbspace.canon(x).encode('utf8')).hexdigest()[:16]


def run_ops(ops):
    logging.disable(logging.CRITICAL)
    from bounded import nbspace, mergespace
    from nbdime.diffing import notebooks as nbd
    from nbdime.merging.notebooks import merge_notebooks
    out = []
    cache = {}

    def triple(seed, idx):
        if seed not in cache:
            cache[seed] = list(nbspace.triples(seed, 12, max_edits=3))
        return cache[seed][idx]
    for op in ops:
        kind = op[0]
        try:
            if kind == 'diff':
                b, l, r = triple(op[1], op[2])
                out.append(digest(nbd.diff_notebooks(b, l if op[3] == 'l' else r)))
            elif kind == 'diffk':
                # a pair that differs exactly in the key-filtered categories (id, execution_count, attachments key)
                import copy
                b, l, r = triple(op[1], op[2])
                v = copy.deepcopy(b)
                for ci, c in enumerate(v['cells']):
                    if 'id' in c:
                        c['id'] = c['id'] + 'k'
                    if c['cell_type'] == 'code':
                        c['execution_count'] = (c['execution_count'] or 0) + 3
                    if c['cell_type'] == 'markdown' and 'attachments' not in c:
                        c['attachments'] = {'k.png': {'image/png': nbspace.B64}}
                    # ... and in cell metadata keys that key-list ignores name
                    c['metadata']['collapsed'] = not c['metadata'].get('collapsed', False)
                    c['metadata']['scrolled'] = True
                    c['metadata']['tags'] = list(c['metadata'].get('tags', [])) + ['k%d' % ci]
                out.append(digest(nbd.diff_notebooks(b, v)))
            elif kind == 'merge':
                b, l, r = triple(op[1], op[2])
                m, dec = merge_notebooks(b, l, r, mergespace.args_for(*op[3]))
                # marker cells get random ids: drop them
                pm = nbspace.to_plain(m)
                for c in pm.get('cells', []):
                    if c.get('source', '').startswith('<span style="color:red">'):
                        c.pop('id', None)
                out.append(digest([pm, [d.conflict for d in dec]]))
            elif kind == 'targets':
                nbd.set_notebook_diff_targets(*op[1])
                out.append('cfg')
            elif kind == 'ignores':
                nbd.set_notebook_diff_ignores({k: (v if not isinstance(v, list) else tuple(v)) for k, v in op[1].items()})
                out.append('cfg')
            elif kind == 'ignores_iter':
                # the key collections handed over as one-shot iterables (a generator, map(...), a dict view): accepted or refused is the code's choice
                nbd.set_notebook_diff_ignores({k: ((x for x in v) if isinstance(v, list) else v) for k, v in op[1].items()})
                out.append('cfg')
            elif kind == 'reset':
                nbd.reset_notebook_differ()
                out.append('cfg')
            else:
                out.append('?')
        except Exception as exc:
            out.append('EXC:%s:%s' % (type(exc).__name__, str(exc)[:80]))
    return out


if __name__ == '__main__':
    print(json.dumps(run_ops(json.loads(sys.argv[1]))))
