"""Shared loop of the bounded stand-ins for the merge properties: (triple x strategy table) cases,
evaluated in a 16-process pool; failures are classified and matched against known_findings.json."""
import logging
import random

from . import common


def _job(job):
    seed, ntriples, nargs, props, max_edits, renderer = job
    logging.disable(logging.CRITICAL)
    from bounded import nbspace, mergespace, mergeoracles as mo
    rnd = random.Random(seed)
    out = []
    n = 0
    keys = set()
    sample = None
    import contextlib
    cm = mergespace.renderer_env(renderer) if renderer else contextlib.nullcontext()
    with cm:
        for ti, (b, l, r) in enumerate(nbspace.triples(seed, ntriples, max_edits=max_edits, tail=True)):
            if any(nbspace.validate_strict(x) for x in (b, l, r)):
                out.append(('GEN', 'invalid-input', 'the generator produced an invalid notebook', {'seed': seed, 'triple': ti}))
                continue
            for a in mergespace.sample_args(rnd, nargs):
                n += 1
                fails, res = mo.merge_case(b, l, r, a, props)
                if nbspace.canon(l) != nbspace.canon(b) and nbspace.canon(r) != nbspace.canon(b):
                    keys.add(hash((nbspace.canon(b), nbspace.canon(l), nbspace.canon(r), mergespace.args_key(a))))
                if sample is None and res is not None:
                    sample = {'strategy': mergespace.args_key(a), 'base_cells': len(b.cells), 'local_cells': len(l.cells),
                              'remote_cells': len(r.cells), 'decisions': len(res[1]),
                              'conflicted': sum(1 for d in res[1] if d.conflict)}
                for p, kind, detail in fails:
                    if p in props:
                        out.append((p, kind, detail, {'seed': seed, 'triple': ti, 'ntriples': ntriples, 'max_edits': max_edits,
                                                      'strategy': list(mergespace.args_key(a)), 'renderer': renderer}))
    return n, out, list(keys), sample


def run_merge_cases(res, props, report_prop, known_kinds, quick=(24, 30, 10), thorough=(96, 60, 282), max_edits=3,
                    renderers=(None,)):
    """known_kinds: {kind-prefix: finding id}.  Only failures whose property == report_prop are reported."""
    nseeds, ntriples, nargs = quick if res.tier == 'quick' else thorough
    jobs = []
    for rk, rend in enumerate(renderers):
        for s in range(nseeds):
            jobs.append((res.seed * 100003 + s + 1000 * rk, ntriples, nargs, props, max_edits, rend))
    seen = set()
    for n, fails, keys, sample in common.pmap(_job, jobs):
        res.evaluations += n
        res.nontrivial.update(keys)
        if sample:
            res.sample(sample)
        for p, kind, detail, where in fails:
            if p == 'GEN':
                raise common.CheckerDefect('notebook generator produced a schema-invalid input: %r' % (where,))
            if p != report_prop:
                continue
            fid = None
            for prefix, f in known_kinds.items():
                if common.kind_matches(kind, prefix):
                    fid = f
            if fid:
                res.known_hit(fid)
                continue
            if kind in seen:
                continue
            seen.add(kind)
            res.violation('%s [%s] strategy=%s' % (detail, kind, where['strategy']),
                          dict(where, replay_kind='call', module='checks.mergecommon', function='replay_case',
                               args=[where, sorted(props), report_prop], kind=kind, detail=detail))
    res.coverage['rule'] = ('cases = (base, local, remote) x strategy table; base from the notebook grammar (bounded/nbspace.py: <=4 cells from an '
                            '11-cell pool, minors 5/4/2, 3 metadata shapes), local/remote = base after 0..%d random edits from 17 edit kinds '
                            '(insert/delete/move/duplicate/retype cell, source line add/change/delete, outputs clear/append/change, metadata, '
                            'execution_count, attachments, output metadata); strategy tables: 9 fixed + random of the 4x5x7x2 CLI combinations '
                            '+ mergetool; non-trivial = both sides differ from base; distinct by canonical JSON of the case' % max_edits)


def replay_case(where, props, report_prop):
    logging.disable(logging.CRITICAL)
    from bounded import nbspace, mergespace, mergeoracles as mo
    import contextlib
    cm = mergespace.renderer_env(where['renderer']) if where.get('renderer') else contextlib.nullcontext()
    with cm:
        for ti, (b, l, r) in enumerate(nbspace.triples(where['seed'], where['ntriples'], max_edits=where['max_edits'], tail=True)):
            if ti == where['triple']:
                a = mergespace.args_for(*where['strategy'])
                fails, _ = mo.merge_case(b, l, r, a, set(props))
                return [f for f in fails if f[0] == report_prop]
    return []
