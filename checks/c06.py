"""C06 -- changes to different cells merge cleanly into exactly both sets of changes (bounded stand-in;
the expected notebook is built directly from the chosen actions, never through nbdime)."""
import copy
import logging
import random

from . import common

LEVEL = 'other'

# Kit C: the functions of the chunk machinery that are under contract (proved for all inputs), with the builder contracts they call
KIT_C = [
    'nbdime.diff_format.op_removerange',
    'nbdime.diff_format.SequenceDiffBuilder.__init__', 'nbdime.diff_format.SequenceDiffBuilder.validated',
    'nbdime.diff_format.SequenceDiffBuilder.append',
    'nbdime.merging.chunks.split_diffs_on_boundaries',
]

ACTIONS = ['source', 'outputs', 'metadata', 'execution_count', 'delete', 'leave', 'source2', 'review']


def act(cell, action, rnd):
    """returns the edited cell or None (deleted)"""
    import nbformat
    c = copy.deepcopy(cell)
    if action == 'delete':
        return None
    if action == 'leave':
        return c
    if action in ('source', 'source2'):
        lines = c['source'].splitlines(True)
        if action == 'source' or not lines:
            if lines and not lines[-1].endswith('\n'):
                lines[-1] += '\n'
            lines.append(rnd.choice(['added = True\n', '# more\n']))
        else:
            k = rnd.randrange(len(lines))
            nl = '\n' if lines[k].endswith('\n') else ''
            lines[k] = lines[k].rstrip('\n') + ' # edited' + nl
        c['source'] = ''.join(lines)
        return c
    if action == 'review' and isinstance(c['metadata'].get('reviews'), dict):
        # a change nested below a key that consists of digits only (a table keyed by number)
        k = rnd.choice(sorted(c['metadata']['reviews']))
        c['metadata']['reviews'][k]['state'] = 'closed'
        c['metadata']['reviews'][k]['by'] = rnd.choice(['ann', 'bob'])
        return c
    if action in ('metadata', 'review'):
        c['metadata']['note'] = rnd.choice(['a', 'b'])
        return c
    if c['cell_type'] != 'code':
        c['metadata']['touched'] = True
        return c
    if action == 'outputs':
        from bounded import nbspace
        c['outputs'] = list(c['outputs']) + [nbformat.from_dict(nbspace.out_stream('rerun\n'))]
        return c
    c['execution_count'] = (c['execution_count'] or 0) + 7
    for o in c['outputs']:
        if o['output_type'] == 'execute_result':
            o['execution_count'] = c['execution_count']
    return c


def build_case(rnd):
    import nbformat
    from bounded import nbspace
    pool = nbspace.cell_pool()
    n = rnd.randint(2, 5)
    minor = rnd.choice([5, 5, 4, 2])
    idx = [rnd.randrange(len(pool)) for _ in range(n)]
    twin_case = False
    if minor < 5:
        # Without ids identical cells are indistinguishable (which twin a side touched is not observable), so bases
        # without ids have pairwise different cells -- except in the dedicated twin scenario below.
        same = {3: 9, 9: 3}
        seen_, idx2 = set(), []
        for i in idx:
            if i in seen_ or same.get(i) in seen_:
                continue
            seen_.add(i)
            idx2.append(i)
        idx = idx2
        while len(idx) < 2:
            c = rnd.randrange(len(pool))
            if c not in idx and same.get(c) not in idx:
                idx.append(c)
        n = len(idx)
        if rnd.random() < 0.25:
            # twin scenario: two identical adjacent cells; one side deletes one of them, the other side only EDITS
            # cells that are not twins (no insertions), so the expected result does not depend on which twin went
            t = rnd.randrange(n)
            idx.insert(t, idx[t])
            n += 1
            twin_case = (t, t + 1)
    base = nbspace.notebook([pool[i] for i in idx], minor, rnd.choice(nbspace.NB_METADATA))
    if rnd.random() < 0.3:
        for c in base['cells']:
            c['metadata']['reviews'] = nbformat.from_dict({'1': {'state': 'open'}, '2': {'state': 'open'}, '10': {'state': 'open'}})
    owner = [rnd.choice('LRU') for _ in range(n)]
    if 'L' not in owner:
        owner[0] = 'L'
    if 'R' not in owner:
        owner[-1] = 'R'
    actions = [rnd.choice(ACTIONS) if o != 'U' else 'leave' for o in owner]
    if twin_case:
        t0, t1 = twin_case
        side = rnd.choice('LR')
        other = 'R' if side == 'L' else 'L'
        for k in range(n):
            if k == t0:
                owner[k], actions[k] = side, 'delete'
            elif k == t1:
                owner[k], actions[k] = 'U', 'leave'
            elif actions[k] == 'delete' or owner[k] == side:
                owner[k], actions[k] = other, rnd.choice(['source', 'metadata', 'source2', 'leave'])
    touched = {'L': [o == 'L' and a != 'leave' for o, a in zip(owner, actions)],
               'R': [o == 'R' and a != 'leave' for o, a in zip(owner, actions)]}
    # insertions: gap g lies between cell g-1 and cell g
    inserts = {}
    for g in range(n + 1):
        if rnd.random() < 0.25 and not twin_case:
            side = rnd.choice('LR')
            other = 'R' if side == 'L' else 'L'
            neigh = [k for k in (g - 1, g) if 0 <= k < n]
            if any(touched[other][k] for k in neigh):
                continue
            # also keep clear of gaps the other side inserts into (same position) and of its neighbours' gaps
            if any(inserts.get(h, (None,))[0] == other for h in (g - 1, g, g + 1)):
                continue
            # an inserted cell is unlike every base cell (the property is about changes to DIFFERENT cells; a
            # near-copy of an existing cell is legitimately read by the differ as an edit of that cell)
            kind = rnd.choice(['code', 'markdown', 'raw'])
            text = 'Inserted by %s in gap %d: %s\nsecond line of the new %s cell %d\n' % (
                side, g, rnd.choice(['alpha beta gamma', 'quick brown fox', 'lorem ipsum dolor']), kind, rnd.randrange(1000))
            newc = nbformat.from_dict({'code': nbspace.code_cell(text, [nbspace.out_stream('fresh output %d\n' % g)], 40 + g),
                                       'markdown': nbspace.md_cell(text), 'raw': nbspace.raw_cell(text)}[kind])
            if minor >= 5:
                newc['id'] = 'ins-%s-%d' % (side, g)
            else:
                newc.pop('id', None)
            inserts[g] = (side, newc)

    def side_nb(S):
        cells = []
        for k in range(n + 1):
            if k in inserts and inserts[k][0] == S:
                cells.append(copy.deepcopy(inserts[k][1]))
            if k < n:
                c = act(base['cells'][k], actions[k], random.Random(k * 977 + 1)) if owner[k] == S else copy.deepcopy(base['cells'][k])
                if c is not None:
                    cells.append(c)
        nb = copy.deepcopy(base)
        nb['cells'] = cells
        return nbformat.from_dict(nb)
    cells = []
    for k in range(n + 1):
        if k in inserts:
            cells.append(copy.deepcopy(inserts[k][1]))
        if k < n:
            c = act(base['cells'][k], actions[k], random.Random(k * 977 + 1))
            if c is not None:
                cells.append(c)
    expected = copy.deepcopy(base)
    expected['cells'] = cells
    return base, side_nb('L'), side_nb('R'), nbformat.from_dict(expected), {'owner': ''.join(owner), 'actions': actions,
                                                                              'inserts': {g: s for g, (s, _) in inserts.items()}, 'minor': minor, 'cells': idx}


def _job(job):
    seed, n = job
    logging.disable(logging.CRITICAL)
    from bounded import nbspace, mergespace, mergeoracles as mo
    from bounded.difforacles import first_difference
    from nbdime.merging import merge_notebooks
    rnd = random.Random(seed)
    out, cnt, keys, sample = [], 0, set(), None
    for i in range(n):
        b, l, r, want, desc = build_case(rnd)
        if any(nbspace.validate_strict(x) for x in (b, l, r, want)):
            out.append(('GEN', 'generator produced an invalid notebook', {'seed': seed, 'index': i}))
            continue
        for a in (mergespace.args_for(), mergespace.args_for('mergetool'), mergespace.args_for('use-base', ignore_transients=False)):
            cnt += 1
            keys.add(hash((nbspace.canon(b), nbspace.canon(l), nbspace.canon(r), mergespace.args_key(a))))
            try:
                m, dec = merge_notebooks(b, l, r, a)
            except Exception as exc:
                out.append(('crash:' + mo.exc_site(exc), 'merge of disjoint changes raised ' + mo.exc_summary(exc) + ' case=%r' % (desc,), {'seed': seed, 'index': i, 'n': n}))
                continue
            if sample is None:
                sample = dict(desc, strategy=mergespace.args_key(a), decisions=len(dec))
            if any(d.conflict for d in dec):
                out.append(('conflict', 'changes to different cells reported a conflict; case=%r strategy=%r' % (desc, mergespace.args_key(a)), {'seed': seed, 'index': i, 'n': n}))
            elif nbspace.canon(m) != nbspace.canon(want):
                out.append(('result', 'merged notebook is not base with both sets of changes: %s; case=%r strategy=%r'
                            % (first_difference(nbspace.to_plain(m), nbspace.to_plain(want)), desc, mergespace.args_key(a)), {'seed': seed, 'index': i, 'n': n}))
    return cnt, out, list(keys), sample


def _json_job(job):
    seed, n = job
    from nbdime.merging.generic import decide_merge
    from nbdime.merging.decisions import apply_decisions
    from contracts import specs
    rnd = random.Random(seed)
    out, cnt = [], 0
    vals = [0, 1, 'a', [0], [0, 1], {'k': 0}, 'x\ny\n', 'x\nz\n', None]
    for i in range(n):
        if rnd.random() < 0.5:
            keys = ['a', 'b', 'c', 'd']
            base = {k: rnd.choice(vals) for k in keys if rnd.random() < 0.8}
            lk = set(rnd.sample(keys, 2))
            l, r, want = dict(base), dict(base), dict(base)
            for k in keys:
                side = l if k in lk else r
                u = rnd.random()
                if u < 0.3 and k in base:
                    del side[k]
                    del want[k]
                elif u < 0.8:
                    nv = rnd.choice([v for v in vals if not (type(v) is type(base.get(k, object())) and v == base.get(k))])
                    side[k] = nv
                    want[k] = nv
        else:
            base = rnd.sample([0, 1, 2, 3, [0], [1], {'k': 0}, {'k': 1}, 'p', 'q'], rnd.randint(3, 6))   # distinct items
            cut = rnd.randint(1, len(base) - 2)
            l, r = list(base), list(base)
            # local changes strictly left of cut-1, remote strictly right of cut (one untouched item between)
            li = rnd.randrange(0, max(1, cut - 1)) if cut - 1 > 0 else None
            ri = rnd.randrange(cut + 1, len(base)) if cut + 1 < len(base) else None
            want = list(base)
            if ri is not None:
                if rnd.random() < 0.5:
                    del r[ri]
                    del want[ri]
                else:
                    r[ri] = 'R'
                    want[ri] = 'R'
            if li is not None:
                if rnd.random() < 0.5:
                    del l[li]
                    del want[li]
                else:
                    l[li] = 'L'
                    want[li] = 'L'
        cnt += 1
        try:
            dec = decide_merge(base, l, r)
            m = apply_decisions(base, dec)
        except Exception as exc:
            out.append(('json-crash', 'generic merge of %r / %r / %r raised %s: %s' % (base, l, r, type(exc).__name__, exc), {'seed': seed, 'index': i, 'n': n, 'json': True}))
            continue
        if any(d.conflict for d in dec):
            out.append(('json-conflict', 'changes under different keys / separate positions conflict: base %r local %r remote %r' % (base, l, r), {'seed': seed, 'index': i, 'n': n, 'json': True}))
        elif not specs.jsoneq(specs_plain(m), want):
            out.append(('json-result', 'generic merge of %r / %r / %r gives %r, expected %r' % (base, l, r, m, want), {'seed': seed, 'index': i, 'n': n, 'json': True}))
    return cnt, out, [], None


def specs_plain(x):
    from bounded.nbspace import to_plain
    return to_plain(x)


def replay_case(where):
    if where.get('cli'):
        return _cli_job((where['k'], where['locale']))[1]
    cnt, out, _, _ = (_json_job if where.get('json') else _job)((where['seed'], where['n']))
    return [o for o in out if o[2].get('index') == where['index']]


def _cli_job(job):
    """the same guarantee through the command line and the git merge driver: notebooks full of text outside ASCII whose sides change
    different cells, merged by real `nbmerge --out` / `git-nbmergedriver merge` processes, in the locale of this machine and in a
    process whose locale encoding is not UTF-8; the written notebook must be the by-construction expectation, the status 0"""
    k, locale = job
    logging.disable(logging.CRITICAL)
    import os
    import nbformat
    from bounded import nbspace, c08_harness as H
    from bounded.difforacles import first_difference
    b, l, r, want = nbspace.nonascii_disjoint_case(k)
    out = []
    where = {'cli': True, 'k': k, 'locale': locale}
    for app in ('cli', 'driver'):
        with H.scratch() as d:
            names = {}
            for name, nb in (('base', b), ('local', l), ('remote', r)):
                names[name] = os.path.join(d, name + '.ipynb')
                with open(names[name], 'w', encoding='utf8') as fh:
                    nbformat.write(nb, fh)
            if app == 'cli':
                target = os.path.join(d, 'merged.ipynb')
                argv = [names['base'], names['local'], names['remote'], '--out', target]
            else:
                target = names['local']
                argv = ['merge', names['base'], names['local'], names['remote'], '7', 'nb.ipynb']
            rc, stdout, stderr = H.invoke_subprocess(app, argv, d, None, locale)
            desc = '%s on disjoint changes to a notebook with text outside ASCII (case %d, process locale %s)' % (
                'nbmerge --out' if app == 'cli' else 'git-nbmergedriver merge', k, locale or 'as inherited')
            if rc != 0:
                out.append(('cli-status:' + app, '%s exits with status %d: %s' % (desc, rc, stderr.strip().splitlines()[-1][:200] if stderr.strip() else ''), where))
                continue
            try:
                got = nbformat.read(target, as_version=4)
            except Exception as exc:
                out.append(('cli-output:' + app, '%s: the output cannot be read: %s: %s' % (desc, type(exc).__name__, str(exc)[:160]), where))
                continue
            if nbspace.canon(got) != nbspace.canon(want):
                out.append(('cli-result:' + app, '%s: the written notebook is not base with both sets of changes: %s'
                            % (desc, first_difference(nbspace.to_plain(got), nbspace.to_plain(want))), where))
    return 2, out, [hash((k, locale, 'cli'))], None


def run(res):
    # proof part (Kit C): splitting the removeranges of a diff at the chunk boundaries preserves what the diff does, for all inputs
    common.prove(res, KIT_C)
    q = res.tier == 'quick'
    jobs = [(res.seed * 9173 + s, 150 if q else 600) for s in range(32 if q else 96)]
    results = common.pmap(_job, jobs) + common.pmap(_json_job, [(res.seed * 9173 + 700 + s, 1500 if q else 10000) for s in range(16)])
    results += common.pmap(_cli_job, [(k, loc) for k in range(4 if q else 8) for loc in (None, 'C')])
    seen = set()
    for cnt, fails, keys, sample in results:
        res.evaluations += cnt
        res.nontrivial.update(keys)
        if sample:
            res.sample(sample)
        for kind, detail, where in fails:
            if kind == 'GEN':
                raise common.CheckerDefect(detail)
            if kind in seen:
                continue
            seen.add(kind)
            res.violation('%s [%s]' % (detail, kind), dict(where, replay_kind='call', module='checks.c06', function='replay_case', args=[where]))
    res.coverage['rule'] = ('bases of 2-5 cells from the 14-cell pool (minors 5/4/2); every cell owned by local, remote or nobody; owner applies one of '
                            '{append source line, edit a source line, add output, metadata key, execution count, delete, leave}; insertions only in gaps whose '
                            'neighbouring cells the other side left untouched and not next to the other side\'s insertions; 3 strategy tables; expected notebook built '
                            'directly from the chosen actions. Generic JSON: dicts with per-key ownership, lists with changes separated by an untouched item. Command line: real '
                            'nbmerge --out / git-nbmergedriver merge processes on by-construction cases full of text outside ASCII, in the inherited locale and in a process '
                            'whose locale encoding is not UTF-8 (LC_ALL=C, UTF-8 mode and coercion off).')
    res.coverage['explanation'] = ('Proof part (Kit C): nbdime.merging.chunks.split_diffs_on_boundaries -- for every base list A, every diff well formed for A and every '
                                   'strictly increasing boundary list containing the begin and end of each removerange, the split diff runs to the same output and cursor '
                                   '(rout/rtake), hence apply_seq(A, result) == apply_seq(A, diffs); no subscript leaves its list, the sanity assert holds and the final raise is '
                                   'unreachable; both inner loops terminate. NOT proved (bounded stand-in only): get_section_boundaries, make_chunks, _merge_lists and the decision '
                                   'machinery, i.e. the property itself.')
    res.assumptions.append('bounded: only the stated small scope is explored')


def replay(path):
    return common.replay_file(path)
