"""C05 -- identity, one-sided adoption, agreement and side symmetry (bounded stand-in)."""
import logging
import random

from . import common

LEVEL = 'exploration'

KNOWN = {}


def _job(job):
    seed, n, kind = job
    logging.disable(logging.CRITICAL)
    from bounded import nbspace, mergespace, mergeoracles as mo
    rnd = random.Random(abs(seed))
    out, cnt, keys, sample = [], 0, set(), None
    if kind == 'laws':
        for pi, (b, x) in enumerate(nbspace.pairs(seed, n, max_edits=3)):
            for a in mergespace.sample_args(rnd, 5):
                cnt += 1
                keys.add(hash((nbspace.canon(b), nbspace.canon(x), mergespace.args_key(a))))
                for p, k, d in mo.laws_case(b, x, a, 'strategy=%r' % (mergespace.args_key(a),)):
                    out.append((k, d, {'seed': seed, 'index': pi, 'n': n, 'kind': kind, 'strategy': list(mergespace.args_key(a))}))
    elif kind == 'symmetry':
        for ti, (b, l, r) in enumerate(nbspace.triples(seed, n, max_edits=2, tail=True)):
            for a in mergespace.sample_args(rnd, 5):
                from .c03 import KNOWN as C03_KNOWN
                fails, applicable = mo.symmetry_case(b, l, r, a, known_crash_sites=set(C03_KNOWN))
                if applicable:
                    cnt += 1
                    keys.add(hash((nbspace.canon(b), nbspace.canon(l), nbspace.canon(r), mergespace.args_key(a))))
                for p, k, d in fails:
                    out.append((k, d, {'seed': seed, 'index': ti, 'n': n, 'kind': kind, 'strategy': list(mergespace.args_key(a))}))
    else:
        out2, cnt, keys = _json_laws(seed, n)
        out.extend(out2)
    return cnt, out, list(keys), sample


def _json_laws(seed, n):
    """generic JSON: decide_merge/apply_decisions on lists/strings/dicts over a small alphabet"""
    from nbdime.merging.generic import decide_merge
    from nbdime.merging.decisions import apply_decisions
    from bounded import json_space as js
    from contracts import specs
    rnd = random.Random(seed)
    docs = list(js.lists([0, 1, 2], 3)) + list(js.dicts(['a', 'b'], [0, 1, [0], 'x\ny\n'])) + [{'s': s} for s in js.strings(2, js.LINES[:4])]
    out, cnt, keys = [], 0, set()

    def merge(b, l, r):
        dec = decide_merge(b, l, r)
        return apply_decisions(b, dec), any(d.conflict for d in dec)
    for i in range(n):
        b = rnd.choice(docs)
        same = [d for d in docs if type(d) is type(b)]
        x = rnd.choice(same)
        cnt += 1
        keys.add(specs.canon([b, x]))
        for name, (l, r), want in (('identity', (b, b), b), ('one-sided-local', (x, b), x), ('one-sided-remote', (b, x), x), ('agreement', (x, x), x)):
            try:
                m, c = merge(b, l, r)
            except Exception as exc:
                out.append(('json-crash', 'generic %s merge of %r / %r raised %s: %s' % (name, b, x, type(exc).__name__, exc), {'seed': seed, 'kind': 'json', 'n': n, 'index': i}))
                continue
            if c:
                out.append(('json-' + name + ':conflict', 'generic %s merge reports a conflict: base %r, other %r' % (name, b, x), {'seed': seed, 'kind': 'json', 'n': n, 'index': i}))
            elif not specs.jsoneq(m, want) and not m == want:
                out.append(('json-' + name + ':result', 'generic %s merge: base %r, other %r gives %r' % (name, b, x, m), {'seed': seed, 'kind': 'json', 'n': n, 'index': i}))
    return out, cnt, keys


def _cli_config_job(k):
    """the laws through the merge command, run in a working directory whose nbdime_config.json is the documentation's example of a
    `Diff` section (it configures the DIFF commands: ignore four cell metadata keys): real `nbmerge --out` processes; X differs from
    base in exactly such a metadata key plus an edit elsewhere"""
    import copy, json, os
    import nbformat
    from bounded import nbspace, c08_harness as H
    from bounded.difforacles import first_difference
    base = nbspace.notebook([nbspace.code_cell('x = 1\n', [nbspace.out_stream('1\n')], 1, {'editable': True, 'collapsed': False}),
                             nbspace.md_cell('# notes\n\ntext\n')], (5, 4)[k % 2])
    x = copy.deepcopy(base)
    x['cells'][0]['metadata'] = nbformat.from_dict({'editable': False, 'collapsed': False, 'deletable': False} if k < 2 else {'editable': True, 'collapsed': True})
    x['cells'][1]['source'] = '# notes\n\ntext, revised\n'
    out = []
    for name, roles in (('one-sided-local', 'bxb'), ('one-sided-remote', 'bbx'), ('agreement', 'bxx'), ('identity', 'bbb')):
        want = x if 'x' in roles else base
        with H.scratch() as d:
            with open(os.path.join(d, 'nbdime_config.json'), 'w') as fh:
                json.dump({'Diff': {'Ignore': {'/cells/*/metadata': ['collapsed', 'autoscroll', 'deletable', 'editable']}}}, fh)
            paths = []
            for i, r in enumerate(roles):
                p = os.path.join(d, '%s%d.ipynb' % ('base' if i == 0 else 'side', i))
                with open(p, 'w', encoding='utf8') as fh:
                    nbformat.write({'b': base, 'x': x}[r], fh)
                paths.append(p)
            target = os.path.join(d, 'merged.ipynb')
            rc, stdout, stderr = H.invoke_subprocess('cli', paths + ['--out', target], d, script_name='nbmerge')
            desc = 'nbmerge (%s; working directory with the documented Diff-section example in nbdime_config.json, case %d)' % (name, k)
            if rc != 0:
                out.append(('cli-' + name + ':status', '%s exits with status %d: %s' % (desc, rc, stderr.strip().splitlines()[-1][:160] if stderr.strip() else ''), {'cli': True, 'k': k}))
                continue
            got = nbformat.read(target, as_version=4)
            if nbspace.canon(got) != nbspace.canon(want):
                out.append(('cli-' + name + ':result', '%s does not return the expected notebook: %s' % (desc, first_difference(nbspace.to_plain(got), nbspace.to_plain(want))),
                            {'cli': True, 'k': k}))
    return 4, out, [hash(('cli', k))], None


def replay_case(where):
    if where.get('cli'):
        return _cli_config_job(where['k'])[1]
    cnt, out, keys, sample = _job((where['seed'], where['n'], where['kind']))
    return [o for o in out if o[2]['index'] == where['index']]


def run(res):
    q = res.tier == 'quick'
    jobs = [(res.seed * 6151 + s, 40 if q else 120, 'laws') for s in range(32 if q else 96)]
    jobs += [(res.seed * 6151 + 500 + s, 60 if q else 150, 'symmetry') for s in range(32 if q else 96)]
    jobs += [(res.seed * 6151 + 900 + s, 800 if q else 6000, 'json') for s in range(16)]
    # the systematic sweep of the pair space (every pool cell x every edit operation; negative seeds select it) for the laws
    jobs += [(-(res.seed * 17 + s + 1), 0, 'laws') for s in range(1 if q else 4)]
    seen = set()
    for cnt, fails, keys, sample in common.pmap(_job, jobs) + common.pmap(_cli_config_job, list(range(4))):
        res.evaluations += cnt
        res.nontrivial.update(keys)
        for kind, detail, where in fails:
            fid = None
            for prefix, f in KNOWN.items():
                if common.kind_matches(kind, prefix):
                    fid = f
            if fid:
                res.known_hit(fid)
                continue
            if kind in seen:
                continue
            seen.add(kind)
            res.violation('%s [%s]' % (detail, kind), dict(where, replay_kind='call', module='checks.c05', function='replay_case', args=[where]))
    res.sample({'laws': 'merge(b,b,b)=b; merge(b,x,b)=merge(b,b,x)=x; merge(b,x,x)=x; none conflicted', 'strategies_per_pair': 5})
    res.sample({'symmetry': 'merge(b,l,r) vs merge(b,r,l): same conflict verdict; equal result when conflict free; triples where both sides insert at one position are excluded'})
    res.coverage['rule'] = ('laws: notebook pairs (base, X) from the grammar x 5 strategy tables, and generic JSON documents (lists over {0,1,2} up to length 3, '
                            'dicts over 2 keys, strings up to 2 lines); symmetry: notebook triples x 5 strategy tables excluding same-position double inserts; '
                            'non-trivial/distinct by canonical JSON of the case; the laws also through 16 real nbmerge processes in a working directory whose nbdime_config.json holds '
                            'the documentation\'s Diff-section example')
    res.assumptions.append('bounded: only the stated small scope is explored')


def replay(path):
    return common.replay_file(path)
