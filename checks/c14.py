"""C14 -- ignore options hide exactly the ignored categories and nothing else (bounded stand-in;
dispatch-lemma obligations are added by the proof part when available)."""
import copy
import itertools
import logging
import random

from . import common

LEVEL = 'other'

CATS = ['sources', 'outputs', 'attachments', 'metadata', 'id', 'details']
FLAG = {'sources': 's', 'outputs': 'o', 'attachments': 'a', 'metadata': 'm', 'id': 'i', 'details': 'd'}
KNOWN = {'mapping-atomic-id': 'C14-mapping-id', 'nonempty:outputs-misalign': 'C14-ignored-outputs-misalign',
         'ignore-mapping-reset-by-config-boolean': 'C14-config-boolean-resets-ignore-mapping',
         'nonempty:ids-misalign': 'C14-ignored-ids-misalign'}


def category(starpath):
    "ignorable category of a diff entry located at starpath (path of the entry's key), or None"
    p = starpath
    if p.startswith('/cells/*/source'):
        return 'sources'
    if p.startswith('/cells/*/attachments'):
        return 'attachments'
    if p.startswith('/cells/*/outputs/*/metadata') or p.startswith('/cells/*/metadata') or p.startswith('/metadata'):
        return 'metadata'
    if p == '/cells/*/outputs/*/execution_count' or p == '/cells/*/execution_count':
        return 'details'
    if p.startswith('/cells/*/outputs'):
        return 'outputs'
    if p == '/cells/*/id':
        return 'id'
    return None


def entries(diff, path=''):
    retyped = path == '/cells/*' and any(e['key'] == 'cell_type' for e in diff)
    for e in diff:
        key = e['key']
        sp = path + '/' + ('*' if isinstance(key, int) else key)
        if retyped and key in ('outputs', 'execution_count') and e['op'] in ('add', 'remove'):
            continue        # the key appears/disappears because the cell changed its type, which is not ignorable
        yield sp, e
        if e['op'] == 'patch':
            yield from entries(e['diff'], sp)


def mask(nb, ignored):
    nb = copy.deepcopy(nb)
    if 'metadata' in ignored:
        nb['metadata'] = {}
    for c in nb['cells']:
        if 'sources' in ignored:
            c['source'] = ''
        if 'outputs' in ignored:
            c.pop('outputs', None)
        if 'attachments' in ignored:
            c.pop('attachments', None)
        if 'metadata' in ignored:
            c['metadata'] = {}
            for o in c.get('outputs', []):
                if 'metadata' in o:
                    o['metadata'] = {}
        if 'id' in ignored:
            c.pop('id', None)
        if 'details' in ignored:
            c.pop('execution_count', None)
            for o in c.get('outputs', []):
                o.pop('execution_count', None)
    return nb


def _metadata_keys(nbs):
    nbk, cellk, outk = set(), set(), set()
    for nb in nbs:
        nbk |= set(nb.get('metadata', {}))
        for c in nb.get('cells', []):
            cellk |= set(c.get('metadata', {}))
            for o in c.get('outputs', []):
                outk |= set(o.get('metadata', {}))
    return sorted(nbk), sorted(cellk), sorted(outk)


def _whole_path_entries(cat):
    "Ignore-mapping entries that hide one category completely"
    return {'sources': {'/cells/*/source': True}, 'outputs': {'/cells/*/outputs': True},
            'attachments': {'/cells/*/attachments': True, '/cells/*': ['attachments']},
            'metadata': {'/metadata': True, '/cells/*/metadata': True, '/cells/*/outputs/*/metadata': True},
            'id': {'/cells/*': ['id']},
            'details': {'/cells/*': ['execution_count'], '/cells/*/outputs/*': ['execution_count']}}[cat]


def configure(ignored, form, nbs=()):
    """install the ignore set through one of the user-visible ways: negative flags, positive flags, an Ignore mapping with whole-path
    entries, or an Ignore mapping that hides metadata through key lists naming every metadata key that occurs (`keylist`)"""
    from nbdime.diffing import notebooks as nbd
    from nbdime import args as nargs
    nbd.reset_notebook_differ()
    if form == 'negative':
        flags = ['-' + FLAG[c].upper() for c in CATS if c in ignored]
    elif form == 'positive':
        flags = ['-' + FLAG[c] for c in CATS if c not in ignored]
        if not flags:
            flags = ['-' + FLAG[c].upper() for c in CATS]      # nothing to process: all six negative flags
    if form == 'config-mixed':
        # everything in ONE configuration file of the working directory, no flags: some categories through the booleans, the others
        # through whole-path entries of the Ignore mapping -- read by the real parser of the diff command
        import json as _json, os, shutil, tempfile
        from nbdime import nbdiffapp
        cats = [c for c in CATS if c in ignored]
        by_bool = [c for c in cats[::2] if c not in ('id', 'details')] or cats[:1]
        by_map = [c for c in cats if c not in by_bool]
        section = {c: False for c in by_bool}
        mapping = {}
        for c in by_map:
            mapping.update(_whole_path_entries(c))
        if '/cells/*' in mapping:
            mapping['/cells/*'] = sorted(set(mapping['/cells/*']))
        section['Ignore'] = mapping
        d = tempfile.mkdtemp(prefix='nbdime-verif-c14-')
        old = os.getcwd()
        saved = {k: os.environ.get(k) for k in ('JUPYTER_CONFIG_DIR', 'JUPYTER_CONFIG_PATH', 'JUPYTER_NO_CONFIG', 'HOME')}
        try:
            with open(os.path.join(d, 'nbdime_config.json'), 'w') as fh:
                _json.dump({'NbDiff': section}, fh)
            os.environ.update({'JUPYTER_CONFIG_DIR': os.path.join(d, 'none'), 'JUPYTER_CONFIG_PATH': os.path.join(d, 'none'), 'HOME': d})
            os.environ.pop('JUPYTER_NO_CONFIG', None)
            os.chdir(d)
            parser = nbdiffapp._build_arg_parser(prog='nbdiff')
            ns = parser.parse_args(['a.ipynb', 'b.ipynb'])
            nargs.process_diff_flags(ns)
        finally:
            os.chdir(old)
            for k, v in saved.items():
                if v is None:
                    os.environ.pop(k, None)
                else:
                    os.environ[k] = v
            shutil.rmtree(d, ignore_errors=True)
        return {'config NbDiff': section, 'by_map': by_map}
    if form == 'config+flags':
        # part of the set through the booleans of a configuration file in the working directory, the rest through negative flags, both
        # read by the real parser of the diff command (nbdime.nbdiffapp); an empty flag list leaves the configuration alone in charge
        import json as _json, os, shutil, tempfile
        from nbdime import nbdiffapp
        cats = [c for c in CATS if c in ignored]
        by_config, by_flag = cats[::2], cats[1::2]
        flags = ['-' + FLAG[c].upper() for c in by_flag]
        # through the diff command, or through the git diff driver's `diff` sub-command (section GitDiff; git's calling convention)
        driver = sum(len(c) for c in cats) % 2 == 1
        section = 'GitDiff' if driver else 'NbDiff'
        d = tempfile.mkdtemp(prefix='nbdime-verif-c14-')
        old = os.getcwd()
        saved = {k: os.environ.get(k) for k in ('JUPYTER_CONFIG_DIR', 'JUPYTER_CONFIG_PATH', 'JUPYTER_NO_CONFIG', 'HOME')}
        try:
            with open(os.path.join(d, 'nbdime_config.json'), 'w') as fh:
                _json.dump({section: {c: False for c in by_config}}, fh)
            # the user's own jupyter config directory holds the template `nbdiff --config` prints (everything null, Ignore empty): it sets nothing
            os.mkdir(os.path.join(d, 'user'))
            with open(os.path.join(d, 'user', 'nbdime_config.json'), 'w') as fh:
                _json.dump({section: dict({c: None for c in CATS}, Ignore={})}, fh)
            os.environ.update({'JUPYTER_CONFIG_DIR': os.path.join(d, 'user'), 'JUPYTER_CONFIG_PATH': os.path.join(d, 'none'), 'HOME': d})
            os.environ.pop('JUPYTER_NO_CONFIG', None)
            os.chdir(d)
            if driver:
                from nbdime.vcs.git import diffdriver
                parser = diffdriver._build_arg_parser()
                ns = parser.parse_args(['diff'] + flags + ['nb.ipynb', 'a.ipynb', '0' * 40, '100644', 'b.ipynb', '1' * 40, '100644'])
            else:
                parser = nbdiffapp._build_arg_parser(prog='nbdiff')        # the name the console script runs under
                ns = parser.parse_args(['a.ipynb', 'b.ipynb'] + flags)
            nargs.process_diff_flags(ns)
        finally:
            os.chdir(old)
            for k, v in saved.items():
                if v is None:
                    os.environ.pop(k, None)
                else:
                    os.environ[k] = v
            shutil.rmtree(d, ignore_errors=True)
        return {'config ' + section: {c: False for c in by_config}, 'flags': flags, 'entry point': 'git-nbdiffdriver diff' if driver else 'nbdiff'}
    if form in ('negative', 'positive'):
        import argparse
        parser = argparse.ArgumentParser()
        nargs.add_diff_args(parser)
        ns = parser.parse_args(flags)
        nargs.process_diff_flags(ns)
        return flags
    mapping = {}
    if 'sources' in ignored:
        mapping['/cells/*/source'] = True
    if 'outputs' in ignored:
        mapping['/cells/*/outputs'] = True
    if 'attachments' in ignored:
        mapping['/cells/*/attachments'] = True
        mapping.setdefault('/cells/*', [])
        mapping['/cells/*'] = list(mapping['/cells/*']) + ['attachments']
    if 'metadata' in ignored and form == 'keylist':
        nbk, cellk, outk = _metadata_keys(nbs)
        mapping['/metadata'] = nbk
        mapping['/cells/*/metadata'] = cellk
        mapping['/cells/*/outputs/*/metadata'] = outk
    elif 'metadata' in ignored:
        mapping['/metadata'] = True
        mapping['/cells/*/metadata'] = True
        mapping['/cells/*/outputs/*/metadata'] = True
    if 'id' in ignored:
        mapping['/cells/*'] = list(mapping.get('/cells/*', [])) + ['id']
    if 'details' in ignored:
        mapping['/cells/*'] = list(mapping.get('/cells/*', [])) + ['execution_count']
        mapping['/cells/*/outputs/*'] = ['execution_count']
    nbd.set_notebook_diff_ignores(mapping)
    return mapping


def check_pair(a, b, ignored, form):
    from nbdime.diffing import notebooks as nbd
    from nbdime.patching import patch_notebook
    from bounded import nbspace
    out = []
    how = configure(ignored, form, (a, b))
    try:
        try:
            d = nbd.diff_notebooks(a, b)
        except Exception:
            return out                 # no diff at all: C01's business (reported there), nothing to judge here
        pd = nbspace.to_plain(d)
        for sp, e in entries(pd):
            cat = category(sp)
            if cat in ignored and form == 'config-mixed' and cat in how['by_map'] and len(how['config NbDiff']) > 1:
                # recorded finding: a boolean in the configuration makes process_diff_flags re-install the standard table, which
                # wipes what the Ignore mapping of the same configuration had set
                out.append(('ignore-mapping-reset-by-config-boolean', 'category %s, hidden through the Ignore mapping of the configuration, is reported at %s because the same '
                            'configuration also sets a boolean (%r)' % (cat, sp, how['config NbDiff'])))
                break
            if cat in ignored:
                out.append(('reported:' + cat, 'ignored category %s is reported at %s: %r (ignored=%s via %s %r)' % (cat, sp, e if e['op'] != 'patch' else {'op': 'patch', 'key': e['key']}, sorted(ignored), form, how)))
                break
        try:
            p = patch_notebook(a, d)
            if nbspace.canon(mask(nbspace.to_plain(p), ignored)) != nbspace.canon(mask(nbspace.to_plain(b), ignored)):
                from bounded.difforacles import first_difference
                out.append(('roundtrip', 'patching with the filtered diff does not reproduce the non-ignored parts: %s (ignored=%s via %s)'
                            % (first_difference(mask(nbspace.to_plain(p), ignored), mask(nbspace.to_plain(b), ignored)), sorted(ignored), form)))
        except Exception as exc:
            out.append(('patch-crash', 'patch_notebook raised %s: %s (ignored=%s via %s)' % (type(exc).__name__, exc, sorted(ignored), form)))
        reset = any(k == 'ignore-mapping-reset-by-config-boolean' for k, _ in out)      # the non-empty diff below is that finding again
        if 'sources' not in ignored and not reset and nbspace.canon(mask(nbspace.to_plain(a), ignored)) == nbspace.canon(mask(nbspace.to_plain(b), ignored)) and pd:
            kind = 'nonempty'
            cells_diff = [e for e in pd if e.get('key') == 'cells' and e['op'] == 'patch']
            if 'outputs' in ignored and len(a['cells']) == len(b['cells']) and len(pd) == 1 and cells_diff and \
                    any(e['op'] in ('addrange', 'removerange') for e in cells_diff[0]['diff']):
                # cause analysis: with the outputs of B made equal to A's (cell by cell) the diff is empty, i.e. the only thing that keeps
                # the cells from being aligned is the difference in their ignored outputs (the alignment predicates compare outputs)
                b_eq = copy.deepcopy(b)
                for ca, cb in zip(a['cells'], b_eq['cells']):
                    if ca['cell_type'] == 'code' and cb['cell_type'] == 'code':
                        cb['outputs'] = copy.deepcopy(ca['outputs'])
                if not nbd.diff_notebooks(a, b_eq):
                    kind = 'nonempty:outputs-misalign'
                elif 'id' in ignored:
                    # ... or, with ids ignored too, the (ignored) ids: cells are aligned by id first, whatever the options say
                    for ca, cb in zip(a['cells'], b_eq['cells']):
                        if 'id' in ca and 'id' in cb:
                            cb['id'] = ca['id']
                    if not nbd.diff_notebooks(a, b_eq):
                        kind = 'nonempty:ids-misalign'
            elif 'id' in ignored and len(a['cells']) == len(b['cells']) and len(pd) == 1 and cells_diff and \
                    any(e['op'] in ('addrange', 'removerange') for e in cells_diff[0]['diff']):
                b_eq = copy.deepcopy(b)
                for ca, cb in zip(a['cells'], b_eq['cells']):
                    if 'id' in ca and 'id' in cb:
                        cb['id'] = ca['id']
                if not nbd.diff_notebooks(a, b_eq):
                    kind = 'nonempty:ids-misalign'
            out.append((kind, 'notebooks differ only in ignored categories %s but the diff is not empty: %r' % (sorted(ignored), pd[:1])))
    finally:
        nbd.reset_notebook_differ()
    if form == 'config-mixed' and any(k == 'nonempty' for k, _ in out):
        # cause analysis for the mixed configuration: the same pair with the same categories switched off by flags (everything really in
        # force).  If the diff is non-empty there too, it is that cause (an alignment finding); if it is empty there, the mapping half of
        # the configuration was not in force -- the recorded reset finding
        ref = [k for k, _ in check_pair(a, b, ignored, 'negative') if k.startswith('nonempty')]
        kind = ref[0] if ref else ('ignore-mapping-reset-by-config-boolean' if len(how['config NbDiff']) > 1 and how['by_map'] else 'nonempty')
        out = [((kind, t) if k == 'nonempty' else (k, t)) for k, t in out]
    return out


def _job(job):
    seed, n = job
    logging.disable(logging.CRITICAL)
    from bounded import nbspace
    rnd = random.Random(abs(seed))
    out, cnt, keys, sample = [], 0, set(), None
    subsets = [frozenset(c for c, bit in zip(CATS, bits) if bit) for bits in itertools.product([0, 1], repeat=6)]
    cat_ops = {'outputs': ['outputs_clear', 'outputs_append', 'outputs_change'], 'attachments': ['attachments'],
               'metadata': ['metadata_flag', 'metadata_tags', 'nb_metadata', 'output_metadata', 'falsy_swap', 'nested_named_keys'],
               'details': ['execution_count'], 'sources': ['source_line_add', 'source_line_change']}
    pairs = list(nbspace.pairs(seed, n, max_edits=3))
    for pi, (a, b) in enumerate(pairs):
        for ignored in rnd.sample(subsets, 6) + [frozenset(CATS), frozenset()]:
            # every other case: B differs from A only inside the ignored categories
            if pi % 2 == 1 and ignored:
                b2 = a
                for _ in range(rnd.randint(1, 3)):
                    cat = rnd.choice(sorted(ignored))
                    if cat == 'id':
                        b2 = copy.deepcopy(b2)
                        for c in b2['cells']:
                            if 'id' in c and rnd.random() < 0.5:
                                c['id'] = c['id'] + 'x'
                    else:
                        b2 = nbspace.apply_edit(b2, rnd.choice(cat_ops[cat]), rnd)
                        if cat in ('outputs', 'metadata', 'details', 'attachments') and nbspace.canon(mask(nbspace.to_plain(a), ignored)) != nbspace.canon(mask(nbspace.to_plain(b2), ignored)):
                            b2 = a          # the edit fell back to another category (e.g. no code cell): skip it
                bb = b2
            else:
                bb = b
            if nbspace.validate_strict(bb):
                continue
            for form in ('negative', 'positive', 'mapping', 'keylist', 'config+flags', 'config-mixed'):
                if form in ('config+flags', 'config-mixed') and not ignored:
                    continue
                if form == 'config-mixed' and len(ignored) < 2:
                    continue
                cnt += 1
                keys.add(hash((nbspace.canon(a), nbspace.canon(bb), ignored, form)))
                fails = check_pair(a, bb, ignored, form)
                if sample is None and fails == [] and ignored:
                    sample = {'ignored': sorted(ignored), 'form': form, 'cells_a': len(a.cells), 'cells_b': len(bb.cells)}
                for kind, detail in fails:
                    out.append((kind, detail, {'seed': seed, 'n': n, 'pair': pi, 'ignored': sorted(ignored), 'form': form}))
    return cnt, out, list(keys), sample


def replay_case(where):
    cnt, out, _, _ = _job((where['seed'], where['n']))
    return [o for o in out if o[2]['pair'] == where['pair'] and o[2]['ignored'] == where['ignored'] and o[2]['form'] == where['form']]


def proof_part(res):
    """Tier E: the category -> path table of set_notebook_diff_targets on every path; syntactic dispatch lemma at the recursive call sites."""
    from contracts import kit_e
    st = kit_e.dispatch_obligations(common.REPO)
    if len(st) < 6:
        raise common.CheckerDefect('dispatch obligations missing')
    res.obligations += len(st)
    bad = [t for t, ok in st if not ok]
    res.discharged += len(st) - len(bad)
    res.backends['call-site scan(syntactic)'] = len(st) - len(bad)
    res.functions['recursive differ call sites (generic.py, snakes.py, notebooks.diff_single_outputs)'] = 'proved' if not bad else 'failed'
    for t in bad[:3]:
        res.violation('dispatch obligation fails: %s' % t, {'obligation': 'c14-dispatch', 'text': t, 'kind': 'failed-call-site-obligation'}, no_input=True)
    failed = []
    for job in kit_e.C14_JOBS:
        f = common.prove_paths(res, job[0], job[1], job[2], default_raises=job[3])
        failed += f or []
    return failed


def run(res):
    failed = proof_part(res)
    nviol = len(res.violations)
    q = res.tier == 'quick'
    jobs = [(res.seed * 4099 + s, 30 if q else 120) for s in range(32 if q else 96)]
    # the systematic sweep of the pair space (every pool cell x every edit operation; negative seeds select it in nbspace.pairs)
    jobs += [(-(res.seed * 19 + s + 1), 0) for s in range(1 if q else 4)]
    seen = set()
    for cnt, fails, keys, sample in common.pmap(_job, jobs):
        res.evaluations += cnt
        res.nontrivial.update(keys)
        if sample:
            res.sample(sample)
        for kind, detail, where in fails:
            fid = None
            for prefix, f in KNOWN.items():
                if common.kind_matches(kind, prefix):
                    fid = f
            if fid:
                res.known_hit(fid)
                continue
            if kind in seen:
                continue
            seen.add(kind)
            res.violation('%s [%s]' % (detail, kind), dict(where, replay_kind='call', module='checks.c14', function='replay_case', args=[where]))
    witness = res.violations[nviol]['what'][:300] if failed and len(res.violations) > nviol else None
    common.report_path_failures(res, failed, witness)
    res.coverage['explanation'] = ('Proved (Tier E, all 16 paths of set_notebook_diff_targets): every path of each category is switched by `not <flag>`, the key filters for details/id/'
                                   'attachments are set (or reset with False) on every call, nothing else is switched; proved (call-site scan): every recursive differ call in diff_lists, '
                                   'diff_dicts, compute_diff_from_snakes and diff_single_outputs takes its callee from config.differs[subpath] and hands on path and config. NOT proved '
                                   '(bounded stand-in): the resulting diff hides exactly the ignored categories for every notebook pair; flag parsing (process_exclusive_ignorables).')
    res.coverage['rule'] = ('notebook pairs from the grammar (every second one differing from A only inside the ignored categories) x 8 of the 64 ignore subsets per pair '
                            '(always the full and the empty set) x 3 ways of giving them (negative flags, positive flags through the real argparse actions and '
                            'process_diff_flags; an Ignore mapping through set_notebook_diff_ignores); oracle: category table of the property statement, masking of ignored fields')
    res.assumptions += ['bounded: only the stated small scope is explored',
                        'in the mapping form the id and attachments categories are given as key filters on /cells/* (a whole-path entry for an atomic or optional key cannot hide its replacement/addition)']


def replay(path):
    return common.replay_file(path)
