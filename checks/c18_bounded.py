"""C18 -- git integration setup is idempotent and never touches foreign settings (bounded monitor against real git).

nbdime's real `config` sub-commands (nbdime.vcs.git.{diffdriver,mergedriver,difftool,mergetool}.main and
nbdime.__main__.main_dispatch(['config-git', ...])) are executed in-process inside a temp HOME + temp repository; each
command's effect is observed through `git config --list --show-origin`, the bytes of the attributes files and
`git check-attr`, and judged by bounded.c18_world.judge. The histories (command sequences up to length 3) are explored
as a graph: the state of the world is the content of the user-owned files, every (state, command) pair is executed
once, so every sequence up to the depth bound is a path whose every step was executed and judged."""
import random

from . import common
from .common import CheckerDefect

LEVEL = 'exploration'

KNOWN = {}

DEPTH = 3
QUICK_LAST = 4     # quick tier: commands sampled per state at the last level (levels 1 and 2 are always exhaustive)


def _fixed_inits():
    from bounded.c18_world import make_init as mk
    both = lambda v: {'merge.tool': v, 'diff.guitool': v}
    return [
        mk(),
        mk(attrs_repo='rules-nonl', attrs_global='rules-nonl', extras=True),
        mk(attrs_repo='rules-nl', attrs_global='rules-nl', loc='xdg'),
        mk(dict(both('nbdime'), **{'mergetool.prompt': 'true', 'difftool.prompt': 'true'}), both('meld'), extras=True),
        mk(both('meld'), dict(both('nbdime'), **{'mergetool.prompt': 'true', 'difftool.prompt': 'false'}), attrs_repo='rules-nl'),
        mk(both('meld'), both('meld'), attrs_repo='nbdime-diff-nonl', attrs_global='nbdime-merge-nl', extras=True),
        mk(both('nbdime'), both('nbdime'), attrs_repo='nbdime-both', attrs_global='nbdime-both', drivers_repo=True, drivers_global=True),
        mk({'merge.tool': 'nbdime'}, {'merge.tool': 'meld'}, attrs_global='rules-nonl', loc='corefile'),
        mk(attrs_global='rules-nl', loc='corefile+stale'), mk(attrs_global='absent', loc='corefile+stale'),
        mk({'diff.guitool': 'nbdime'}, {'diff.guitool': 'meld'}, attrs_repo='empty', attrs_global='nbdime-oneline', loc='corefile', extras=True),
        mk({'merge.tool': 'meld', 'diff.guitool': 'nbdime'}, {'merge.tool': 'nbdime', 'diff.guitool': 'meld'},
           attrs_repo='nbdime-oneline', attrs_global='empty', loc='xdg', drivers_global=True),
        mk(attrs_repo='rules-nonl', attrs_global='absent', loc='xdg', drivers_repo=True),
    ]


def build_jobs(tier, seed):
    """[(init, scope, depth, exact, sample_last, seed)]; sample_last: commands tried per state at the last level (None = all)"""
    from bounded import c18_world as W
    rnd = random.Random(seed * 7919 + 18)
    inits = _fixed_inits()
    if tier == 'quick':
        inits += [W.random_init(rnd) for _ in range(5)]
        exact = False
    else:
        # every two-scope combination of merge.tool x diff.guitool (81), every attributes combination x location
        names = sorted(W.ATTRS)
        n = 0
        for mr in W.TOOLVALS:
            for mg in W.TOOLVALS:
                for dr in W.TOOLVALS:
                    for dg in W.TOOLVALS:
                        i = W.random_init(rnd)
                        i['repo'].update({'merge.tool': mr, 'diff.guitool': dr})
                        i['global'].update({'merge.tool': mg, 'diff.guitool': dg})
                        # ... and every two-scope combination of the two prompts, paired with them by a bijection
                        q = (n * 7 + 3) % 81
                        i['repo'].update({'mergetool.prompt': W.PROMPTS[q % 3], 'difftool.prompt': W.PROMPTS[q // 3 % 3]})
                        i['global'].update({'mergetool.prompt': W.PROMPTS[q // 9 % 3], 'difftool.prompt': W.PROMPTS[q // 27]})
                        inits.append(i)
                        n += 1
        for a, ar in enumerate(names):
            for b, ag in enumerate(names):
                i = W.random_init(rnd)
                i['attrs'] = {'repo': ar, 'global': ag}
                i['loc'] = W.LOCS[(a + b) % len(W.LOCS)]      # every global variant meets every location
                inits.append(i)
        inits += [W.random_init(rnd) for _ in range(4)]
        exact = True
    return [(i, s, DEPTH, exact, QUICK_LAST if tier == 'quick' else None, seed * 1009 + n)
            for n, i in enumerate(inits) for s in (None, 'global')]


def _isolated(fn, *args):
    """fn(*args) in a process forked for this call alone: the commands under check run in-process, and whatever a command may keep in
    module-level state must not leak from one exploration into the next (pool workers are reused)"""
    from bounded import c20_web
    try:
        return c20_web.forked(fn, *args)
    except Exception as exc:
        raise CheckerDefect(str(exc)[-1500:])


def _explore(job):
    return _isolated(_explore_here, job)


def _explore_here(job):
    """all command sequences up to `depth` from one initial configuration in one scope, as a graph over world states"""
    init, scope, depth, exact, sample_last, seed = job
    rnd = random.Random(seed)
    from bounded import c18_world as W
    world = W.World(init)
    fails = {}          # kind -> (text, seq)
    transitions = 0
    keys = []
    sample = None

    def fail(kind, text, seq):
        if kind not in fails or len(seq) < len(fails[kind][1]):
            fails[kind] = (text, list(seq))

    try:
        keyf = W.exact_key if exact else W.semantic_key
        s0 = world.observe()
        states = {keyf(s0): (s0, [])}
        edges = {}
        frontier = [keyf(s0)]
        npaths = 0
        reach = {keyf(s0): 1}       # number of command sequences (of the current length) ending in each state
        for d in range(depth):
            nxt = []
            nreach = {}
            for sk in frontier:
                obs, path = states[sk]
                cmds = W.COMMANDS
                if sample_last is not None and d == depth - 1 and d > 0:
                    # the commands that produced this state are always re-run (idempotency pairs), the others are sampled
                    again = {c for (s_, c), t_ in edges.items() if t_ == sk and c.startswith('enable:')}
                    rest = [c for c in W.COMMANDS if c not in again]
                    pick = again | set(rnd.sample(rest, min(sample_last, len(rest))))
                    cmds = [c for c in W.COMMANDS if c in pick]
                for cmd in cmds:
                    world.restore((obs['files'], obs['dirs']))
                    exc = world.run(cmd, scope)
                    after = world.observe()
                    transitions += 1
                    for kind, text in W.judge(obs, after, cmd, scope, exc):
                        fail(kind, text, path + [cmd])
                    tk = keyf(after)
                    edges[(sk, cmd)] = tk
                    if tk not in states:
                        states[tk] = (after, path + [cmd])
                        nxt.append(tk)
                    if sample is None and d == 1 and cmd == 'disable:all' and W.semantic_key(after) != W.semantic_key(obs):
                        sample = {'init': W.init_label(init), 'scope': scope or 'repo', 'sequence': path + [cmd],
                                  'effect': W.describe_diff(obs, after)[:300]}
            # count the sequences this level stands for
            for (sk, cmd), tk in edges.items():
                if sk in reach:
                    nreach[tk] = nreach.get(tk, 0) + reach[sk]
            npaths += sum(nreach.values())
            reach = nreach
            # every state must be expanded once only: states first seen at this level form the next frontier
            frontier = nxt
        # idempotency: enable;enable == enable wherever both steps were executed
        pairs = 0
        for (sk, cmd), tk in list(edges.items()):
            if not cmd.startswith('enable:') or (tk, cmd) not in edges:
                continue
            uk = edges[(tk, cmd)]
            pairs += 1
            once, twice = states[tk][0], states[uk][0]
            if W.semantic_key(once) != W.semantic_key(twice):
                fail('not-idempotent', 'nbdime %s%s run a second time changes the configuration again: %s'
                     % (cmd, ' --' + scope if scope else '', W.describe_diff(once, twice)), states[sk][1] + [cmd, cmd])
        if sample_last is None and npaths != sum(len(W.COMMANDS) ** k for k in range(1, depth + 1)):
            raise CheckerDefect('state graph does not represent every sequence: %d' % npaths)
        label = W.init_label(init)
        for (sk, cmd) in edges:
            keys.append(hash((label, scope, sk, cmd)))
        return {'transitions': transitions, 'pairs': pairs, 'states': len(states), 'sequences': npaths, 'keys': keys,
                'fails': [(k, t, seq) for k, (t, seq) in fails.items()], 'sample': sample, 'init': init, 'scope': scope}
    finally:
        world.close()


def _run_sequence(init, scope, seq):
    """plain re-execution (no memoisation) of one command sequence in a fresh process; returns [(kind, text, step)].
    `scope` is one scope for all commands, or a list with one scope per command (mixed-scope sessions)"""
    return _isolated(_run_sequence_here, init, scope, seq)


def _run_sequence_here(init, scope, seq):
    from bounded import c18_world as W
    world = W.World(init)
    out = []
    scopes = list(scope) if isinstance(scope, (list, tuple)) else [scope] * len(seq)
    try:
        obs = [world.observe()]
        for i, cmd in enumerate(seq):
            if cmd not in W.COMMANDS:
                raise CheckerDefect('unknown command %r' % (cmd,))
            sc = scopes[i]
            exc = world.run(cmd, sc)
            obs.append(world.observe())
            for kind, text in W.judge(obs[-2], obs[-1], cmd, sc, exc):
                out.append((kind, text, i))
            if i and seq[i - 1] == cmd and scopes[i - 1] == sc and cmd.startswith('enable:') and W.semantic_key(obs[-2]) != W.semantic_key(obs[-1]):
                out.append(('not-idempotent', 'nbdime %s%s run a second time changes the configuration again: %s'
                            % (cmd, ' --' + sc if sc else '', W.describe_diff(obs[-2], obs[-1])), i))
        return out
    finally:
        world.close()


def _mixed_job(job):
    """sessions that mix repository-scope and --global commands in ONE process (a set-up script, a notebook): every command is judged
    with its own scope"""
    from bounded import c18_world as W
    seed, n = job
    rnd = random.Random(seed)
    out, cnt = [], 0
    for k in range(n):
        init = W.random_init(rnd) if k % 2 else W.make_init()
        seq = [rnd.choice(W.COMMANDS) for _ in range(rnd.randint(2, 4))]
        scopes = [rnd.choice([None, 'global']) for _ in seq]
        if len(set(scopes)) == 1:
            scopes[-1] = 'global' if scopes[0] is None else None
        cnt += len(seq)
        for kind, text, i in _run_sequence(init, scopes, seq):
            out.append((kind, text, init, scopes[:i + 1], seq[:i + 1]))
    return cnt, out


def replay_case(where):
    out = _run_sequence(where['init'], where['scope'], where['sequence'])
    kind = where.get('kind')
    return [[k, t, i] for k, t, i in out if kind is None or k == kind]


def _complexity(init):
    n = sum(1 for s in ('repo', 'global') for v in init[s].values() if v is not None)
    n += sum(1 for s in ('repo', 'global') if init['attrs'][s] != 'absent')
    return n + (init['loc'] != 'default') + init['extras'] + sum(init['drivers'].values())


def run_bounded(res):
    from bounded import c18_world as W
    jobs = build_jobs(res.tier, res.seed)
    best = {}
    totals = {'transitions': 0, 'pairs': 0, 'sequences': 0, 'states': 0}
    for r in common.pmap(_explore, jobs):
        for k in totals:
            totals[k] += r[k]
        res.evaluations += r['transitions'] + r['pairs']
        res.nontrivial.update(r['keys'])
        if r['sample']:
            res.sample(r['sample'])
        for kind, text, seq in r['fails']:
            rank = (len(seq), _complexity(r['init']))
            if kind not in best or rank < best[kind][0]:
                best[kind] = (rank, text, seq, r['init'], r['scope'])
    # mixed-scope sessions (plain sequences, one fresh process each)
    nmixed = 0
    for cnt, fails in common.pmap(_mixed_job, [(res.seed * 7331 + s, 6 if res.tier == 'quick' else 30) for s in range(16)]):
        nmixed += cnt
        res.evaluations += cnt
        for kind, text, init, scopes, seq in fails:
            rank = (len(seq), _complexity(init))
            if kind not in best or rank < best[kind][0]:
                best[kind] = (rank, text, seq, init, scopes)
    res.coverage['mixed_scope_command_executions'] = nmixed
    for kind in sorted(best):
        _, text, seq, init, scope = best[kind]
        fid = next((f for p, f in KNOWN.items() if common.kind_matches(kind, p)), None)
        if fid:
            res.known_hit(fid)
            continue
        where = {'init': init, 'scope': scope, 'sequence': seq, 'kind': kind}
        # confirm by a plain re-execution from scratch before reporting (the graph search restores file snapshots)
        again = replay_case(where)
        if not again:
            raise CheckerDefect('failure %r found by the state-graph search does not reproduce as the plain sequence %r from %s'
                                % (kind, seq, W.init_label(init)))
        if isinstance(scope, (list, tuple)):
            how = ' (one process; scope per command: %s)' % ', '.join(sc or 'repository' for sc in scope)
        else:
            how = ' (--global, cwd = the repository)' if scope else ' (repository scope)'
        res.violation('initial configuration %s; commands%s: %s -- %s [%s]' % (
            W.init_label(init), how, ' ; '.join(seq), again[0][1], kind),
            dict(where, replay_kind='call', module='checks.c18_bounded', function='replay_case', args=[where]))
    res.coverage.update({'graphs': len(jobs), 'command_executions_judged': totals['transitions'], 'idempotency_pairs': totals['pairs'],
                         'sequences_represented': totals['sequences'], 'states': totals['states']})
    res.coverage['rule'] = (
        'initial configurations = %d hand-picked ones (vanilla; unrelated attributes rules with/without trailing newline; the two-scope '
        'combinations repo=nbdime/global=meld and the reverse; both meld; everything pre-enabled; core.attributesfile and XDG_CONFIG_HOME '
        'locations) + %s; each is a dict {repo,global: merge.tool, diff.guitool in unset/nbdime/meld, mergetool.prompt, difftool.prompt in '
        'unset/true/false; attributes file per scope in %s; location of the global attributes file in %s; optional foreign settings in the '
        'sections nbdime edits (diff.tool, merge.conflictstyle, mergetool.keepBackup, mergetool.meld.path, difftool.meld.cmd, diff.exif.textconv, '
        'merge.ours.driver, ...); optionally nbdime entries pre-installed per scope}. Each x scope in {repo, --global with the repo as cwd} is one '
        'graph: from the initial world every command of %d (enable/disable x diffdriver, mergedriver, difftool[+--set-default], '
        'mergetool[+--set-default], all four via `nbdime config-git`) is executed in-process through the real main() functions against real git, '
        'to depth %d; a state is the %s, and each (state, command) is executed and judged once, so %s. '
        'Oracles per step: crash, foreign-setting-changed/-added (any scope; --set-default may replace the default tool in its own scope), '
        'attributes-content-lost/-foreign-added/-duplicated (both attributes files + check-attr of x.csv/x.txt), not-routed-after-enable, '
        'tool-not-registered-after-enable, still-routed-after-disable; per pair: not-idempotent (enable;enable vs enable on parsed config of '
        'every scope and bytes of every other file). Distinct case = (initial configuration, scope, state, command).'
        % (len(_fixed_inits()),
           '5 seeded random ones' if res.tier == 'quick' else 'all 81 two-scope merge.tool x diff.guitool combinations (each paired with one of the 81 two-scope '
           'mergetool.prompt x difftool.prompt combinations, bijectively), all %d repo x global attributes combinations (locations cycled so that '
           'every global variant meets every location) -- other dimensions seeded random -- and 4 seeded random ones' % (len(W.ATTRS) ** 2),
           sorted(W.ATTRS), W.LOCS, len(W.COMMANDS), DEPTH,
           'parsed config of each scope + bytes of all other user files (quick tier)' if res.tier == 'quick' else 'exact bytes of every user-owned file',
           ('all sequences of length 1 and 2 are covered as paths and, at the third step, %d seeded-random commands per state plus the enable '
            'commands that led to it (so every enable;enable pair of the first two levels is completed)' % QUICK_LAST) if res.tier == 'quick'
           else 'all 14+14^2+14^3 sequences are covered as paths (checked by counting them)'))
    res.assumptions.append('bounded: only the stated configurations, commands and depth are explored')
    res.assumptions.append('a config command\'s effect depends only on the user-owned files (repo .git/config, global config, attributes files, '
                           'anything else under HOME / the work tree), the fixed environment and cwd -- this is what lets one execution per '
                           '(state, command) stand for every sequence through that state; every reported failure is re-executed as a plain sequence first')
    res.assumptions.append('git %s as installed; system config and system attributes are disabled (GIT_CONFIG_NOSYSTEM, GIT_ATTR_NOSYSTEM)'
                           % _git_version())
    res.assumptions.append('jinja2 / jupyter_server / requests are the stubs of /verif/stubs (only needed to import the tool modules)')
    if res.tier == 'quick':
        res.assumptions.append('quick tier: states are identified by parsed config + file bytes (formatting of config files, e.g. emptied section headers, is not distinguished)')


def _git_version():
    import subprocess
    try:
        return subprocess.check_output(['git', '--version']).decode().strip().split()[-1]
    except Exception:
        return '?'


run = run_bounded


def replay(path):
    return common.replay_file(path)
