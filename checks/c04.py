"""C04 -- a merged notebook validates against its declared format (bounded stand-in; oracle: nbformat's
own schema file for the declared minor, applied with jsonschema directly)."""
from . import common, mergecommon

LEVEL = 'exploration'

KNOWN = {
    'invalid:marker-id-pre45': 'C04-marker-id-pre45',
    'invalid:id-not-string': 'C04-similar-insert-id-dict',
    'invalid:retype-key': 'C04-retype-key',
    'invalid:id-missing': 'C04-upgrade-id-missing',
    'invalid:cleared-output': 'C04-cleared-output',
    'invalid:tag-added-by-both-sides-at-different-places': 'C04-same-tag-twice',
    'invalid:one-sided-upgrade-id-missing': 'C04-one-sided-upgrade-id-missing',
}


def run(res):
    mergecommon.run_merge_cases(res, {'C03', 'C04'}, 'C04', KNOWN, quick=(64, 80, 16), thorough=(128, 100, 282))
    res.assumptions += ['bounded: only the stated small scope is explored',
                        'oracle: nbformat/v4/nbformat.v4.<minor>.schema.json as shipped in this sandbox, validated with jsonschema']


def replay(path):
    return common.replay_file(path)
