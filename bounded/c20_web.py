"""Harness of the C20 bounded contract: servers of nbdime.webapp.nbdimeserver started in-process (real
init_app, loopback socket 127.0.0.1:0) inside FORKED CHILD PROCESSES, request-sequence grammar, disk snapshots,
library oracles.

Process discipline (this is what makes 'answered as if it were the first' checkable although nbdime keeps
process-global differ state): the process that calls `run_case` never executes nbdime diff/merge/server code
itself. Every server run and every oracle evaluation happens in a child forked from it (`forked`), so each of them
starts from the state a freshly started nbdime process has (modules imported, nothing called yet).
"""
import asyncio
import gc
import copy
import io
import json
import logging
import os
import pickle
import random
import shutil
import stat
import traceback
from urllib.parse import quote, urlencode

from . import nbspace
from .nbspace import canon, to_plain

DEVNULL = os.devnull            # == nbdime.utils.EXPLICIT_MISSING_FILE (asserted in preload)
API = {'diff': 'api/diff', 'merge': 'api/merge', 'store': 'api/store', 'close': 'api/closetool'}
PAGES = ['', 'diff', 'difftool', 'merge', 'mergetool']
DOCUMENTED = [('GET', p) for p in PAGES] + [('POST', p) for p in API.values()]
KINDS = ['plain', 'mergeweb', 'difftool', 'mergetool']
BASE_URLS = ['/', '/pre/', '/a/b']
T1 = {'base': 'base.ipynb', 'local': 'local.ipynb', 'remote': 'remote.ipynb'}
T2 = {'base': 'sub/base2.ipynb', 'local': 'sub/local 2.ipynb', 'remote': 'sub/remöte2.ipynb'}
BAD_FILES = {'text.ipynb': b'hello, this is not a notebook\n', 'json.ipynb': b'{"a": 1}', 'list.ipynb': b'[1, 2]',
             'empty.ipynb': b'',
             # what an interrupted save leaves behind: the first one to three characters of a notebook
             'tiny.ipynb': b'{', 'tiny3.ipynb': b'{ "'}
NOT_NOTEBOOKS = [5, 'x', [1], None, {}, {'foo': 1}, {'cells': 3}, True]


def _defect(msg):
    from checks.common import CheckerDefect
    return CheckerDefect(msg)


# ------------------------------------------------------------------------------------------
# fork

def preload():
    "import (never call) everything the children need, so that a fork is cheap and starts pristine"
    import nbformat  # noqa
    import tornado.httpclient, tornado.httpserver, tornado.simple_httpclient, tornado.web  # noqa
    import nbdime.webapp.nbdimeserver, nbdime.webapp.nbdiffweb, nbdime.webapp.nbmergeweb  # noqa
    import nbdime.webapp.nbdifftool, nbdime.webapp.nbmergetool  # noqa
    import nbdime.patching, nbdime.diff_utils, nbdime.merging.notebooks, nbdime.diffing.notebooks  # noqa
    import contracts.specs  # noqa
    from . import mergespace, mergeoracles  # noqa
    # nbformat compiles one validator per schema version on first use (~70 ms each): do it once, before forking
    for nb in nbspace.base_notebooks(1) + [nbformat.v4.new_notebook()]:
        for v in (nb, nbformat.reads(json.dumps(to_plain(nb)), as_version=4)):
            nbformat.validate(v)
            nbformat.writes(v)
    from nbdime.utils import EXPLICIT_MISSING_FILE
    if EXPLICIT_MISSING_FILE != DEVNULL:
        raise _defect('EXPLICIT_MISSING_FILE is %r' % (EXPLICIT_MISSING_FILE,))
    # keep the children from copying the parent's heap page by page when the collector touches object headers
    gc.collect()
    gc.freeze()


def forked(fn, *args):
    """run fn(*args) in a forked child, return its (pickled) result; an exception of the child is a harness defect"""
    r, w = os.pipe()
    pid = os.fork()
    if pid == 0:
        code = 0
        try:
            gc.disable()
            os.close(r)
            try:
                out = ('ok', fn(*args))
            except BaseException:
                out = ('exc', traceback.format_exc())
            with os.fdopen(w, 'wb') as fh:
                fh.write(pickle.dumps(out))
        except BaseException:
            code = 1
        finally:
            os._exit(code)
    os.close(w)
    with os.fdopen(r, 'rb') as fh:
        data = fh.read()
    os.waitpid(pid, 0)
    if not data:
        raise _defect('forked child of %s died without an answer' % fn.__name__)
    tag, val = pickle.loads(data)
    if tag != 'ok':
        raise _defect('forked child of %s failed:\n%s' % (fn.__name__, val))
    return val


# ------------------------------------------------------------------------------------------
# disk

def snapshot(root):
    """whole tree: names, kinds, permission bits, sizes and contents"""
    out = {}
    for dp, dns, fns in os.walk(root):
        for name in dns + fns:
            p = os.path.join(dp, name)
            key = os.path.relpath(p, root)
            st = os.lstat(p)
            if stat.S_ISLNK(st.st_mode):
                out[key] = ('l', os.readlink(p))
            elif stat.S_ISDIR(st.st_mode):
                out[key] = ('d', stat.S_IMODE(st.st_mode))
            elif stat.S_ISREG(st.st_mode):
                with open(p, 'rb') as fh:
                    out[key] = ('f', stat.S_IMODE(st.st_mode), fh.read())
            else:
                out[key] = ('o', st.st_mode)
    return out


def restore(root, snap):
    for name in os.listdir(root):
        p = os.path.join(root, name)
        if os.path.isdir(p) and not os.path.islink(p):
            shutil.rmtree(p)
        else:
            os.remove(p)
    for key in sorted(snap):
        ent = snap[key]
        p = os.path.join(root, key)
        if ent[0] == 'd':
            os.mkdir(p)
            os.chmod(p, ent[1])
        elif ent[0] == 'f':
            with open(p, 'wb') as fh:
                fh.write(ent[2])
            os.chmod(p, ent[1])
        elif ent[0] == 'l':
            os.symlink(ent[1], p)
        else:
            raise _defect('cannot restore %r' % (ent,))


def delta(before, after):
    out = []
    for k in sorted(set(before) | set(after)):
        a, b = before.get(k), after.get(k)
        if a == b:
            continue
        if a is None:
            out.append((k, 'created (%s)' % ('%d bytes' % len(b[2]) if b[0] == 'f' else b[0])))
        elif b is None:
            out.append((k, 'removed'))
        elif a[0] == b[0] == 'f':
            out.append((k, 'changed (%d -> %d bytes)' % (len(a[2]), len(b[2])) if a[2] != b[2] else 'mode changed'))
        else:
            out.append((k, 'changed kind/mode'))
    return out


def nb_bytes(nb):
    return json.dumps(to_plain(nb), indent=1, ensure_ascii=False).encode('utf8')


def initial_tree(case):
    """files of one case: two triples of notebooks, non-notebook files, places a request could try to write to"""
    t1, t2 = case['t1'], case['t2']
    tree = {'work': ('d', 0o755), 'work/sub': ('d', 0o755), 'work/dir.ipynb': ('d', 0o755),
            'elsewhere': ('d', 0o755), 'results': ('d', 0o755)}
    for names, t in ((T1, t1), (T2, t2)):
        for side, nb in zip(('base', 'local', 'remote'), t):
            tree['work/' + names[side]] = ('f', 0o644, nb_bytes(nb))
    for name, data in BAD_FILES.items():
        tree['work/' + name] = ('f', 0o644, data)
    tree['outside.ipynb'] = ('f', 0o644, nb_bytes(t2[2]))
    mode = case['mode']
    if mode.get('out') and mode.get('out_pre'):
        key = out_key(mode)
        data = nb_bytes(t1[1]) if mode['out_pre'] == 'nb' else b'<<<<<<< local\n{"cells": [\n=======\n>>>>>>> remote\n'
        tree[key] = ('f', 0o644, data)
    return tree


def out_key(mode):
    "snapshot key of the output file fixed at start-up"
    spec = mode['out']
    if spec.startswith('{R}/'):
        return spec[4:]
    return os.path.normpath(os.path.join('work', spec))


def subst(obj, root):
    if isinstance(obj, str):
        return obj.replace('{R}', root)
    if isinstance(obj, dict):
        return {k: subst(v, root) for k, v in obj.items()}
    if isinstance(obj, list):
        return [subst(v, root) for v in obj]
    return obj


# ------------------------------------------------------------------------------------------
# case grammar

def gen_mode(rnd, index):
    kind = KINDS[index % len(KINDS)]
    mode = {'kind': kind, 'closable': rnd.random() < 0.5, 'base_url': BASE_URLS[(index // len(KINDS)) % len(BASE_URLS)],
            'cwd': 'chdir' if rnd.random() < 0.2 else 'param', 'out': None}
    if kind in ('mergeweb', 'mergetool') and rnd.random() < 0.7:
        mode['out'] = rnd.choice(['merged.ipynb', 'sub/merged out.ipynb', '{R}/work/merged.ipynb', '{R}/results/merged.ipynb'])
        mode['out_pre'] = rnd.choice([None, 'junk', 'nb'])
    if kind == 'mergeweb':
        mode['show_base'] = rnd.random() < 0.7
    # 'cli': the server parameters are what the real entry point (nbdime.webapp.<app>.main / main_parsed /
    # handle_gitrefs) hands to run_server for a command line; 'direct': parameters built by the harness
    mode['via'] = 'cli' if rnd.random() < 0.7 else 'direct'
    if kind == 'mergetool' and not mode['out']:
        mode['via'] = 'direct'                      # nbmergetool's command line always names the merged file
    if kind == 'plain' and mode['via'] == 'cli':
        mode['entry'] = rnd.choice(['server', 'diffweb'])
        if mode['entry'] == 'server':
            mode['closable'] = False                # python -m nbdime.webapp.nbdimeserver is never closable
    if kind in ('difftool', 'mergetool'):
        mode['names'] = rnd.choice(['T1', 'T2'])
        mode['argform'] = rnd.choice(['rel', 'abs', 'file', 'blob'] if kind == 'difftool' else ['rel', 'abs'])
        u = rnd.random()
        # special: None | base is the explicit missing file | unreadable argument | (merge tool) empty base file
        mode['special'] = (None if u < 0.6 else 'missing-base' if u < 0.72 else 'empty-base' if u < 0.84 else
                           rnd.choice(['bad-text', 'bad-nofile', 'bad-json', 'bad-tiny', 'bad-tiny3']))
    return mode


def tool_args(mode):
    """names (relative to the work directory, or DEVNULL) of the notebooks a tool server is started with, and
    whether a request for them is answerable"""
    names = dict(T1 if mode['names'] == 'T1' else T2)
    if mode['kind'] == 'difftool':
        names = {'base': names['local'], 'remote': names['remote']}      # nbdifftool: base=opts.local
    ok = True
    sp = mode.get('special')
    victim = 'remote' if mode['kind'] == 'difftool' else 'local'
    if sp == 'missing-base':
        names['base'] = DEVNULL
    elif sp == 'empty-base':
        names['base'] = 'empty.ipynb'
        ok = mode['kind'] == 'mergetool'          # the merge tool reads an empty file as the empty notebook
    elif sp == 'bad-text':
        names[victim], ok = 'text.ipynb', False
    elif sp == 'bad-json':
        names[victim], ok = 'json.ipynb', False
    elif sp == 'bad-nofile':
        names[victim], ok = 'nonexistent.ipynb', False
    elif sp in ('bad-tiny', 'bad-tiny3'):
        names[victim], ok = sp[4:] + '.ipynb', False
    return names, ok


READABLE = list(T1.values()) + list(T2.values()) + ['./base.ipynb', '../outside.ipynb', '{R}/work/remote.ipynb',
                                                     '{R}/outside.ipynb', 'sub/../local.ipynb']
UNREADABLE = [('non-notebook-file', n) for n in BAD_FILES] + [
    ('unknown-path', 'nonexistent.ipynb'), ('unknown-path', 'dir.ipynb'), ('unknown-path', 'sub'),
    ('unknown-path', 'sub/nope/base.ipynb'), ('unknown-path', '{R}/elsewhere/x.ipynb'), ('unknown-path', ''),
    ('unreachable-url', 'http://127.0.0.1:9/x.ipynb'), ('unreachable-url', 'file://{R}/work/base.ipynb'),
    ('non-string-arg', 5), ('non-string-arg', None), ('non-string-arg', ['base.ipynb']), ('non-string-arg', {'a': 1}),
    ('non-string-arg', True)]
RAW_BAD = [('not-json', {'raw': 'not json {'}), ('not-json', {'raw': ''}), ('not-json', {'raw': '{"base": "base.ipynb",'}),
           ('not-json', {'hex': 'fffe00'}), ('json-not-object', {'raw': '[1, 2]'}), ('json-not-object', {'raw': '5'}),
           ('json-not-object', {'raw': '"base.ipynb"'}), ('json-not-object', {'raw': 'null'})]
EVIL = [{'outputfilename': 'evil.ipynb'}, {'path': '{R}/elsewhere/evil.ipynb'}, {'filename': '../outside.ipynb'},
        {'outputfilename': '{R}/results/evil.ipynb', 'cwd': '{R}/elsewhere'}, {'outputfilename': 'base.ipynb', 'path': 'local.ipynb'},
        {'filename': 'sub/evil.ipynb', 'path': 'sub', 'name': 'evil2.ipynb'}, {'params': {'outputfilename': 'evil.ipynb'}}]


def _read_request(rnd, ep, mode, want_valid):
    """a /api/diff or /api/merge request"""
    keys = ['base', 'remote'] if ep == 'diff' else ['base', 'local', 'remote']
    fixed = (ep == 'diff' and mode['kind'] == 'difftool') or (ep == 'merge' and mode['kind'] == 'mergetool')
    rq = {'ep': ep, 'method': 'POST', 'rel': API[ep], 'query': ''}
    if fixed:
        names, ok = tool_args(mode)
        # the front end posts the names it was given in the page configuration
        rq['body'] = {'json': {k: (names[k] if mode['argform'] == 'rel' or names[k] == DEVNULL else '{R}/work/' + names[k]) for k in keys}}
        rq['names'] = {k: names[k] for k in keys}
        rq['cls'], rq['label'] = ('valid', 'tool-args') if ok else ('malformed', 'tool-arg-' + mode['special'])
        if ok and mode.get('special') == 'empty-base':
            rq['empty_ok'] = True
        return rq
    if want_valid:
        names = {k: rnd.choice(READABLE) for k in keys}
        if rnd.random() < 0.1:
            names['base'] = DEVNULL
        body = dict(names)
        if rnd.random() < 0.2:
            body['outputfilename'] = 'evil.ipynb'          # ignored extras
        rq.update(body={'json': body}, names=names, cls='valid', label='names')
        return rq
    u = rnd.random()
    if u < 0.3:
        label, body = rnd.choice(RAW_BAD)
        rq.update(body=body, cls='malformed', label=label)
    elif u < 0.45:
        body = {k: rnd.choice(READABLE) for k in keys}
        for k in rnd.sample(keys, rnd.randint(1, len(keys))):
            del body[k]
        if rnd.random() < 0.3:
            body['bas'] = 'base.ipynb'
        rq.update(body={'json': body}, cls='malformed', label='missing-key')
    else:
        body = {k: rnd.choice(READABLE) for k in keys}
        label, bad = rnd.choice(UNREADABLE)
        body[rnd.choice(keys)] = bad
        rq.update(body={'json': body}, cls='malformed', label=label)
    return rq


def _store_request(rnd, mode, case, want_valid):
    rq = {'ep': 'store', 'method': 'POST', 'rel': API['store'], 'query': ''}
    which = rnd.randrange(6)
    body = {'merged': {'nbref': which}}
    if rnd.random() < 0.6:
        body.update(rnd.choice(EVIL))
    if rnd.random() < 0.25:
        rq['query'] = dict(rnd.choice([{'outputfilename': 'evil-q.ipynb'}, {'path': '{R}/elsewhere/evil-q.ipynb'},
                                            {'outputfilename': '../evil-q.ipynb', 'cwd': '{R}/elsewhere'}]))
    if want_valid:
        rq.update(body={'json': body}, cls='valid', label='notebook', nbref=which)
    else:
        u = rnd.random()
        if u < 0.35:
            label, raw = rnd.choice(RAW_BAD)
            rq.update(body=raw, cls='malformed', label=label)
        elif u < 0.55:
            body['merge'] = body.pop('merged')
            if rnd.random() < 0.4:
                body = {}
            rq.update(body={'json': body}, cls='malformed', label='missing-key')
        else:
            body['merged'] = rnd.choice(NOT_NOTEBOOKS)
            rq.update(body={'json': body}, cls='malformed', label='merged-not-notebook:' + ('object' if isinstance(body['merged'], dict) else 'scalar'))
    if not mode.get('out'):
        rq['cls'], rq['label'] = 'refused', 'no-output-file:' + rq['label']
    return rq


def _close_request(rnd, mode):
    rq = {'ep': 'close', 'method': 'POST', 'rel': API['close'], 'query': '', 'body': {'raw': ''}}
    u = rnd.randrange(4)
    code = rnd.choice([0, 1, 3])
    if u == 0:
        rq['body'] = {'json': {'exitCode': code}}
    elif u == 1:
        rq['query'] = 'exitCode=%d' % code
    elif u == 2:
        rq['headers'] = {'exit_code': str(code)}
    rq['cls'], rq['label'] = ('valid', 'closable') if mode['closable'] else ('refused', 'not-closable')
    return rq


def _other_malformed(rnd, mode):
    u = rnd.random()
    if u < 0.5:
        rel = rnd.choice(['api/nothing', 'api/diff/extra', 'nothing', 'api', 'api/stor', 'static/../api/../nothing'])
        return {'ep': 'other', 'method': rnd.choice(['GET', 'POST']), 'rel': rel, 'query': '', 'body': {'json': {'base': 'base.ipynb', 'remote': 'remote.ipynb'}},
                'cls': 'malformed', 'label': 'unknown-url'}
    if u < 0.7 and mode['base_url'] != '/':
        return {'ep': 'other', 'method': 'POST', 'rel': rnd.choice(list(API.values())), 'unprefixed': True, 'query': '',
                'body': {'json': {'base': 'base.ipynb', 'remote': 'remote.ipynb', 'merged': {'nbref': 0}}}, 'cls': 'malformed', 'label': 'outside-base-url'}
    rel = rnd.choice(list(API.values()))
    return {'ep': 'other', 'method': 'GET', 'rel': rel, 'query': 'base=base.ipynb&remote=remote.ipynb', 'body': None,
            'cls': 'malformed', 'label': 'wrong-method'}


def _page_request(rnd):
    rel = rnd.choice(PAGES)
    q = rnd.choice(['', 'base=base.ipynb&remote=remote.ipynb', 'base=base.ipynb&local=local.ipynb&remote=remote.ipynb'])
    return {'ep': 'page', 'method': 'GET', 'rel': rel, 'query': q, 'body': None, 'cls': 'valid', 'label': rel or 'root'}


def gen_requests(rnd, mode, case):
    n = rnd.randint(3, 6)
    out = []
    for _ in range(n):
        u = rnd.random()
        if u < 0.26:
            rq = _read_request(rnd, 'diff', mode, True)
        elif u < 0.42:
            rq = _read_request(rnd, 'merge', mode, True)
        elif u < 0.56:
            # a server without output file refuses every store: ask less often there
            rq = _store_request(rnd, mode, case, True) if mode.get('out') or rnd.random() < 0.3 else _read_request(rnd, 'diff', mode, True)
        elif u < 0.68:
            rq = _read_request(rnd, rnd.choice(['diff', 'merge']), mode, False)
        elif u < 0.78:
            rq = _store_request(rnd, mode, case, False) if mode.get('out') or rnd.random() < 0.3 else _read_request(rnd, 'merge', mode, False)
        elif u < 0.86:
            rq = _other_malformed(rnd, mode)
        elif u < 0.93:
            rq = _page_request(rnd)
        else:
            rq = _close_request(rnd, mode)
        out.append(rq)
    # a remote shutdown that is honoured ends the session: only as the last request
    out = [rq for i, rq in enumerate(out) if not (rq['ep'] == 'close' and rq['cls'] == 'valid' and i != len(out) - 1)]
    if mode['closable'] and rnd.random() < 0.35 and not (out and out[-1]['ep'] == 'close'):
        out.append(_close_request(rnd, mode))
    while len(out) < 3:
        out.insert(0, _read_request(rnd, 'diff', mode, rnd.random() < 0.5))
    # every sequence mixes requests that must be served with requests that must be turned down
    if all(rq['cls'] == 'valid' for rq in out):
        out[rnd.randrange(len(out) - 1)] = _read_request(rnd, 'diff', dict(mode, kind='plain'), False) if mode['kind'] != 'difftool' \
            else _store_request(rnd, mode, case, False)
    if all(rq['cls'] != 'valid' for rq in out):
        out[-1] = _read_request(rnd, 'diff', mode, True) if mode['kind'] != 'difftool' or tool_args(mode)[1] else _page_request(rnd)
    out = out[:7]
    # an input notebook is saved again between two requests (an editor save, `cp -p`, a checkout): the page is reloaded and the
    # same request comes again.  The new content has the same length and the file keeps its modification time, which is what a
    # save within one clock tick or a time-preserving copy looks like.  Only for arguments the server reads from disk by name.
    if rnd.random() < 0.4 and mode.get('argform', 'rel') in ('rel', 'abs'):
        cands = [i for i, rq in enumerate(out) if rq['ep'] in ('diff', 'merge') and rq['cls'] == 'valid'
                 and any(v != DEVNULL for v in rq['names'].values())]
        if cands:
            i = rnd.choice(cands)
            rq = out[i]
            victim = rnd.choice(sorted(k for k, v in rq['names'].items() if v != DEVNULL))
            ev = {'ep': 'event', 'method': 'EVENT', 'rel': 'save %s again' % rq['names'][victim], 'query': '', 'cls': 'event',
                  'label': 'same-size-same-mtime', 'file': rq['names'][victim]}
            out[i + 1:i + 1] = [ev, copy.deepcopy(rq)]
    return out


def rewrite_same_size(path):
    """save the notebook file again with one ASCII letter/digit of one cell source changed: same byte length, same mtime.
    Returns a description, or None when the file offers no such character (then nothing is changed)"""
    st = os.stat(path)
    with open(path, 'rb') as fh:
        raw = fh.read()
    try:
        doc = json.loads(raw.decode('utf8'))
    except ValueError:
        return None
    for c in doc.get('cells', []) if isinstance(doc, dict) else []:
        src = c.get('source')
        if not isinstance(src, str):
            continue
        for j, ch in enumerate(src):
            if ch.isascii() and ch.isalnum():
                new = ('7' if ch != '7' else '3') if ch.isdigit() else ('q' if ch != 'q' else 'z')
                c['source'] = src[:j] + new + src[j + 1:]
                data = json.dumps(doc, indent=1, ensure_ascii=False).encode('utf8')
                if len(data) != len(raw):
                    return None            # not written by nb_bytes: leave it alone
                with open(path, 'wb') as fh:
                    fh.write(data)
                os.utime(path, ns=(st.st_atime_ns, st.st_mtime_ns))
                return '%r -> %r at source[%d]' % (ch, new, j)
    return None


def gen_case(jobseed, index, triples):
    rnd = random.Random(jobseed * 1000003 + index)
    case = {'t1': triples[2 * index], 't2': triples[2 * index + 1]}
    case['mode'] = gen_mode(rnd, index + jobseed)
    case['requests'] = gen_requests(rnd, case['mode'], case)
    return case


def case_nb(case, ref):
    return (list(case['t1']) + list(case['t2']))[ref]


def brief(rq):
    q = rq['query']
    return '%s %s%s [%s:%s]' % (rq['method'], rq['rel'], '?' + (urlencode(q) if isinstance(q, dict) else q) if q else '', rq['cls'], rq['label'])


# ------------------------------------------------------------------------------------------
# the server side (always inside a forked child)

class _Blob(io.StringIO):
    "what nbdime.gitfiles.changed_notebooks hands to the diff tool for git blobs: StringIO with a name"
    name = ''


def complete_stubs():
    """the /verif/stubs JupyterHandler lacks two members of the real one that nbdime's handlers use"""
    from jupyter_server.base.handlers import JupyterHandler
    if not hasattr(JupyterHandler, 'log'):
        JupyterHandler.log = logging.getLogger('c20.stub')
    if not hasattr(JupyterHandler, 'render_template'):
        def render_template(self, name, **ns):
            return self.settings['jinja2_env'].get_template(name).render(**ns)
        JupyterHandler.render_template = render_template


class _Sites:
    "collects the raise site of every exception nbdime/tornado log while a request is served; emits nothing"
    def __init__(self):
        self.sites = []
        old = logging.getLogRecordFactory()

        def factory(*a, **k):
            rec = old(*a, **k)
            try:
                if rec.exc_info and rec.exc_info[1] is not None:
                    from .mergeoracles import exc_site
                    exc = rec.exc_info[1]
                    self.sites.append(exc_site(exc))
            except Exception:
                pass
            return rec
        logging.setLogRecordFactory(factory)
        root = logging.getLogger()
        root.handlers = [logging.NullHandler()]
        logging.lastResort = None
        for name in ('nbdime', 'tornado', 'tornado.application', 'tornado.general', 'tornado.access', 'nbformat', 'traitlets'):
            lg = logging.getLogger(name)
            lg.handlers = []
            lg.propagate = True


def _tool_values(mode, root):
    """the values a tool server gets for its notebooks: path strings, open files or named blobs"""
    work = os.path.join(root, 'work')
    names, _ = tool_args(mode)
    args = {}
    for k, name in names.items():
        path = os.path.join(work, name)
        form = mode['argform']
        if name == DEVNULL:
            args[k] = name
        elif form == 'abs':
            args[k] = path
        elif form == 'file' and os.path.isfile(path):
            args[k] = io.open(path, encoding='utf8')
        elif form == 'blob' and os.path.isfile(path):
            with io.open(path, encoding='utf8') as fh:
                args[k] = _Blob(fh.read())
            args[k].name = name
        else:
            args[k] = name
    return args


def cli_params(mode, root):
    """run the real entry point of the mode on a command line, with run_server / browse replaced by recorders:
    returns the keyword arguments the entry point starts the server with"""
    from nbdime.webapp import nbdimeserver, nbdiffweb, nbmergeweb, nbdifftool, nbmergetool
    work = os.path.join(root, 'work')
    os.environ['JUPYTER_CONFIG_DIR'] = os.path.join(root, 'no-such-config-dir')
    os.environ['JUPYTER_NO_CONFIG'] = '1'
    got = []

    def recorder(**kw):
        got.append(kw)
        return 0
    for mod in (nbdiffweb, nbmergeweb, nbdifftool, nbmergetool):
        mod.run_server = recorder
        for name in ('browse', 'browse_util'):
            if hasattr(mod, name):
                setattr(mod, name, lambda *a, **k: None)
    nbdimeserver.main_server = recorder
    web = ['--ip', '127.0.0.1', '--base-url', mode['base_url']]
    if mode['cwd'] == 'param':
        web += ['-w', work]
    else:
        os.chdir(work)                 # default of --workdirectory: the process cwd at start
    kind = mode['kind']
    if kind == 'plain' and mode['entry'] == 'server':
        nbdimeserver.main(['--port', '0'] + web)
        return got[0]
    web += [] if mode['closable'] else ['--persist']
    if kind == 'plain':
        nbdiffweb.main([os.path.join(work, T1['base']), os.path.join(work, T1['remote'])] + web)
    elif kind == 'mergeweb':
        argv = [os.path.join(work, T1[k]) for k in ('base', 'local', 'remote')]
        if mode['out']:
            argv += ['--out', subst(mode['out'], root)]
        if not mode.get('show_base', True):
            argv += ['--no-base']
        nbmergeweb.main(argv + web)
    elif kind == 'difftool':
        vals = _tool_values(mode, root)
        if mode['argform'] in ('file', 'blob'):
            # nbdiffweb on two git revisions: one difftool server per changed notebook, blobs as file-likes
            nbdiffweb.changed_notebooks = lambda *a, **k: iter([(vals['base'], vals['remote'])])
            opts = nbdiffweb.build_arg_parser().parse_args(['HEAD~1', 'HEAD'] + web)
            nbdiffweb.process_diff_flags(opts)
            nbdiffweb.handle_gitrefs('HEAD~1', 'HEAD', None, opts)
        else:
            nbdifftool.main([vals['base'], vals['remote']] + web)
    elif kind == 'mergetool':
        vals = _tool_values(mode, root)
        nbmergetool.main([vals['base'], vals['local'], vals['remote'], subst(mode['out'], root)] + web)
    if len(got) != 1:
        raise _defect('entry point of %r started %d servers' % (mode, len(got)))
    return got[0]


def build_params(mode, root):
    work = os.path.join(root, 'work')
    if mode.get('via') == 'cli':
        p = dict(cli_params(mode, root))
        p.pop('on_port', None)
        p.setdefault('closable', False)
        return p
    p = {'port': 0, 'ip': '127.0.0.1', 'base_url': mode['base_url'], 'closable': mode['closable']}
    if mode['cwd'] == 'param':
        p['cwd'] = work
    else:
        os.chdir(work)
    if mode['kind'] != 'plain':
        p.update(hide_unchanged=True, identical_lines_margin=2)
    if mode['kind'] == 'mergeweb':
        p['show_base'] = mode.get('show_base', True)
        p['outputfilename'] = subst(mode['out'], root) if mode['out'] else None
    if mode['kind'] == 'mergetool':
        p['outputfilename'] = subst(mode['out'], root) if mode['out'] else None
    if mode['kind'] in ('difftool', 'mergetool'):
        p['difftool_args' if mode['kind'] == 'difftool' else 'mergetool_args'] = _tool_values(mode, root)
    return p


def url_for(mode, port, rq, root):
    prefix = '' if rq.get('unprefixed') else mode['base_url'].rstrip('/')
    url = 'http://127.0.0.1:%d%s/%s' % (port, prefix, quote(rq['rel']))
    if rq['query']:
        url += '?' + (urlencode(subst(rq['query'], root)) if isinstance(rq['query'], dict) else rq['query'])
    return url


def body_for(rq, case, root):
    b = rq.get('body')
    if b is None:
        return None
    if 'raw' in b:
        return b['raw'].encode('utf8')
    if 'hex' in b:
        return bytes.fromhex(b['hex'])
    obj = subst(b['json'], root)
    if isinstance(obj, dict) and isinstance(obj.get('merged'), dict) and 'nbref' in obj['merged']:
        obj['merged'] = to_plain(case_nb(case, obj['merged']['nbref']))
    if isinstance(obj, dict) and isinstance(obj.get('merge'), dict) and 'nbref' in obj['merge']:
        obj['merge'] = to_plain(case_nb(case, obj['merge']['nbref']))
    return json.dumps(obj).encode('utf8')


def serve(root, case, reqs):
    """start one server in the case's mode over `root` and put `reqs` to it in order; returns one answer per
    request: status, body, whether the IOLoop was asked to stop, the exit code, tree before and after"""
    sites = _Sites()
    complete_stubs()
    from tornado import ioloop
    from tornado.httpclient import HTTPRequest
    from tornado.simple_httpclient import SimpleAsyncHTTPClient
    from nbdime.webapp import nbdimeserver
    mode = case['mode']
    answers = []

    def startup_failure(exc):
        """an exception raised by nbdime's own start-up code for a valid command line / parameter set is nbdime's
        behaviour; anything else is a defect of this harness"""
        from .mergeoracles import exc_site, exc_summary
        if not any(os.sep + 'nbdime' + os.sep in f.filename for f in traceback.extract_tb(exc.__traceback__)):
            return False
        answers.append({'startup': exc_site(exc), 'text': exc_summary(exc)})
        return True

    try:
        params = build_params(mode, root)
    except Exception as exc:
        if startup_failure(exc):
            return answers
        raise

    async def main():
        ports = []
        try:
            app, server = nbdimeserver.init_app(on_port=ports.append, **params)
        except Exception as exc:
            if startup_failure(exc):
                return
            raise
        if len(ports) != 1:
            raise _defect('init_app reported ports %r' % (ports,))
        loop = ioloop.IOLoop.current()
        stops = []
        loop.stop = lambda *a, **k: stops.append(1)        # observe the shutdown instead of suffering it
        client = SimpleAsyncHTTPClient(force_instance=True)
        try:
            for rq in reqs:
                before = snapshot(root)
                n0, s0 = len(stops), len(sites.sites)
                if rq['ep'] == 'event':
                    what = rewrite_same_size(os.path.normpath(os.path.join(root, 'work', subst(rq['file'], root))))
                    answers.append({'status': 0, 'body': repr(what).encode(), 'stopped': False, 'exit_code': repr(getattr(app, 'exit_code', None)),
                                    'before': before, 'after': snapshot(root), 'sites': []})
                    continue
                body = body_for(rq, case, root)
                if rq['method'] == 'POST' and body is None:
                    body = b''
                headers = {'Content-Type': 'application/json'}
                headers.update(rq.get('headers') or {})
                req = HTTPRequest(url_for(mode, ports[0], rq, root), method=rq['method'], body=body if rq['method'] == 'POST' else None,
                                  headers=headers, request_timeout=30, connect_timeout=30, follow_redirects=False, decompress_response=True)
                try:
                    rsp = await client.fetch(req, raise_error=False)
                    status, data = rsp.code, rsp.body or b''
                except Exception as exc:                       # connection reset and the like
                    status, data = 599, ('%s: %s' % (type(exc).__name__, exc)).encode()
                await asyncio.sleep(0)
                answers.append({'status': status, 'body': data, 'stopped': len(stops) > n0, 'exit_code': repr(getattr(app, 'exit_code', None)),
                                'before': before, 'after': snapshot(root), 'sites': sites.sites[s0:]})
        finally:
            client.close()
            server.stop()

    try:
        # not asyncio.run: its orderly shutdown of the resolver thread pool costs 20 ms and the child exits anyway
        loop = asyncio.new_event_loop()
        asyncio.set_event_loop(loop)
        loop.run_until_complete(main())
    except RuntimeError as exc:
        if 'Event loop stopped' not in str(exc):
            raise
        # the loop was stopped behind the recorder: the request in flight shut the server down
        before = answers[-1]['after'] if answers else snapshot(root)
        answers.append({'status': 599, 'body': b'event loop stopped', 'stopped': True, 'exit_code': None, 'before': before,
                        'after': snapshot(root), 'sites': []})
    return answers


def sweep(root, case):
    """one request to every documented path under base_url of one fresh application"""
    reqs = [{'ep': 'sweep', 'method': method, 'rel': rel, 'query': '', 'body': {'raw': '{}'} if method == 'POST' else None}
            for method, rel in DOCUMENTED]
    answers = forked(serve, root, case, reqs)
    if answers and 'startup' in answers[0]:
        return []                          # reported by run_case
    return [(rq['method'], rq['rel'], a['status']) for rq, a in zip(reqs, answers)]


# ------------------------------------------------------------------------------------------
# oracles (inside a forked child: library calls start from pristine process state)

def _read(work, name, empty_ok=False):
    import nbformat
    if name == DEVNULL:
        return nbformat.v4.new_notebook()
    path = os.path.join(work, name)
    if empty_ok and os.path.getsize(path) == 0:
        return nbformat.v4.new_notebook()
    return nbformat.read(path, as_version=4)


def oracle(root, case, rq, ans):
    """judge the answer to one request that had to be served. Returns (failures, note); failures are (kind, text)"""
    _Sites()
    from .difforacles import first_difference
    from .mergeoracles import exc_summary
    work = os.path.join(root, 'work')
    ep, status = rq['ep'], ans['status']
    site = (ans['sites'] or ['unknown'])[-1]
    fails = []
    if ep in ('diff', 'merge'):
        try:
            nbs = {k: _read(work, subst(v, root), rq.get('empty_ok') and k == 'base') for k, v in rq['names'].items()}
        except Exception:
            # only after an earlier request of the sequence damaged an input file (reported there): nothing to demand here
            return [], 'inputs-damaged-by-earlier-request'
        try:
            if ep == 'diff':
                from nbdime.diffing.notebooks import diff_notebooks
                lib = diff_notebooks(nbs['base'], nbs['remote'])
            else:
                from nbdime.merging.notebooks import decide_notebook_merge
                from . import mergespace
                lib = decide_notebook_merge(nbs['base'], nbs['local'], nbs['remote'], args=mergespace.args_for('mergetool'))
        except Exception as exc:
            if status >= 500:
                return [], 'library-raises'           # the library itself fails on these notebooks: C02/C03's business
            lib = None
            libexc = exc_summary(exc)
        if status >= 500:
            return [('crash:%s:%s' % (ep, site), 'POST %s on readable notebooks %r is answered %d although the library call succeeds in a fresh process (logged: %s)'
                     % (rq['rel'], rq['names'], status, ans['sites'][-2:]))], None
        short = 'diff-not-consistent' if ep == 'diff' else 'merge-not-library'
        if status != 200:
            return [(short + ':status', 'POST %s on readable notebooks %r is answered %d %r' % (rq['rel'], rq['names'], status, ans['body'][:120]))], None
        try:
            doc = json.loads(ans['body'].decode('utf8'))
            base = doc['base']
            payload = doc['diff' if ep == 'diff' else 'merge_decisions']
        except Exception as exc:
            return [(short + ':shape', 'answer of %s is not a JSON object with base and %s: %s' % (rq['rel'], 'diff' if ep == 'diff' else 'merge_decisions', exc_summary(exc)))], None
        if canon(base) != canon(nbs['base']):
            fails.append((short + ':base', 'base in the answer of %s is not the requested base notebook %r: %s'
                          % (rq['rel'], rq['names']['base'], first_difference(base, to_plain(nbs['base'])))))
        if ep == 'diff':
            from nbdime.patching import patch_notebook
            from nbdime.diff_utils import to_diffentry_dicts
            import nbformat
            from contracts import specs
            want = canon(nbs['remote'])
            try:
                got = patch_notebook(nbformat.from_dict(base), to_diffentry_dicts(payload))
                if canon(got) != want:
                    fails.append(('diff-not-consistent:patch', 'patch_notebook(base, diff) of the answer differs from the requested remote %r: %s'
                                  % (rq['names']['remote'], first_difference(to_plain(got), to_plain(nbs['remote'])))))
            except Exception as exc:
                fails.append(('diff-not-consistent:patch', 'patch_notebook cannot apply the returned diff to the returned base: ' + exc_summary(exc)))
            try:
                got = specs.apply(to_plain(base), payload)
                if canon(got) != want:
                    fails.append(('diff-not-consistent:spec', 'the documented-format patcher applied to the answer gives a notebook different from the requested remote: %s'
                                  % first_difference(got, to_plain(nbs['remote']))))
            except Exception as exc:
                fails.append(('diff-not-consistent:spec', 'the documented-format patcher cannot apply the returned diff: %s: %s' % (type(exc).__name__, exc)))
        else:
            if lib is None:
                fails.append(('merge-not-library', 'server answers 200 with decisions but decide_notebook_merge raises in a fresh process: ' + libexc))
            else:
                want = json.loads(json.dumps(lib))
                if canon(payload) != canon(want):
                    fails.append(('merge-not-library', 'merge_decisions differ from decide_notebook_merge(base, local, remote, mergetool strategy): %s'
                                  % first_difference(payload, want)))
        return fails, None
    if ep == 'store':
        import nbformat
        key = out_key(case['mode'])
        changes = delta(ans['before'], ans['after'])
        stray = [c for c in changes if c[0] != key]
        if stray:
            fails.append(('store-wrong-location', 'store request %s changed files other than the output file %r fixed at start-up: %s'
                          % (brief(rq), key, stray[:4])))
        if status >= 500:
            fails.append(('crash:store:' + site, 'store of a valid notebook is answered %d (logged: %s)' % (status, ans['sites'][-2:])))
            return fails, None
        if not 200 <= status < 300:
            fails.append(('store-content-wrong:status', 'store of a valid notebook to a server started with an output file is answered %d %r' % (status, ans['body'][:120])))
            return fails, None
        ent = ans['after'].get(key)
        sent = nbformat.from_dict(to_plain(case_nb(case, rq['nbref'])))
        try:
            if ent is None or ent[0] != 'f':
                raise ValueError('output file %r does not exist after the request' % key)
            got = nbformat.reads(ent[2].decode('utf8'), as_version=4)
            if canon(got) != canon(sent):
                fails.append(('store-content-wrong', 'output file %r does not hold the submitted notebook: %s' % (key, first_difference(to_plain(got), to_plain(sent)))))
        except Exception as exc:
            fails.append(('store-content-wrong', 'output file %r is not the submitted notebook: %s' % (key, exc_summary(exc))))
        return fails, None
    raise _defect('no oracle for %r' % (ep,))


# ------------------------------------------------------------------------------------------
# one case

def judge(root, case, rq, ans):
    """all clauses for one answered request (history comparison excluded)"""
    fails, note = [], None
    cls, ep, status = rq['cls'], rq['ep'], ans['status']
    changes = delta(ans['before'], ans['after'])
    tag = '%s:%s' % (ep, rq['label'])
    documented = (rq['method'], rq['rel']) in DOCUMENTED and not rq.get('unprefixed')
    if documented and status == 404:
        fails.append(('route-missing:' + (rq['rel'] or '(root)'), '%s %s under base_url %r is answered 404' % (rq['method'], rq['rel'], case['mode']['base_url'])))
        return fails, note
    if cls == 'malformed':
        if status < 400:
            fails.append(('error-status-missing:' + tag, 'malformed/unreadable request %s (body %s) is answered %d'
                          % (brief(rq), _show_body(rq), status)))
        if changes:
            # 'accepted': the change is the effect of serving what had to be turned down (same root as error-status-missing)
            fails.append(('disk-changed-on-error:' + ('accepted:' if status < 400 else '') + tag,
                          'request %s (body %s) answered %d changed the disk: %s' % (brief(rq), _show_body(rq), status, changes[:4])))
        if ans['stopped']:
            fails.append(('close-honoured-when-not-closable' if not case['mode']['closable'] else 'disk-changed-on-error:stop:' + tag,
                          'request %s stopped the server' % brief(rq)))
    elif cls == 'refused' and ep == 'store':
        if not 400 <= status < 500 or changes:
            fails.append(('store-not-refused', 'server started without an output file answers %s with %d; disk changes: %s' % (brief(rq), status, changes[:4])))
    elif cls == 'refused' and ep == 'close':
        if status < 400 or ans['stopped']:
            fails.append(('close-honoured-when-not-closable', 'server started with closable=False answers %s with %d; IOLoop.stop called: %s'
                          % (brief(rq), status, ans['stopped'])))
        if changes:
            fails.append(('disk-changed-on-error:close', 'refused shutdown request changed the disk: %s' % changes[:4]))
    elif ep == 'close':
        if not 200 <= status < 300 or not ans['stopped']:
            fails.append(('close-not-honoured', 'server started with closable=True answers %s with %d; IOLoop.stop called: %s' % (brief(rq), status, ans['stopped'])))
        if changes:
            fails.append(('disk-changed-on-read:close', 'shutdown request changed the disk: %s' % changes[:4]))
    elif ep == 'page':
        if status >= 500:
            fails.append(('crash:page:' + (ans['sites'] or ['unknown'])[-1], 'GET %r is answered %d' % (rq['rel'], status)))
        elif status != 200:
            fails.append(('route-missing:' + (rq['rel'] or '(root)') + ':status', 'GET %r is answered %d' % (rq['rel'], status)))
        if changes:
            fails.append(('disk-changed-on-read:page', 'page request changed the disk: %s' % changes[:4]))
    else:
        restore(root, ans['before'])
        f, note = forked(oracle, root, case, rq, ans)
        fails.extend(f)
        if ep in ('diff', 'merge') and changes:
            fails.append(('disk-changed-on-read:' + ep, '%s changed the disk: %s' % (brief(rq), changes[:4])))
    if cls != 'malformed' and ans['stopped'] and ep != 'close':
        fails.append(('close-honoured-when-not-closable' if not case['mode']['closable'] else 'close-not-honoured:stray-stop', 'request %s stopped the server' % brief(rq)))
    return fails, note


def _show_body(rq):
    b = rq.get('body')
    if b is None:
        return 'none'
    s = json.dumps(b.get('json', b), ensure_ascii=True)
    return s if len(s) < 200 else s[:200] + '...'


def _answer_key(a):
    return (a['status'], a['body'], a['stopped'], a['exit_code'], a['after'])


def scratch():
    """temporary root of one case. The harness rewrites the tree before every forked run; on the sandbox's disk-backed
    /tmp that costs more than serving the requests, so memory-backed /dev/shm is preferred unless TMPDIR says otherwise"""
    import tempfile
    where = None
    if not os.environ.get('TMPDIR') and os.path.isdir('/dev/shm') and os.access('/dev/shm', os.W_OK | os.X_OK):
        where = '/dev/shm'
    return os.path.realpath(tempfile.mkdtemp(prefix='c20-', dir=where))


def run_case(case, keep=None, history=True):
    """-> (failures [(kind, text, request index)], notes, stats). keep: indices of the requests to retain."""
    reqs = case['requests'] if keep is None else [case['requests'][i] for i in keep]
    idx = list(range(len(case['requests']))) if keep is None else list(keep)
    root = scratch()
    fails, notes, stats = [], [], {}
    try:
        start = initial_tree(case)
        restore(root, start)
        answers = forked(serve, root, case, reqs)
        if answers and 'startup' in answers[0]:
            return [('crash:startup:' + answers[0]['startup'], 'the server cannot be started in this mode: %s' % answers[0]['text'], idx[0])], notes, stats
        for k, rq in enumerate(reqs):
            stats[(rq['ep'], rq['cls'])] = stats.get((rq['ep'], rq['cls']), 0) + 1
            if k >= len(answers):
                break
            ans = answers[k]
            if rq['ep'] == 'event':
                continue               # an event of the environment, not a request: nothing to judge
            f, note = judge(root, case, rq, ans)
            if note:
                notes.append(note)
            fails.extend((kind, text, idx[k]) for kind, text in f)
            if history and k > 0:
                restore(root, ans['before'])
                fresh = forked(serve, root, case, [rq])[0]
                if _answer_key(fresh) != _answer_key(ans):
                    what = []
                    if fresh['status'] != ans['status']:
                        what.append('status %d instead of %d' % (ans['status'], fresh['status']))
                    elif fresh['body'] != ans['body']:
                        what.append('a different body (%r... instead of %r...)' % (ans['body'][:80], fresh['body'][:80]))
                    if fresh['stopped'] != ans['stopped'] or fresh['exit_code'] != ans['exit_code']:
                        what.append('shutdown/exit code %s/%s instead of %s/%s' % (ans['stopped'], ans['exit_code'], fresh['stopped'], fresh['exit_code']))
                    if fresh['after'] != ans['after']:
                        what.append('different effect on disk: %s' % delta(fresh['after'], ans['after'])[:3])
                    fails.append(('history-dependence:' + rq['ep'], 'request #%d %s is answered with %s when it comes after %s than when it is the first request to a fresh '
                                  'server over the same files (logged: %s)' % (k, brief(rq), '; '.join(what), [brief(r) for r in reqs[:k]], ans['sites'][-1:]), idx[k]))
            if ans['stopped']:
                break                  # the real server is gone after IOLoop.stop
    finally:
        shutil.rmtree(root, ignore_errors=True)
    return fails, notes, stats


def run_sweep(case):
    root = scratch()
    try:
        restore(root, initial_tree(case))
        res = sweep(root, case)
    finally:
        shutil.rmtree(root, ignore_errors=True)
    return [('route-missing:' + (rel or '(root)'), '%s %s under base_url %r of a %s server is answered 404' % (m, rel or '(root)', case['mode']['base_url'], case['mode']['kind']))
            for m, rel, status in res if status == 404]


def minimise(case, kind, at):
    """smallest sub-sequence (the failing request alone, else one predecessor + it) that still fails the same way"""
    cands = [[at]] + [[j, at] for j in range(at)]
    for keep in cands:
        if len(keep) == len(case['requests']):
            continue
        f, _, _ = run_case(case, keep)
        if any(k == kind and i == at for k, _, i in f):
            return keep
    return None
