"""Small-scope spaces of JSON documents for the generic diff/patch/merge properties."""
import itertools
import random

ATOMS = [0, 1, 2, 'a', None]
ATOMS_TYPED = [0, 1, True, 1.0, '1', None, False, 0.0]     # python-equal but JSON-distinct values
LINES = ['a\n', 'b\n', 'ab\n', 'a', '', 'a\r\n', 'a\x0bb\n', 'a b\n', 'c\rd\n', '\n']


def lists(alphabet, maxlen):
    for n in range(maxlen + 1):
        for t in itertools.product(alphabet, repeat=n):
            yield list(t)


def dicts(keys, alphabet):
    for mask in itertools.product([None] + list(range(len(alphabet))), repeat=len(keys)):
        yield {k: alphabet[i] for k, i in zip(keys, mask) if i is not None}


def strings(maxlines, lines=LINES):
    seen = set()
    for n in range(maxlines + 1):
        for t in itertools.product(lines, repeat=n):
            s = ''.join(t)
            if s not in seen:
                seen.add(s)
                yield s


def level1():
    "containers one level deep"
    out = list(lists([0, 1, 'a'], 3))
    out += list(dicts(['a', 'b'], [0, 1, 'x']))
    return out


def nested_values():
    inner = [0, 1, 'a', [0], [0, 1], [], {'a': 0}, {'a': 1}, {}, 'x\ny\n', 'x\nz\n']
    return inner


def list_space(maxlen=3):
    return list(lists(nested_values()[:8], maxlen)) if maxlen <= 2 else \
        list(lists([0, 1, [0], {'a': 0}], maxlen))


def dict_space():
    return list(dicts(['a', 'b'], nested_values()))


def typed_pairs():
    "pairs of documents that differ only in the JSON type of a Python-equal scalar"
    out = []
    for x, y in itertools.permutations(ATOMS_TYPED, 2):
        if x == y and type(x) is not type(y):
            out.append(({'a': x}, {'a': y}))
            out.append(([x], [y]))
            out.append(([0, x], [0, y]))
            out.append(({'a': [x]}, {'a': [y]}))
    return out


def random_value(rnd, depth=3, atoms=ATOMS):
    r = rnd.random()
    if depth == 0 or r < 0.35:
        return rnd.choice(atoms + ['x\ny\n', 'line1\nline2\nline3\n', 'a\rb\n'])
    if r < 0.7:
        return [random_value(rnd, depth - 1, atoms) for _ in range(rnd.randint(0, 4))]
    return {rnd.choice('abcd'): random_value(rnd, depth - 1, atoms) for _ in range(rnd.randint(0, 3))}


def mutate(rnd, v, atoms=ATOMS):
    "a random edit of v"
    if isinstance(v, list):
        v = list(v)
        r = rnd.random()
        if v and r < 0.3:
            del v[rnd.randrange(len(v))]
        elif r < 0.6:
            v.insert(rnd.randint(0, len(v)), random_value(rnd, 1, atoms))
        elif v:
            i = rnd.randrange(len(v))
            v[i] = mutate(rnd, v[i], atoms)
        return v
    if isinstance(v, dict):
        v = dict(v)
        r = rnd.random()
        if v and r < 0.3:
            del v[rnd.choice(sorted(v))]
        elif r < 0.6:
            v[rnd.choice('abcde')] = random_value(rnd, 1, atoms)
        elif v:
            k = rnd.choice(sorted(v))
            v[k] = mutate(rnd, v[k], atoms)
        return v
    if isinstance(v, str) and '\n' in v:
        lines = v.splitlines(True)
        i = rnd.randrange(len(lines))
        r = rnd.random()
        if r < 0.3:
            del lines[i]
        elif r < 0.6:
            lines.insert(i, rnd.choice(LINES))
        else:
            lines[i] = lines[i][:1] + 'Q' + lines[i][1:]
        return ''.join(lines)
    return rnd.choice(atoms)
