"""C18 helper: a throw-away git world (temp HOME + temp repository) in which nbdime's real `config` sub-commands are
executed in-process, with snapshot/restore of every user-owned file, observation through real git, and the
oracles of property C18 (one function: judge)."""
import io
import os
import shutil
import subprocess
import sys
import tempfile

from checks.common import CheckerDefect

# ---------------------------------------------------------------------------------------------------------
# the space of initial configurations

TOOLVALS = [None, 'nbdime', 'meld']
PROMPTS = [None, 'true', 'false']
RULES = '*.txt text\n*.csv -diff'
ATTRS = {
    'absent': None,
    'empty': '',
    'rules-nl': RULES + '\n',
    'rules-nonl': RULES,
    'nbdime-both': RULES + '\n\n*.ipynb\tdiff=jupyternotebook\n\n*.ipynb\tmerge=jupyternotebook\n',
    'nbdime-diff-nonl': RULES + '\n*.ipynb\tdiff=jupyternotebook',
    'nbdime-merge-nl': '*.ipynb\tmerge=jupyternotebook\n' + RULES + '\n',
    'nbdime-oneline': RULES + '\n*.ipynb diff=jupyternotebook merge=jupyternotebook\n',
    # the driver names occur, but not in a rule that routes *.ipynb: lines the user commented out, a rule for one directory only
    'nbdime-commented': RULES + '\n# *.ipynb\tdiff=jupyternotebook\n# *.ipynb\tmerge=jupyternotebook\n',
    'nbdime-subdir-only': 'docs/*.ipynb diff=jupyternotebook merge=jupyternotebook\n' + RULES + '\n',
}
# 'corefile+stale': core.attributesfile is set AND a left-over default file ~/.config/git/attributes still exists (git ignores it)
LOCS = ['default', 'xdg', 'corefile', 'corefile+stale']
TOOLKEYS = ['merge.tool', 'diff.guitool', 'mergetool.prompt', 'difftool.prompt']

# foreign settings that live in the same sections nbdime edits (written when init['extras'] is true)
EXTRAS = [
    ('diff.tool', 'vimdiff'), ('diff.renames', 'true'), ('merge.conflictstyle', 'diff3'),
    ('mergetool.keepBackup', 'false'), ('mergetool.meld.path', '/usr/bin/meld'),
    ('difftool.meld.cmd', 'meld "$LOCAL" "$REMOTE"'), ('difftool.trustExitCode', 'true'),
    ('diff.exif.textconv', 'exiftool'), ('merge.ours.driver', 'true'), ('alias.st', 'status'),
]
DRIVER_KEYS = [
    ('diff.jupyternotebook.command', 'git-nbdiffdriver diff'),
    ('merge.jupyternotebook.driver', 'git-nbmergedriver merge %O %A %B %L %P'),
    ('merge.jupyternotebook.name', 'jupyter notebook merge driver'),
    ('difftool.nbdime.cmd', 'git-nbdifftool diff "$LOCAL" "$REMOTE" "$BASE"'),
    ('mergetool.nbdime.cmd', 'git-nbmergetool merge "$BASE" "$LOCAL" "$REMOTE" "$MERGED"'),
]

TOOLS = ['diffdriver', 'mergedriver', 'difftool', 'difftool+default', 'mergetool', 'mergetool+default', 'all']
COMMANDS = ['%s:%s' % (a, t) for a in ('enable', 'disable') for t in TOOLS]


def make_init(repo=None, glob=None, attrs_repo='absent', attrs_global='absent', loc='default', extras=False,
              drivers_repo=False, drivers_global=False, repo_corefile=False):
    # repo_corefile: the repository the commands are run from sets core.attributesfile in its LOCAL config to a private file
    # (a valid set-up: that repository then does not consult the user's global attributes file at all)
    d = {'repo': dict.fromkeys(TOOLKEYS), 'global': dict.fromkeys(TOOLKEYS),
         'attrs': {'repo': attrs_repo, 'global': attrs_global}, 'loc': loc, 'extras': bool(extras),
         'drivers': {'repo': bool(drivers_repo), 'global': bool(drivers_global)}, 'repo_corefile': bool(repo_corefile)}
    d['repo'].update(repo or {})
    d['global'].update(glob or {})
    return d


def random_init(rnd):
    def scope_cfg():
        return {'merge.tool': rnd.choice(TOOLVALS), 'diff.guitool': rnd.choice(TOOLVALS),
                'mergetool.prompt': rnd.choice(PROMPTS), 'difftool.prompt': rnd.choice(PROMPTS)}
    names = sorted(ATTRS)
    return make_init(scope_cfg(), scope_cfg(), rnd.choice(names), rnd.choice(names), rnd.choice(LOCS),
                     rnd.random() < 0.6, rnd.random() < 0.2, rnd.random() < 0.2, rnd.random() < 0.2)


def init_label(init):
    def sc(s):
        return ','.join('%s=%s' % (k, v) for k, v in sorted(init[s].items()) if v is not None) or '-'
    return 'repo[%s] global[%s] attrs(repo=%s,global=%s@%s)%s%s' % (
        sc('repo'), sc('global'), init['attrs']['repo'], init['attrs']['global'], init['loc'],
        ' +foreign-extras' if init['extras'] else '',
        ''.join(' +nbdime-preinstalled-in-%s' % s for s in ('repo', 'global') if init['drivers'][s]) +
        (' +repository-sets-its-own-core.attributesfile' if init.get('repo_corefile') else ''))


# ---------------------------------------------------------------------------------------------------------
# the world

_GIT_ENV_DROP = ('GIT_DIR', 'GIT_WORK_TREE', 'GIT_CONFIG', 'GIT_CONFIG_COUNT', 'GIT_CONFIG_PARAMETERS', 'GIT_INDEX_FILE',
                 'GIT_CONFIG_SYSTEM', 'GIT_CEILING_DIRECTORIES', 'GIT_EDITOR', 'GIT_NAMESPACE', 'XDG_CONFIG_HOME')


class World:
    """temp HOME + temp repo; the process environment and cwd are switched to it until close()"""

    def __init__(self, init):
        self.init = init
        self._saved_env = dict(os.environ)
        self._saved_cwd = os.getcwd()
        self._saved_streams = (sys.stdout, sys.stderr)
        self.tmp = None
        try:
            self.tmp = os.path.realpath(tempfile.mkdtemp(prefix='c18-'))
            self.home = os.path.join(self.tmp, 'home')
            self.repo = os.path.join(self.tmp, 'work', 'repo')
            os.makedirs(self.home)
            os.makedirs(self.repo)
            os.makedirs(os.path.join(self.tmp, 'empty-template'))
            for k in list(os.environ):
                if k in _GIT_ENV_DROP or k.startswith('GIT_CONFIG_KEY_') or k.startswith('GIT_CONFIG_VALUE_'):
                    del os.environ[k]
            self.global_cfg = os.path.join(self.home, '.gitconfig')
            os.environ.update({'HOME': self.home, 'GIT_CONFIG_NOSYSTEM': '1', 'GIT_ATTR_NOSYSTEM': '1',
                               'GIT_CONFIG_GLOBAL': self.global_cfg, 'LC_ALL': 'C', 'GIT_TERMINAL_PROMPT': '0'})
            if init['loc'] == 'xdg':
                os.environ['XDG_CONFIG_HOME'] = os.path.join(self.home, 'xdg')
                self.global_attr = os.path.join(self.home, 'xdg', 'git', 'attributes')
            elif init['loc'] in ('corefile', 'corefile+stale'):
                self.global_attr = os.path.join(self.home, 'myattrs', 'global.attributes')
            else:
                self.global_attr = os.path.join(self.home, '.config', 'git', 'attributes')
            self.repo_cfg = os.path.join(self.repo, '.git', 'config')
            self.repo_attr = os.path.join(self.repo, '.gitattributes')
            self.private_attr = os.path.join(self.repo, '.private-attributes')
            self.other = os.path.join(self.tmp, 'work', 'other')          # a second repository of the same user
            os.makedirs(self.other)
            self._git(['init', '-q', '--template=' + os.path.join(self.tmp, 'empty-template'), self.repo], cwd=self.tmp)
            self._git(['init', '-q', '--template=' + os.path.join(self.tmp, 'empty-template'), self.other], cwd=self.tmp)
            os.chdir(self.repo)
            self._setup()
        except BaseException:
            self.close()
            raise

    # -- harness-side git (failures here are defects of the harness, never of nbdime)
    def _git(self, args, cwd=None):
        try:
            return subprocess.run(['git'] + args, cwd=cwd or self.repo, stdout=subprocess.PIPE, stderr=subprocess.PIPE,
                                  check=True).stdout
        except (subprocess.CalledProcessError, OSError) as exc:
            raise CheckerDefect('harness git %r failed: %s %s' % (args, exc, getattr(exc, 'stderr', b'')[:300]))

    def _setup(self):
        init = self.init
        with open(self.global_cfg, 'w') as fh:
            fh.write('[user]\n\tname = Checker\n\temail = checker@example.invalid\n')
        if init['loc'] in ('corefile', 'corefile+stale'):
            self._git(['config', '-f', self.global_cfg, 'core.attributesfile', '~/myattrs/global.attributes'])
        if init['loc'] == 'corefile+stale':
            stale = os.path.join(self.home, '.config', 'git', 'attributes')
            os.makedirs(os.path.dirname(stale), exist_ok=True)
            with open(stale, 'wb') as fh:
                fh.write(b'*.txt text\n# left over from before core.attributesfile was set\n')
        for scope, path in (('repo', self.repo_cfg), ('global', self.global_cfg)):
            if init['extras']:
                for k, v in EXTRAS:
                    self._git(['config', '-f', path, k, v])
            for k in TOOLKEYS:
                if init[scope].get(k) is not None:
                    self._git(['config', '-f', path, k, init[scope][k]])
            if init['drivers'][scope]:
                for k, v in DRIVER_KEYS:
                    self._git(['config', '-f', path, k, v])
        if init.get('repo_corefile'):
            with open(self.private_attr, 'wb') as fh:
                fh.write(b'*.dat binary\n')
            self._git(['config', '-f', self.repo_cfg, 'core.attributesfile', self.private_attr])
        for scope, path in (('repo', self.repo_attr), ('global', self.global_attr)):
            text = ATTRS[init['attrs'][scope]]
            if text is not None:
                os.makedirs(os.path.dirname(path), exist_ok=True)
                with open(path, 'wb') as fh:
                    fh.write(text.encode('utf8'))

    def close(self):
        try:
            os.chdir(self._saved_cwd)
        finally:
            os.environ.clear()
            os.environ.update(self._saved_env)
            sys.stdout, sys.stderr = self._saved_streams
            if self.tmp:
                shutil.rmtree(self.tmp, ignore_errors=True)
                self.tmp = None

    # -- user-owned files: everything under HOME and the work tree, of .git only the config file
    def _walk(self):
        files, dirs = {}, set()
        for top in (self.home, os.path.join(self.tmp, 'work')):
            for base, dnames, fnames in os.walk(top):
                if os.path.basename(base) == '.git' and os.path.dirname(base) in (self.repo, self.other):
                    dnames[:] = []
                    fnames = [f for f in fnames if f == 'config' and os.path.dirname(base) == self.repo]
                rel = os.path.relpath(base, self.tmp)
                dirs.add(rel)
                for f in fnames:
                    p = os.path.join(base, f)
                    if os.path.islink(p):
                        files[os.path.join(rel, f)] = b'->' + os.readlink(p).encode()
                    else:
                        with open(p, 'rb') as fh:
                            files[os.path.join(rel, f)] = fh.read()
        return files, dirs

    def restore(self, snap):
        files, dirs = snap
        cur_files, cur_dirs = self._walk()
        for rel in cur_files:
            if rel not in files:
                os.unlink(os.path.join(self.tmp, rel))
        for rel in sorted(cur_dirs - dirs, key=len, reverse=True):
            shutil.rmtree(os.path.join(self.tmp, rel), ignore_errors=True)
        for rel in sorted(dirs - cur_dirs, key=len):
            os.makedirs(os.path.join(self.tmp, rel), exist_ok=True)
        for rel, data in files.items():
            if cur_files.get(rel) != data:
                with open(os.path.join(self.tmp, rel), 'wb') as fh:
                    fh.write(data)
        if os.getcwd() != self.repo:
            os.chdir(self.repo)

    # -- observation through real git
    def observe(self):
        files, dirs = self._walk()
        raw = self._git(['config', '--list', '--show-origin', '-z']).decode('utf8', 'replace')
        parts = raw.split('\0')
        if parts and parts[-1] == '':
            parts.pop()
        if len(parts) % 2:
            raise CheckerDefect('cannot parse `git config --list --show-origin -z`: %r' % raw[:200])
        cfg = {'repo': [], 'global': []}
        for origin, kv in zip(parts[0::2], parts[1::2]):
            k, sep, v = kv.partition('\n')
            if origin in ('file:.git/config', 'file:' + self.repo_cfg):
                scope = 'repo'
            elif origin == 'file:' + self.global_cfg:
                scope = 'global'
            else:
                scope = 'other:' + origin
            cfg.setdefault(scope, []).append((k, v if sep else None))
        rawattr = self._git(['check-attr', '-z', 'diff', 'merge', 'text', '--', 'nb.ipynb', 'sub/dir/nb.ipynb', 'x.csv',
                             'x.txt']).decode('utf8', 'replace').split('\0')
        attr = {}
        for i in range(0, len(rawattr) - 2, 3):
            attr.setdefault(rawattr[i], {})[rawattr[i + 1]] = rawattr[i + 2]
        rawother = self._git(['check-attr', '-z', 'diff', 'merge', '--', 'nb.ipynb', 'sub/dir/nb.ipynb'], cwd=self.other).decode('utf8', 'replace').split('\0')
        attr_other = {}
        for i in range(0, len(rawother) - 2, 3):
            attr_other.setdefault(rawother[i], {})[rawother[i + 1]] = rawother[i + 2]
        rel = lambda p: os.path.relpath(p, self.tmp)
        return {'files': files, 'dirs': dirs, 'cfg': cfg, 'check_attr': attr, 'check_attr_other': attr_other,
                'attr_files': {'repo': files.get(rel(self.repo_attr)), 'global': files.get(rel(self.global_attr))},
                'attr_paths': {'repo': rel(self.repo_attr), 'global': rel(self.global_attr)},
                'repo_corefile': bool(self.init.get('repo_corefile')),
                'cfg_paths': (rel(self.repo_cfg), rel(self.global_cfg))}

    # -- the code under check
    def run(self, cmd, scope):
        """execute one nbdime config command in-process; returns None or the exception it raised"""
        action, tool = cmd.split(':')
        default = tool.endswith('+default')
        tool = tool.split('+')[0]
        flags = ['--' + action] + (['--' + scope] if scope else []) + (['--set-default'] if default else [])
        import importlib
        if tool == 'all':
            fn = importlib.import_module('nbdime.__main__').main_dispatch
            argv = ['config-git'] + flags
        else:
            fn = importlib.import_module('nbdime.vcs.git.' + tool).main
            argv = ['config'] + flags
        streams = (sys.stdout, sys.stderr)
        saved_fds = None
        devnull = os.open(os.devnull, os.O_WRONLY)
        try:
            saved_fds = (os.dup(1), os.dup(2))
            os.dup2(devnull, 1)
            os.dup2(devnull, 2)
            sys.stdout, sys.stderr = io.StringIO(), io.StringIO()
            try:
                rc = fn(argv)
            except CheckerDefect:
                raise
            except BaseException as exc:      # SystemExit included: argparse / sys.exit inside a config command
                if isinstance(exc, KeyboardInterrupt):
                    raise
                return exc
            if rc:
                return RuntimeError('command returned exit status %r' % (rc,))
            return None
        finally:
            sys.stdout, sys.stderr = streams
            if saved_fds:
                os.dup2(saved_fds[0], 1)
                os.dup2(saved_fds[1], 2)
                os.close(saved_fds[0])
                os.close(saved_fds[1])
            os.close(devnull)
            if os.getcwd() != self.repo:
                os.chdir(self.repo)


# ---------------------------------------------------------------------------------------------------------
# state keys

def semantic_key(obs):
    """what `changes nothing` is judged on: the parsed (ordered) key/value list of every config scope and the bytes of
    every other user-owned file (attributes files included)"""
    cfg = tuple(sorted((s, tuple(kv)) for s, kv in obs['cfg'].items()))
    others = tuple(sorted((p, d) for p, d in obs['files'].items() if p not in obs['cfg_paths']))
    return (cfg, others)


def exact_key(obs):
    return (tuple(sorted(obs['files'].items())), tuple(sorted(obs['dirs'])))


# ---------------------------------------------------------------------------------------------------------
# oracles

def is_own(key, value):
    k = key.lower()
    if k.startswith(('diff.jupyternotebook.', 'merge.jupyternotebook.', 'difftool.nbdime.', 'mergetool.nbdime.')):
        return True
    if k in ('difftool.prompt', 'mergetool.prompt'):
        return True
    if k in ('diff.guitool', 'merge.tool') and value == 'nbdime':
        return True
    return False


def _multimap(kvs):
    m = {}
    for k, v in kvs:
        m.setdefault(k, []).append(v)
    return m


def _own_line(ln):
    "a rule that routes *.ipynb to nbdime's drivers and does nothing else (what enable writes; also the one-line form)"
    parts = ln.split()
    return len(parts) >= 2 and parts[0] == '*.ipynb' and all(p in ('diff=jupyternotebook', 'merge=jupyternotebook') for p in parts[1:])


def _foreign_lines(data):
    "every other non-blank line: unrelated rules, comments (also ones that mention the drivers), rules for other patterns"
    if data is None:
        return []
    return [ln for ln in data.decode('utf8', 'replace').split('\n') if ln.strip() and not _own_line(ln)]


def _count(data, needle):
    "number of rules for *.ipynb that carry the attribute"
    if data is None:
        return 0
    return sum(1 for ln in data.decode('utf8', 'replace').split('\n') if ln.split()[:1] == ['*.ipynb'] and needle in ln.split()[1:])


def describe_diff(before, after):
    out = []
    for s in sorted(set(before['cfg']) | set(after['cfg'])):
        b, a = before['cfg'].get(s, []), after['cfg'].get(s, [])
        if b != a:
            out.append('%s config: -%r +%r' % (s, [x for x in b if x not in a], [x for x in a if x not in b]))
    for p in sorted(set(before['files']) | set(after['files'])):
        if p in before['cfg_paths']:
            continue
        if before['files'].get(p) != after['files'].get(p):
            out.append('%s: %r -> %r' % (p, before['files'].get(p), after['files'].get(p)))
    return '; '.join(out) or '(only formatting of a config file)'


def judge(before, after, cmd, scope, exc):
    """the per-command clauses of C18; returns [(kind, text)]"""
    from bounded.mergeoracles import exc_site, exc_summary
    out = []
    action, tool = cmd.split(':')
    default = tool.endswith('+default')
    tool = tool.split('+')[0]
    own_scope = scope or 'repo'
    shown = 'nbdime %s%s' % (cmd, ' --' + scope if scope else '')
    if exc is not None:
        site = exc_site(exc) if exc.__traceback__ is not None else type(exc).__name__
        out.append(('crash:' + site, '%s raised %s' % (shown, exc_summary(exc) if exc.__traceback__ is not None else repr(exc))))

    # --- settings that are not nbdime's own: never changed, removed or added
    for s in sorted(set(before['cfg']) | set(after['cfg'])):
        bm, am = _multimap(before['cfg'].get(s, [])), _multimap(after['cfg'].get(s, []))
        for k in sorted(set(bm) | set(am)):
            bv, av = bm.get(k, []), am.get(k, [])
            if bv == av:
                continue
            bf = [v for v in bv if not is_own(k, v)]
            af = [v for v in av if not is_own(k, v)]
            if bf == af:
                continue
            wanted = {'difftool': 'diff.guitool', 'mergetool': 'merge.tool'}.get(tool)
            if action == 'enable' and default and s == own_scope and k.lower() == wanted and av == ['nbdime']:
                continue          # --set-default is the user's explicit request to make nbdime the default tool in this scope
            if [v for v in bf if v not in af] or (bf and len(af) < len(bf)):
                out.append(('foreign-setting-changed', '%s changed a setting that is not nbdime\'s: %s config %s: %r -> %r'
                            % (shown, s, k, bv, av or 'unset')))
            else:
                out.append(('foreign-setting-added', '%s added a setting that is not nbdime\'s own: %s config %s = %r'
                            % (shown, s, k, [v for v in af if v not in bf])))

    # --- attributes files: unrelated rules stay, as separate intact lines; at most one nbdime line per driver
    for s in ('repo', 'global'):
        b, a = before['attr_files'][s], after['attr_files'][s]
        bl, al = _foreign_lines(b), _foreign_lines(a)
        if bl != al:
            lost = [ln for ln in bl if ln not in al]
            if lost or len(al) < len(bl):
                out.append(('attributes-content-lost', '%s: rule(s) %r of the %s attributes file are no longer present as intact lines: %r -> %r'
                            % (shown, lost or bl, s, b, a)))
            else:
                out.append(('attributes-foreign-added', '%s added line(s) other than nbdime\'s driver lines to the %s attributes file: %r -> %r'
                            % (shown, s, b, a)))
        for drv in ('diff', 'merge'):
            nb, na = _count(b, drv + '=jupyternotebook'), _count(a, drv + '=jupyternotebook')
            if na > max(1, nb):
                out.append(('attributes-duplicated', '%s: the %s attributes file now holds %d lines with %s=jupyternotebook: %r'
                            % (shown, s, na, drv, a)))
    for path in ('x.csv', 'x.txt'):
        if before['check_attr'].get(path) != after['check_attr'].get(path):
            out.append(('attributes-content-lost', '%s: `git check-attr` for the unrelated path %s changed: %r -> %r (attributes: %r)'
                        % (shown, path, before['check_attr'].get(path), after['check_attr'].get(path), after['attr_files'])))

    # --- every other user-owned file (a private attributes file of the repository, a stale default file, ...) is left alone:
    # a command edits the configuration and the attributes file of its own scope only
    for p in sorted(set(before['files']) | set(after['files'])):
        if p in before['cfg_paths'] or p == before['attr_paths'][own_scope]:
            continue
        if before['files'].get(p) != after['files'].get(p):
            out.append(('foreign-file-changed', '%s changed a file outside its scope: %s: %r -> %r' % (shown, p, before['files'].get(p), after['files'].get(p))))

    # --- routing / registration
    mine = _multimap(after['cfg'].get(own_scope, []))
    everywhere = {}
    for s, kvs in after['cfg'].items():
        for k, v in kvs:
            everywhere.setdefault(k.lower(), []).append(v)
    drivers = {'diffdriver': ['diff'], 'mergedriver': ['merge'], 'all': ['diff', 'merge']}.get(tool, [])
    cmdkey = {'diff': 'diff.jupyternotebook.command', 'merge': 'merge.jupyternotebook.driver'}
    if exc is None and action == 'enable':
        for drv in drivers:
            problems = []
            if not any(mine.get(cmdkey[drv], [])):
                problems.append('%s is not set in the %s config' % (cmdkey[drv], own_scope))
            # where routing is observed: the repository the command ran in -- unless it was a global enable and that repository
            # has its own core.attributesfile (it then never consults the global attributes file); a global enable must also
            # show in the user's other repository
            views = []
            if not (own_scope == 'global' and after.get('repo_corefile')):
                views.append(('', after['check_attr']))
            if own_scope == 'global':
                views.append((' (in the other repository)', after['check_attr_other']))
            for label, view in views:
                for path in ('nb.ipynb', 'sub/dir/nb.ipynb'):
                    got = view.get(path, {}).get(drv)
                    if got != 'jupyternotebook':
                        problems.append('git check-attr %s -- %s%s says %r' % (drv, path, label, got))
            if problems:
                out.append(('not-routed-after-enable', '%s: git does not route notebooks to the nbdime %s driver: %s (attributes: %r)'
                            % (shown, drv, '; '.join(problems), after['attr_files'])))
        for t in {'difftool': ['difftool'], 'mergetool': ['mergetool'], 'all': ['difftool', 'mergetool']}.get(tool, []):
            problems = []
            if not any(mine.get(t + '.nbdime.cmd', [])):
                problems.append('%s.nbdime.cmd is not set' % t)
            if mine.get(t + '.prompt', [None])[-1] != 'false':
                problems.append('%s.prompt is %r' % (t, mine.get(t + '.prompt')))
            dk = {'difftool': 'diff.guitool', 'mergetool': 'merge.tool'}[t]
            if default and mine.get(dk, [None])[-1] != 'nbdime':
                problems.append('%s is %r despite --set-default' % (dk, mine.get(dk)))
            if problems:
                out.append(('tool-not-registered-after-enable', '%s: the %s entries are not in the %s config: %s'
                            % (shown, t, own_scope, '; '.join(problems))))
    if exc is None and action == 'disable':
        for drv in drivers:
            left = [k for k in mine if k.lower().startswith(drv + '.jupyternotebook.')]
            if left:
                out.append(('still-routed-after-disable', '%s: the %s config still has the %s driver section: %r'
                            % (shown, own_scope, drv, left)))
    return out
