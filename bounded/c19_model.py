"""C19 -- executable model of the DOCUMENTED option-resolution rule and generator of configurations.

Nothing in this file imports nbdime.  The section order of every entry point is written down from
docs/source/config.rst ("Sections") and the property text:

    own section > git-specific (GitDiff/GitMerge) > diff or merge (Diff/Merge) > web-tool (WebTool)
                > web (Web) > global (Global) > built-in default

and the file order is: working directory first, then jupyter_core.paths.jupyter_config_path().
"""
import copy
import hashlib
import itertools
import json
import random

LOG_LEVELS = ['DEBUG', 'INFO', 'WARN', 'ERROR', 'CRITICAL']
STRATS = ['inline', 'use-base', 'use-local', 'use-remote']
OUT_STRATS = STRATS + ['remove', 'clear-all']
IGN = ['sources', 'outputs', 'metadata', 'id', 'attachments', 'details']

G = ['log_level']
WEB = ['port', 'ip', 'base_url', 'browser', 'persist', 'workdirectory']
IGNOPTS = IGN + ['Ignore']
DIFF = IGNOPTS + ['color_words']
MERGEONLY = ['merge_strategy', 'input_strategy', 'output_strategy', 'ignore_transients']
MERGE = DIFF + MERGEONLY

# options a shared section may legitimately set (config.rst: "Global ... only for options that are
# supported by all commands"; Web/WebTool: web commands; Diff/GitDiff: diffing; Merge/GitMerge: merging)
SECTION_OPTS = {
    'Global': G,
    'Web': G + WEB,
    'WebTool': G + WEB,
    'Diff': G + DIFF,
    'GitDiff': G + DIFF,
    'Merge': G + MERGE,
    'GitMerge': G + MERGE,
}

# entry point -> (own section, shared sections in documented order, most specific first)
ENTRY = {
    'nbdiff': ('NbDiff', ['GitDiff', 'Diff', 'Global']),
    'nbdiff-web': ('NbDiffWeb', ['GitDiff', 'Diff', 'Web', 'Global']),
    'nbmerge': ('NbMerge', ['Merge', 'Global']),
    'nbmerge-web': ('NbMergeWeb', ['Merge', 'Web', 'Global']),
    'nbshow': ('NbShow', ['Global']),
    'server': ('Server', ['Web', 'Global']),
    'extension': ('Extension', ['GitDiff', 'Diff', 'Global']),
    'git-nbdiffdriver': ('NbDiffDriver', ['GitDiff', 'Diff', 'Global']),
    'git-nbdifftool': ('NbDiffTool', ['GitDiff', 'Diff', 'WebTool', 'Web', 'Global']),
    'git-nbmergedriver': ('NbMergeDriver', ['GitMerge', 'Merge', 'Global']),
    'git-nbmergetool': ('NbMergeTool', ['GitMerge', 'Merge', 'WebTool', 'Web', 'Global']),
}
ENTRIES = list(ENTRY)
OWN_EXTRA = {'NbShow': IGNOPTS, 'NbMergeWeb': ['show_base']}


def entry_opts(entry):
    own, shared = ENTRY[entry]
    out = []
    for s in shared:
        for o in SECTION_OPTS[s]:
            if o not in out:
                out.append(o)
    for o in OWN_EXTRA.get(own, []):
        if o not in out:
            out.append(o)
    return out


ENTRY_OPTS = {e: entry_opts(e) for e in ENTRIES}
for _e, (_own, _sh) in ENTRY.items():
    SECTION_OPTS[_own] = ENTRY_OPTS[_e]
ALL_SECTIONS = list(SECTION_OPTS)
SHARED = ['Global', 'Web', 'WebTool', 'Diff', 'GitDiff', 'Merge', 'GitMerge']

UNCHECKED = '<cwd at program start>'
DEFAULTS = {
    'log_level': 'INFO', 'port': 0, 'ip': '127.0.0.1', 'base_url': '/', 'browser': None, 'persist': False,
    'workdirectory': UNCHECKED, 'sources': None, 'outputs': None, 'metadata': None, 'id': None,
    'attachments': None, 'details': None, 'color_words': False, 'merge_strategy': 'inline',
    'input_strategy': None, 'output_strategy': None, 'ignore_transients': True, 'show_base': True,
}
DEFAULT_OVERRIDE = {'server': {'port': 8888}}

PATHS = ['/cells/*/outputs', '/cells/*/metadata', '/metadata', '/cells/*/attachments', '/cells/*/source']
PATH_VALUES = [True, False, ['collapsed'], ['tags', 'foo'], ['a', 'b', 'c'], None]
DOMAIN = {
    'log_level': LOG_LEVELS, 'port': [0, 8888, 8889, 9000, 9001], 'ip': ['127.0.0.1', '0.0.0.0', '::1', ''],
    # the empty string is a value like any other ("no browser", "all interfaces"), not "unset"
    'base_url': ['/', '/nb/', '/x/y/', ''], 'browser': ['firefox', 'chrome', None, ''], 'persist': [True, False],
    'workdirectory': ['/srv/a', '/srv/b', ''], 'color_words': [True, False], 'merge_strategy': STRATS,
    'input_strategy': STRATS + [None], 'output_strategy': OUT_STRATS + [None], 'ignore_transients': [True, False],
    'show_base': [True, False],
}
for _o in IGN:
    DOMAIN[_o] = [True, False, None]
ALL_OPTS = G + WEB + MERGE + ['show_base']


def defaults(entry):
    d = {o: DEFAULTS[o] for o in ENTRY_OPTS[entry] if o != 'Ignore'}
    d.update(DEFAULT_OVERRIDE.get(entry, {}))
    return d


# ------------------------------------------------------------------------------------------------
# the rule

def merge_files(files, none_mode):
    """files: config dicts, HIGHEST priority first.  A higher-priority file overrides a lower-priority one per
    (section, option), for Ignore per (section, path).  none_mode 'unset': a None removes what lower-priority
    files said (the section then does not set the option); 'value': None is kept as the section's value."""
    disk = {}
    for cfg in reversed(files):
        for sec, opts in cfg.items():
            tgt = disk.setdefault(sec, {})
            for o, v in opts.items():
                if o == 'Ignore':
                    ig = tgt.setdefault('Ignore', {})
                    for p, pv in v.items():
                        if pv is None and none_mode == 'unset':
                            ig.pop(p, None)
                        else:
                            ig[p] = copy.deepcopy(pv)
                elif v is None and none_mode == 'unset':
                    tgt.pop(o, None)
                else:
                    tgt[o] = v
    return disk


def resolve(entry, files, none_mode='unset', order=None):
    """effective option values of `entry` (all of ENTRY_OPTS[entry]; None == unset) under the documented rule"""
    own, shared = ENTRY[entry]
    order = order or [own] + shared
    disk = merge_files(files, none_mode)
    eff = defaults(entry)
    ignore = {}
    for sec in reversed(order):            # least specific first, more specific overrides
        for o, v in disk.get(sec, {}).items():
            if o == 'Ignore':
                for p, pv in v.items():
                    if pv is None:
                        ignore.pop(p, None)
                    else:
                        ignore[p] = pv
            else:
                eff[o] = v
    eff['Ignore'] = ignore
    return eff


def accepted(entry, files, order=None):
    "the (one or two) resolutions the property text admits: it does not say how a None value is to be read"
    a = resolve(entry, files, 'unset', order)
    b = resolve(entry, files, 'value', order)
    return [a] if a == b else [a, b]


def setters(entry, files, opt):
    "[(file index, section)] that mention `opt` for `entry`"
    own, shared = ENTRY[entry]
    out = []
    for fi, cfg in enumerate(files):
        for sec in [own] + shared:
            if opt in cfg.get(sec, {}):
                out.append((fi, sec))
    return out


def alt_web_first(entry):
    "section order with the web branch ranked above the diff/merge branch (NOT the documented one)"
    own, shared = ENTRY[entry]
    web = [s for s in shared if s in ('WebTool', 'Web')]
    rest = [s for s in shared if s not in ('WebTool', 'Web', 'Global')]
    return [own] + web + rest + ['Global']


def explain(entry, files, opt, got):
    """which deviation from the rule reproduces the observed value of one option:
    'web-first' | 'file-order' | 'section-order' | None"""
    def matches(fs, order):
        return any(r[opt] == got for r in accepted(entry, fs, order))
    own, shared = ENTRY[entry]
    if alt_web_first(entry) != [own] + shared and matches(files, alt_web_first(entry)):
        return 'web-first'
    idx = list(range(len(files)))
    for perm in itertools.permutations(idx):
        if list(perm) != idx and matches([files[i] for i in perm], None):
            return 'file-order'
    for perm in itertools.permutations(shared):
        if list(perm) != shared and matches(files, [own] + list(perm)):
            return 'section-order'
    # a section that does not take part at all
    for k in range(len(shared) + 1):
        order = ([own] + shared)[:k] + ([own] + shared)[k + 1:]
        if matches(files, order):
            return 'section-order'
    return None


# ------------------------------------------------------------------------------------------------
# generator

FAMILIES = {
    'diff': ['Global', 'Diff', 'GitDiff', 'Web', 'WebTool', 'NbDiff', 'NbDiffWeb', 'NbDiffDriver', 'NbDiffTool', 'Extension'],
    'merge': ['Global', 'Merge', 'GitMerge', 'Web', 'WebTool', 'NbMerge', 'NbMergeWeb', 'NbMergeDriver', 'NbMergeTool'],
    'web': ['Global', 'Web', 'WebTool', 'Server', 'NbDiffWeb', 'NbMergeWeb', 'NbDiffTool', 'NbMergeTool', 'Diff', 'Merge'],
    'all': None,
}
DIRS = ['cwd', 'envpath', 'user']       # highest priority first: cwd, JUPYTER_CONFIG_PATH entry, JUPYTER_CONFIG_DIR


def gen_ignore(rnd):
    n = rnd.choice([1, 1, 2, 2, 3])
    return {p: copy.deepcopy(rnd.choice(PATH_VALUES)) for p in rnd.sample(PATHS, n)}


def gen_value(rnd, opt):
    return gen_ignore(rnd) if opt == 'Ignore' else rnd.choice(DOMAIN[opt])


def gen_files(rnd):
    fam = rnd.choice(['diff', 'diff', 'merge', 'merge', 'web', 'all'])
    secs = FAMILIES[fam] or ALL_SECTIONS
    weights = [3 if s in SHARED else 1 for s in secs]
    pool = []
    for o in rnd.choices(['log_level', 'Ignore', 'sources', 'outputs', 'port', 'merge_strategy'] + ALL_OPTS,
                         k=rnd.choice([1, 2, 2, 3, 4])):
        if o not in pool:
            pool.append(o)
    ndirs = rnd.choice([1, 2, 2, 3, 3])
    used = sorted(rnd.sample(DIRS, ndirs), key=DIRS.index)
    files = {}
    for d in used:
        cfg = {}
        for s in sorted(set(rnd.choices(secs, weights=weights, k=rnd.randint(1, 4)))):
            legit = [o for o in pool if o in SECTION_OPTS[s]]
            if not legit:
                legit = [rnd.choice(SECTION_OPTS[s])]
            body = {o: gen_value(rnd, o) for o in legit if rnd.random() < 0.85}
            if body:
                cfg[s] = body
        files[d] = dict(sorted(cfg.items()))
    return files


def flag_tokens(rnd, opt):
    "(argv tokens, value the flag stands for) for an option that can be given on the command line"
    if opt in IGN:
        v = rnd.choice([True, False])
        short = opt[0]
        if rnd.random() < 0.5:
            return ['-' + (short if v else short.upper())], v
        return ['--' + ('' if v else 'ignore-') + opt], v
    if opt == 'log_level':
        v = rnd.choice(LOG_LEVELS)
        return ['--log-level', v], v
    if opt == 'port':
        v = rnd.choice([8890, 9002, 9003])
        return [rnd.choice(['-p', '--port']), str(v)], v
    if opt == 'ip':
        v = rnd.choice(['0.0.0.0', '::1', '10.0.0.1'])
        return ['--ip', v], v
    if opt == 'base_url':
        v = rnd.choice(['/flag/', '/f/g/'])
        return ['--base-url', v], v
    if opt == 'browser':
        v = rnd.choice(['lynx', 'w3m'])
        return [rnd.choice(['-b', '--browser']), v], v
    if opt == 'workdirectory':
        v = rnd.choice(['/srv/flag', '/srv/f2'])
        return [rnd.choice(['-w', '--workdirectory']), v], v
    if opt == 'persist':
        return ['--persist'], True
    if opt == 'color_words':
        return ['--color-words'], True
    if opt == 'ignore_transients':
        return ['--no-ignore-transients'], False
    if opt == 'show_base':
        return ['--no-base'], False
    if opt in ('merge_strategy', 'input_strategy'):
        v = rnd.choice(STRATS)
        return ['--' + opt.replace('_', '-'), v], v
    if opt == 'output_strategy':
        v = rnd.choice(OUT_STRATS)
        return ['--output-strategy', v], v
    raise KeyError(opt)


def key_of(obj):
    return int(hashlib.md5(json.dumps(obj, sort_keys=True).encode()).hexdigest()[:15], 16)
