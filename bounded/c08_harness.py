"""Harness of the bounded stand-in for C08 (merge command / git merge driver: exit status, output file,
behaviour on failure): file layouts, single-fault injection, in-process and subprocess invocation of the real
entry points, and the oracle (library merge on freshly read copies).

Everything here is run-time observation of the real code in $NBDIME_REPO; nothing of nbdime is re-implemented
except the reading rule for the three inputs (placeholder / zero-byte base -> minimal notebook)."""
import builtins
import contextlib
import errno
import io
import json
import os
_HERE = os.path.dirname(os.path.dirname(os.path.abspath(__file__)))
import shutil
import subprocess
import sys
import tempfile

NULL = '/dev/null' if os.name != 'nt' else 'nul'
MARKER_PREFIX = '<span style="color:red">'
FIXED_MTIME_NS = 1_600_000_000 * 10 ** 9

CLI_LAYOUTS = ['plain', 'samestat', 'empty-base', 'null-base', 'no-base-arg', 'del-local', 'del-remote', 'del-both']
DRIVER_LAYOUTS = ['plain', 'samestat', 'empty-base', 'null-base', 'del-remote']
# NOTE: the driver is never run with local == /dev/null: its output IS the local file, and the agreed-deletion
# branch would os.remove('/dev/null') when run as root.

# step boundaries at which exactly one fault is injected (in-process)
STEPS_MERGE = ['missing:base', 'missing:local', 'missing:remote', 'corrupt:base', 'corrupt:local', 'corrupt:remote',
               'read:base', 'read:local', 'read:remote', 'merge', 'diff:1', 'diff:2', 'decide', 'apply',
               'write-call', 'open-out', 'write:1', 'write:2', 'close-out', 'write-after']
STEPS_DELBOTH = ['missing:base', 'corrupt:base', 'read:base', 'remove-out']
# faults that strike before the first byte of the result is written: the output location must be untouched
BEFORE_WRITE = {'missing:base', 'missing:local', 'missing:remote', 'corrupt:base', 'corrupt:local', 'corrupt:remote', 'read:base', 'read:local', 'read:remote', 'merge', 'diff:1', 'diff:2', 'decide', 'apply',
                'write-call', 'open-out', 'remove-out', 'kill:merge', 'kill:write-call'}
KILL_STEPS = ['kill:merge', 'kill:write-call']


class HarnessError(Exception):
    pass


# ------------------------------------------------------------------------------------------
# strategies

def flags_for(strategy, explicit=True):
    m, i, o, t = strategy
    f = []
    if m != 'inline' or explicit:
        f += ['--merge-strategy', m]
    if i is not None:
        f += ['--input-strategy', i]
    if o is not None:
        f += ['--output-strategy', o]
    if not t:
        f += ['--no-ignore-transients']
    return f


# ------------------------------------------------------------------------------------------
# layouts

def nb_text(nb):
    import nbformat
    return nbformat.writes(nb)


def make_samestat_pair(l, r, rnd):
    """local/remote with different content; the caller pads the files to identical size and sets identical mtime"""
    from bounded import nbspace
    k = 0
    while nbspace.canon(l) == nbspace.canon(r) and k < 8:
        r = nbspace.random_edits(r, rnd, 1)
        k += 1
    return l, r


def layout_texts(b, l, r, layout):
    """-> dict name -> text or None (placeholder)"""
    t = {'base': nb_text(b), 'local': nb_text(l), 'remote': nb_text(r)}
    if layout == 'empty-base':
        t['base'] = ''
    elif layout in ('null-base', 'no-base-arg'):
        t['base'] = None
    elif layout == 'del-local':
        t['local'] = None
    elif layout == 'del-remote':
        t['remote'] = None
    elif layout == 'del-both':
        t['local'] = t['remote'] = None
    elif layout == 'samestat':
        # trailing whitespace is insignificant in JSON: pad the shorter file so that sizes agree
        n = max(len(t['local'].encode('utf8')), len(t['remote'].encode('utf8')))
        for k in ('local', 'remote'):
            t[k] = t[k] + '\n' * (n - len(t[k].encode('utf8')))
    return t


def materialise(d, texts, layout, app, pre_out):
    """write the files of one case into the (empty) directory d; -> paths dict (base, local, remote, out)"""
    p = {}
    for k in ('base', 'local', 'remote'):
        if texts[k] is None:
            p[k] = NULL
        else:
            p[k] = os.path.join(d, k + '.ipynb')
            with open(p[k], 'w', encoding='utf8', newline='') as fh:
                fh.write(texts[k])
    with open(os.path.join(d, 'bystander.ipynb'), 'w', encoding='utf8') as fh:
        fh.write(texts['base'] or texts['local'] or '{}')
    if app == 'driver':
        if p['local'] == NULL:
            raise HarnessError('driver layouts never use a placeholder for the local file')
        p['out'] = p['local']
    else:
        p['out'] = os.path.join(d, 'merged.ipynb')
        if pre_out:
            with open(p['out'], 'w', encoding='utf8') as fh:
                fh.write('{"pre-existing": "output", "cells": []}\n')
    if layout == 'samestat':
        for k in ('local', 'remote'):
            os.utime(p[k], ns=(FIXED_MTIME_NS, FIXED_MTIME_NS))
        sl, sr = os.stat(p['local']), os.stat(p['remote'])
        if (sl.st_size, sl.st_mtime_ns) != (sr.st_size, sr.st_mtime_ns):
            raise HarnessError('could not give local and remote identical size and mtime')
    return p


IGNORE_FLAGS = {'-S': 'sources', '-O': 'outputs', '-A': 'attachments', '-M': 'metadata', '-I': 'identifier', '-D': 'details'}


@contextlib.contextmanager
def ignore_options(ignore):
    "the diff-ignore options of a command line in force for a library call (and reset afterwards, whatever happened)"
    from nbdime.diffing import notebooks as nbd
    nbd.reset_notebook_differ()
    try:
        if ignore:
            nbd.set_notebook_diff_targets(**{IGNORE_FLAGS[f]: False for f in ignore})
        yield
    finally:
        nbd.reset_notebook_differ()


def argv_for(app, layout, p, strategy, explicit=True, with_pathname=True, with_out=True, ignore=(), log_level=None):
    flags = flags_for(strategy, explicit) + list(ignore)
    loglevel = ['--log-level', log_level] if log_level else []
    if app == 'driver':
        # --log-level is an option of the driver itself, not of its merge sub-command
        a = loglevel + ['merge'] + flags + [p['base'], p['local'], p['remote'], '7']
        if with_pathname:
            a.append('notebook.ipynb')
        return a
    a = loglevel + list(flags)
    if layout != 'no-base-arg':
        a.append(p['base'])
    a += [p['local'], p['remote']]
    if with_out:
        a += ['--out', p['out']]
    return a


def snapshot(d):
    out = {}
    for name in sorted(os.listdir(d)):
        path = os.path.join(d, name)
        if os.path.isfile(path):
            with open(path, 'rb') as fh:
                out[name] = fh.read()
        else:
            out[name] = '<dir>'
    return out


def read_bytes(path):
    try:
        with open(path, 'rb') as fh:
            return fh.read()
    except FileNotFoundError:
        return None


# ------------------------------------------------------------------------------------------
# oracle

def fresh_read(path, empty_ok=False):
    import nbformat
    if path == NULL:
        return nbformat.v4.new_notebook()
    if empty_ok and os.path.getsize(path) == 0:
        return nbformat.v4.new_notebook()
    with open(path, encoding='utf8') as fh:
        return nbformat.reads(fh.read(), as_version=4)


def normalise(nb, noid=()):
    """canonical JSON of a notebook modulo randomly generated cell ids: those of conflict-marker cells
    (nbformat.v4.new_markdown_cell) and those nbformat.write invents for the cells at the indices `noid`
    (cells without id, or repeating an earlier cell's id, in a notebook that declares minor >= 5)"""
    from bounded import nbspace
    plain = nbspace.to_plain(nb)
    for k, c in enumerate(plain.get('cells', [])):
        src = c.get('source')
        if isinstance(src, list):
            src = ''.join(src)
        if isinstance(src, str) and src.startswith(MARKER_PREFIX) and 'id' in c:
            c['id'] = '<marker>'
        elif k in noid and 'id' in c:
            c['id'] = '<generated>'
    return json.dumps(plain, sort_keys=True)


class LibResult:
    """result of the library merge, passed through nbformat.writes/reads like a faithfully written file"""
    def __init__(self, merged, decisions):
        import nbformat
        self.conflicted = any(d.conflict for d in decisions)
        # nbformat.write replaces a missing id and the 2nd, 3rd.. occurrence of a duplicate id by a random one
        seen, noid = set(), set()
        for k, c in enumerate(merged.get('cells', [])):
            if 'id' not in c or c['id'] in seen:
                noid.add(k)
            else:
                seen.add(c['id'])
        self.noid = frozenset(noid)
        self.filed = nbformat.reads(nbformat.writes(merged), as_version=4)
        self.norm = normalise(self.filed, self.noid)

    def same(self, nb):
        return normalise(nb, self.noid) == self.norm


def library_merge(B, L, R, strategy, ignore=()):
    """-> LibResult; None if the library merge itself raises (C03's business); 'unserialisable' if its result cannot
    be written by nbformat at all (schema-breaking results such as a dict-valued cell id are C04's business)"""
    import copy
    from bounded import mergespace
    from nbdime.merging import merge_notebooks
    try:
        with ignore_options(ignore):
            merged, decisions = merge_notebooks(copy.deepcopy(B), copy.deepcopy(L), copy.deepcopy(R), mergespace.args_for(*strategy))
    except Exception:
        return None
    try:
        return LibResult(merged, decisions)
    except Exception:
        return 'unserialisable'


class Expect:
    def __init__(self, p, strategy, ignore=()):
        self.B = fresh_read(p['base'], empty_ok=True)
        self.L = fresh_read(p['local'])
        self.R = fresh_read(p['remote'])
        self.strategy = strategy
        self.ignore = tuple(ignore)
        self.main = library_merge(self.B, self.L, self.R, strategy, self.ignore)

    def ignored_input(self, got_nb):
        """which input would have to be ignored for the library merge to give the notebook `got_nb` (or None)"""
        import nbformat
        alts = [('remote', (self.B, self.L, self.L)), ('local', (self.B, self.R, self.R)),
                ('base', (nbformat.v4.new_notebook(), self.L, self.R))]
        for which, (b, l, r) in alts:
            res = library_merge(b, l, r, self.strategy, self.ignore)
            if isinstance(res, LibResult) and res.same(got_nb):
                return which
        return None


# ------------------------------------------------------------------------------------------
# fault injection

class Fault:
    def __init__(self, step):
        self.step = step
        self.fired = False


def damage_input(step, p):
    """the faults that are a state of the file system rather than a raised exception: an input file that has
    vanished ('missing:<which>') or is cut off in the middle ('corrupt:<which>'). Applied BEFORE the snapshot."""
    kind, which = step.split(':')
    path = p[which]
    if path == NULL:
        raise HarnessError('cannot damage a placeholder')
    if kind == 'missing':
        os.remove(path)
    else:
        with open(path, 'rb') as fh:
            data = fh.read()
        body = data.rstrip()          # the samestat layout pads with trailing newlines: cut inside the JSON text proper
        if len(body) < 2:
            raise HarnessError('cannot cut a %d-byte file in the middle' % len(body))
        cut = data[:len(body) // 2]
        try:
            json.loads(cut.decode('utf8', 'replace'))
        except ValueError:
            pass
        else:
            raise HarnessError('cut-off input is still well-formed JSON')
        with open(path, 'wb') as fh:
            fh.write(cut)


class _FileProxy:
    """wraps the file object opened on the output; fails the k-th write (after half of it) or the close"""
    def __init__(self, real, fault, fail_write=None, fail_close=False):
        self._real, self._fault, self._fail_write, self._fail_close, self._n = real, fault, fail_write, fail_close, 0

    def write(self, s):
        self._n += 1
        if self._fail_write == self._n and not self._fault.fired:
            self._fault.fired = True
            self._real.write(s[:len(s) // 2])
            self._real.flush()
            raise OSError(errno.ENOSPC, os.strerror(errno.ENOSPC))
        return self._real.write(s)

    def close(self):
        self._real.close()
        if self._fail_close and not self._fault.fired:
            self._fault.fired = True
            raise OSError(errno.EIO, os.strerror(errno.EIO))

    def __enter__(self):
        return self

    def __exit__(self, *exc):
        self.close()
        return False

    def __iter__(self):
        return iter(self._real)

    def __getattr__(self, name):
        return getattr(self._real, name)


def _same(file, path):
    try:
        return os.path.abspath(os.fspath(file)) == os.path.abspath(path)
    except TypeError:
        return False


@contextlib.contextmanager
def inject(step, p):
    """Arrange for exactly one fault at `step`; yields the Fault (fault.fired tells whether it struck).
    All patched names are restored on exit."""
    import nbformat
    import nbdime.nbmergeapp as app
    import nbdime.merging.notebooks as mn
    fault = Fault(step)
    patches = []          # (object, attribute, replacement)
    real_open = builtins.open

    def once(exc_factory):
        def raiser(*a, **k):
            if not fault.fired:
                fault.fired = True
                raise exc_factory()
            raise HarnessError('single-shot fault reached twice')
        return raiser

    def nth(real, n, exc_factory):
        cnt = [0]

        def wrapper(*a, **k):
            cnt[0] += 1
            if cnt[0] == n and not fault.fired:
                fault.fired = True
                raise exc_factory()
            return real(*a, **k)
        return wrapper

    eio = lambda: OSError(errno.EIO, os.strerror(errno.EIO))
    enospc = lambda: OSError(errno.ENOSPC, os.strerror(errno.ENOSPC))

    if step.startswith('read:'):
        target = p[step[5:]]
        if target == NULL:
            raise HarnessError('no read fault on a placeholder')

        def hit(f):
            name = f if isinstance(f, (str, bytes, os.PathLike)) else getattr(f, 'name', None)
            return name is not None and _same(name, target) and not fault.fired

        def wrap_reader(real):
            def reader(f, *a, **k):
                if hit(f):
                    fault.fired = True
                    raise eio()
                return real(f, *a, **k)
            return reader

        def open_r(file, mode='r', *a, **k):
            if hit(file) and not any(c in mode for c in 'wax+'):
                fault.fired = True
                raise eio()
            return real_open(file, mode, *a, **k)
        patches += [(app, 'read_notebook', wrap_reader(app.read_notebook)), (nbformat, 'read', wrap_reader(nbformat.read)),
                    (builtins, 'open', open_r), (io, 'open', open_r)]
    elif step == 'merge':
        patches.append((app, 'merge_notebooks', once(MemoryError)))
    elif step.startswith('diff:'):
        k = int(step[5:])
        patches.append((mn, 'diff_notebooks', nth(mn.diff_notebooks, k, MemoryError if k == 1 else KeyboardInterrupt)))
    elif step == 'decide':
        patches.append((mn, 'decide_merge_with_diff', once(MemoryError)))
    elif step == 'apply':
        patches.append((mn, 'apply_decisions', once(lambda: RuntimeError('injected fault while applying decisions'))))
    elif step == 'write-call':
        patches.append((nbformat, 'write', once(enospc)))
    elif step == 'write-after':
        real_write = nbformat.write

        def write_then_interrupt(*a, **k):
            real_write(*a, **k)
            if not fault.fired:
                fault.fired = True
                raise KeyboardInterrupt()
        patches.append((nbformat, 'write', write_then_interrupt))
    elif step in ('open-out', 'write:1', 'write:2', 'close-out'):
        def open_w(file, mode='r', *a, **k):
            if _same(file, p['out']) and any(c in mode for c in 'wax+') and not fault.fired:
                if step == 'open-out':
                    fault.fired = True
                    raise enospc()
                real = real_open(file, mode, *a, **k)
                if step == 'close-out':
                    return _FileProxy(real, fault, fail_close=True)
                return _FileProxy(real, fault, fail_write=int(step[6:]))
            return real_open(file, mode, *a, **k)
        patches += [(builtins, 'open', open_w), (io, 'open', open_w)]
    elif step == 'remove-out':
        def rm(real):
            def remover(path, *a, **k):
                if _same(path, p['out']) and not fault.fired:
                    fault.fired = True
                    raise PermissionError(errno.EACCES, os.strerror(errno.EACCES))
                return real(path, *a, **k)
            return remover
        patches += [(os, 'remove', rm(os.remove)), (os, 'unlink', rm(os.unlink))]
    else:
        raise HarnessError('unknown fault step %r' % step)

    saved = [(obj, attr, getattr(obj, attr)) for obj, attr, _ in patches]
    try:
        for obj, attr, new in patches:
            setattr(obj, attr, new)
        yield fault
    finally:
        for obj, attr, old in reversed(saved):
            setattr(obj, attr, old)


# ------------------------------------------------------------------------------------------
# invocation

def status_of(value):
    "process exit status that sys.exit(value) would give"
    if value is None:
        return 0
    if isinstance(value, bool):
        return int(value)
    if isinstance(value, int):
        return value & 0xFF
    return 1


def invoke_inproc(app, argv):
    """-> (status, how, exception or None, stdout bytes); an exception propagating out of main() is a failure exit (status 1)"""
    if app == 'driver':
        from nbdime.vcs.git import mergedriver as mod
    else:
        import nbdime.nbmergeapp as mod
    old_out, old_err = sys.stdout, sys.stderr
    cap = sys.stdout = io.StringIO()
    sys.stderr = io.StringIO()
    out = lambda: cap.getvalue().encode('utf8')
    try:
        try:
            rc = mod.main(list(argv))
            return status_of(rc), 'returned %r' % (rc,), None, out()
        except SystemExit as exc:
            return status_of(exc.code), 'SystemExit(%r)' % (exc.code,), None, out()
        except BaseException as exc:          # KeyboardInterrupt, MemoryError, ...: the interpreter would exit non-zero
            return 1, 'raised %s' % type(exc).__name__, exc, out()
    finally:
        sys.stdout, sys.stderr = old_out, old_err


_BOOT = r'''
import os, sys, signal
app, step = sys.argv[1:3]
argv = sys.argv[3:]
import nbformat
import nbdime.nbmergeapp as A
def die(*a, **k):
    os.kill(os.getpid(), signal.SIGKILL)
if step == 'kill:merge':
    A.merge_notebooks = die
elif step == 'kill:write-call':
    nbformat.write = die
if app == 'driver':
    from nbdime.vcs.git import mergedriver as M
else:
    M = A
sys.exit(M.main(argv))
'''


_SCRIPT = r'''
import sys
name = sys.argv[1]
sys.argv = [name] + sys.argv[2:]          # what the installed console script of that name runs under
if name == 'git-nbmergedriver':
    from nbdime.vcs.git.mergedriver import main
else:
    from nbdime.nbmergeapp import main
sys.exit(main())
'''


def invoke_subprocess(app, argv, cwd, step=None, locale=None, script_name=None):
    """-> (returncode, stdout bytes, stderr text); locale='C': a process whose locale encoding is not UTF-8
    (LC_ALL=C with Python's UTF-8 mode and locale coercion switched off -- what a legacy 8-bit locale or a Windows code page is)"""
    repo = os.environ.get('NBDIME_REPO', '/repo')
    env = {k: v for k, v in os.environ.items() if not k.startswith(('JUPYTER', 'PYTHON', 'NBDIME'))}
    home = os.path.join(os.path.dirname(cwd), 'home')
    env.update({'PYTHONPATH': repo + os.pathsep + os.path.join(_HERE, 'stubs'), 'HOME': home, 'JUPYTER_CONFIG_DIR': os.path.join(home, '.jupyter'),
                'JUPYTER_CONFIG_PATH': os.path.join(home, '.jupyter'), 'PYTHONDONTWRITEBYTECODE': '1', 'PYTHONIOENCODING': 'utf8'})
    if locale == 'C':
        env.update({'LC_ALL': 'C', 'LANG': 'C', 'PYTHONUTF8': '0', 'PYTHONCOERCECLOCALE': '0'})
        del env['PYTHONIOENCODING']
    elif locale in ('io-latin-1', 'io-ascii'):
        # a UTF-8 locale, but the standard streams forced to an 8-bit / 7-bit encoding by the user (PYTHONIOENCODING without error handler)
        env['PYTHONIOENCODING'] = locale[3:]
    py = sys.executable or os.path.join(_HERE, '.venv', 'bin', 'python')
    if script_name:
        cmd = [py, '-c', _SCRIPT, script_name] + list(argv)
    elif step:
        cmd = [py, '-c', _BOOT, app, step] + list(argv)
    else:
        cmd = [py, '-m', 'nbdime.vcs.git.mergedriver' if app == 'driver' else 'nbdime.nbmergeapp'] + list(argv)
    try:
        proc = subprocess.run(cmd, cwd=cwd, env=env, stdout=subprocess.PIPE, stderr=subprocess.PIPE, timeout=120)
    except subprocess.TimeoutExpired:
        raise HarnessError('subprocess timed out: %r' % (cmd,))
    return proc.returncode, proc.stdout, proc.stderr.decode('utf8', 'replace')


@contextlib.contextmanager
def scratch():
    """temp tree <root>/work (the case's files; yielded) and <root>/home (HOME / jupyter config of subprocesses)"""
    root = tempfile.mkdtemp(prefix='nbdime-verif-c08-')
    old = {k: os.environ.get(k) for k in ('JUPYTER_CONFIG_DIR', 'JUPYTER_CONFIG_PATH')}
    try:
        work, home = os.path.join(root, 'work'), os.path.join(root, 'home')
        os.mkdir(work)
        os.mkdir(home)
        os.environ['JUPYTER_CONFIG_DIR'] = os.path.join(home, '.jupyter')
        os.environ['JUPYTER_CONFIG_PATH'] = os.path.join(home, '.jupyter')
        yield work
    finally:
        for k, v in old.items():
            if v is None:
                os.environ.pop(k, None)
            else:
                os.environ[k] = v
        shutil.rmtree(root, ignore_errors=True)
