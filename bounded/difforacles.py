"""Run-time contracts of the notebook diff properties (C01, C11, C13, C14) on one notebook pair."""
import copy
import io
import json
import os
import tempfile

from .nbspace import canon, to_plain, validate_strict
from .mergeoracles import diff_validator, exc_summary, exc_site


def diff_case(a, b, props):
    from nbdime.diffing.notebooks import diff_notebooks
    from nbdime.patching import patch_notebook
    from nbdime.diff_utils import to_diffentry_dicts
    from contracts import specs
    out = []
    sa, sb = canon(a), canon(b)
    try:
        d = diff_notebooks(a, b)
    except Exception as exc:
        out.append(('C01', 'crash:' + exc_site(exc), 'diff_notebooks raised ' + exc_summary(exc)))
        return out, None
    if 'C13' in props and (canon(a) != sa or canon(b) != sb):
        out.append(('C13', 'mutated:diff_notebooks', 'diff_notebooks modified its input notebook(s)'))
    pd = to_plain(d)
    if 'C01' in props:
        if (not d) != (sa == sb):
            out.append(('C01', 'empty-iff', 'diff is %sempty but the notebooks are %s' % ('' if not d else 'not ', 'identical' if sa == sb else 'different')))
        sd = canon(d)
        try:
            p = patch_notebook(a, d)
            if canon(p) != sb:
                out.append(('C01', 'roundtrip', 'patch_notebook(A, diff_notebooks(A, B)) differs from B: %s' % first_difference(to_plain(p), to_plain(b))))
        except Exception as exc:
            out.append(('C01', 'patch-crash:' + exc_site(exc), 'patch_notebook raised ' + exc_summary(exc)))
        if 'C13' in props and (canon(a) != sa or canon(d) != sd):
            out.append(('C13', 'mutated:patch_notebook', 'patch_notebook modified the notebook or the diff passed in'))
        # "the diff is empty exactly when A and B are identical", also when the two notebooks SHARE objects: the patched notebook
        # (which re-uses the values carried by the diff, i.e. B's own objects) against B, and a notebook against itself
        for label, x, y in (('patched result vs B', locals().get('p'), b), ('A vs the same object A', a, a)):
            if x is None:
                continue
            try:
                d2 = diff_notebooks(x, y)
                if d2 and canon(x) == canon(y):
                    out.append(('C01', 'empty-iff-shared', 'diff of identical notebooks that share objects (%s) is not empty' % label))
            except Exception as exc:
                out.append(('C01', 'crash-shared:' + exc_site(exc), 'diff_notebooks of identical notebooks that share objects (%s) raised %s' % (label, exc_summary(exc))))
            if canon(b) != sb or canon(a) != sa:
                out.append(('C01', 'shared-mutated', 'diffing notebooks that share objects (%s) changed a notebook' % label))
                break
        try:
            ind = specs.apply(to_plain(a), pd)
            if canon(ind) != sb:
                out.append(('C01', 'roundtrip-oracle', 'the documented-format oracle applied to the diff gives a different notebook: %s' % first_difference(ind, to_plain(b))))
        except Exception as exc:
            out.append(('C01', 'oracle', 'the documented-format oracle cannot apply the diff: %s: %s' % (type(exc).__name__, exc)))
        try:
            revived = to_diffentry_dicts(json.loads(json.dumps(d)))
            p2 = patch_notebook(a, revived)
            if canon(p2) != sb:
                out.append(('C01', 'file-roundtrip', 'diff written as JSON and revived does not patch A into B'))
        except Exception as exc:
            out.append(('C01', 'file-crash:' + exc_site(exc), 'JSON round trip of the diff failed: ' + exc_summary(exc)))
    if 'C11' in props:
        if not specs.wf_deep(to_plain(a), pd):
            out.append(('C11', 'wf', 'notebook diff is not well formed for its base: %s' % first_bad(to_plain(a), pd)))
        errs = list(diff_validator().iter_errors(pd))
        if errs:
            out.append(('C11', 'schema', 'diff violates diff_format.schema.json: %s at %s' % (errs[0].message[:160], list(errs[0].absolute_path))))
        try:
            if canon(json.loads(json.dumps(pd))) != canon(pd):
                out.append(('C11', 'json', 'diff does not survive a JSON round trip'))
        except Exception as exc:
            out.append(('C11', 'json', 'diff is not JSON: %s' % exc))
    return out, d


def first_difference(x, y, path=''):
    if type(x) is not type(y):
        return '%s: %r vs %r' % (path or '/', _short(x), _short(y))
    if isinstance(x, dict):
        for k in sorted(set(x) | set(y)):
            if k not in x or k not in y:
                return '%s/%s: only on one side' % (path, k)
            r = first_difference(x[k], y[k], path + '/' + k)
            if r:
                return r
        return None
    if isinstance(x, list):
        if len(x) != len(y):
            return '%s: lengths %d vs %d' % (path or '/', len(x), len(y))
        for i, (p, q) in enumerate(zip(x, y)):
            r = first_difference(p, q, '%s/%d' % (path, i))
            if r:
                return r
        return None
    return None if x == y and type(x) is type(y) else '%s: %r vs %r' % (path or '/', _short(x), _short(y))


def _short(x, n=80):
    s = repr(x)
    return s if len(s) <= n else s[:n] + '...'


def first_bad(base, d, path=''):
    from contracts import specs
    if isinstance(base, dict):
        if not specs.wf_map(d, base):
            return 'mapping diff at %s: %s' % (path or '/', _short(d, 200))
        for e in d:
            if e['op'] == 'patch':
                r = first_bad(base[e['key']], e['diff'], path + '/' + e['key'])
                if r:
                    return r
    elif isinstance(base, list):
        if not specs.wf_seq(d, len(base)):
            return 'sequence diff at %s (len %d): %s' % (path or '/', len(base), _short(d, 200))
        for e in d:
            if e['op'] == 'patch':
                r = first_bad(base[e['key']], e['diff'], '%s/%d' % (path, e['key']))
                if r:
                    return r
    elif isinstance(base, str):
        if not specs.wf_deep(base, d):
            return 'string diff at %s: %s' % (path or '/', _short(d, 200))
    return None


def cli_roundtrip(a, b):
    """C01 file interface through the real command mains: nbdiff --out d.json A B ; nbpatch -o P A d.json"""
    import nbformat
    from nbdime import nbdiffapp, nbpatchapp
    td = tempfile.mkdtemp(prefix='nbdime-verif-cli-')
    try:
        fa, fb, fd, fp = (os.path.join(td, n) for n in ('a.ipynb', 'b.ipynb', 'd.json', 'p.ipynb'))
        nbformat.write(a, fa)
        nbformat.write(b, fb)
        rc = nbdiffapp.main([fa, fb, '--out', fd])
        if rc != 0:
            return 'nbdiff exited with %r' % rc
        rc = nbpatchapp.main([fa, fd, '-o', fp])
        if rc not in (0, None):
            return 'nbpatch exited with %r' % rc
        p = nbformat.read(fp, as_version=4)
        b2 = nbformat.read(fb, as_version=4)
        if canon(p) != canon(b2):
            return 'nbdiff --out | nbpatch does not rebuild B: %s' % first_difference(to_plain(p), to_plain(b2))
        return None
    except SystemExit as exc:
        return 'command exited: %r' % (exc.code,)
    except Exception as exc:
        return 'command raised ' + exc_summary(exc)
    finally:
        import shutil
        shutil.rmtree(td, ignore_errors=True)
