"""Small-scope grammar of valid v4 notebooks and of edit scripts (used by the bounded stand-ins).

Every generated notebook is the in-memory form that nbformat.read(..., as_version=4) produces
(NotebookNode tree, strings joined) and validates against the nbformat schema of its declared minor
(checked by `validate_strict`, i.e. jsonschema against nbformat's own schema file, never
nbformat.validate which silently repairs ids).
"""
import copy
import itertools
import json
import os
import random

import nbformat
from nbformat import NotebookNode

B64 = 'iVBORw0KGgoAAAANSUhEUgAAAAEAAAABCAYAAAAfFcSJAAAADUlEQVR42mNkYPhfDwAChwGA60e6kgAAAABJRU5ErkJggg=='
B64_2 = 'R0lGODlhAQABAIAAAAAAAP///yH5BAEAAAAALAAAAAABAAEAAAIBRAA7R0lGODlhAQABAIAAAAAAAP///yH5BAEAAAAALAAAAAAB'
B64_3 = 'iVBORw0KGgoAAAANSUhEUgAAAAEAAAABCAIAAACQd1PeAAAADElEQVR4nGPgOiEHAAHQAPEkXJH0AAAAAElFTkSuQmCC'      # a third 1x1 image


def other_image(cur, rnd):
    "an image payload different from `cur` (two sides replacing the same image usually pick different ones)"
    flat = (cur or '').replace('\n', '')
    return rnd.choice([v for v in (B64, B64_2, B64_3) if v != flat])

SOURCES = [
    '', 'x = 1\n', 'x = 1\ny = 2\n', 'import os\nimport sys\n\nprint(os.getcwd())\n',
    'def f(a):\n    return a + 1\n\nf(2)', '# Title\n\nSome *markdown* text.\n', 'a\rb\nc\x0cd\n', 'print("héllo")\n',
    'for i in range(3):\n    print(i)\n', 'plt.show()\n',
]

LONG_SOURCE = ''.join('line%02d = %d\n' % (i, i) for i in range(16))

_schema_cache = {}


def schema_for(minor):
    minor = 5 if minor >= 5 else minor
    fn = {0: 'nbformat.v4.0.schema.json', 1: 'nbformat.v4.1.schema.json', 2: 'nbformat.v4.2.schema.json',
          3: 'nbformat.v4.3.schema.json', 4: 'nbformat.v4.4.schema.json', 5: 'nbformat.v4.5.schema.json'}[minor]
    if fn not in _schema_cache:
        path = os.path.join(os.path.dirname(nbformat.__file__), 'v4', fn)
        with open(path) as fh:
            _schema_cache[fn] = json.load(fh)
    return _schema_cache[fn]


_validators = {}


def validate_strict(nb):
    """jsonschema validation against the schema of the declared minor. Returns None or an error string
    (for a cell/output failing a oneOf, the message of the alternative selected by its declared type)."""
    import jsonschema
    minor = nb.get('nbformat_minor', 0)
    if nb.get('nbformat') != 4:
        return 'nbformat is %r' % (nb.get('nbformat'),)
    if not isinstance(minor, int) or isinstance(minor, bool) or minor < 0:
        return 'nbformat_minor is %r' % (minor,)
    key = 5 if minor >= 5 else minor
    if key not in _validators:
        sch = schema_for(minor)
        cls = jsonschema.validators.validator_for(sch)
        _validators[key] = cls(sch)
    doc = to_plain(nb)
    errs = sorted(_validators[key].iter_errors(doc), key=lambda e: list(e.absolute_path))
    if not errs:
        return None
    e = errs[0]
    return _describe(e, doc)


def _describe(e, doc):
    # descend into oneOf alternatives: pick the alternative whose type discriminator is satisfied
    while e.context:
        groups = {}
        for sub in e.context:
            groups.setdefault(sub.schema_path[0], []).append(sub)
        chosen = None
        for idx, subs in sorted(groups.items()):
            if not any(list(s.absolute_path)[-1:] in (['cell_type'], ['output_type']) and s.validator == 'enum' for s in subs):
                chosen = sorted(subs, key=lambda s: list(s.absolute_path))[0]
                break
        if chosen is None:
            chosen = max(e.context, key=lambda s: len(list(s.absolute_path)))
        e = chosen
    return '%s at /%s' % (e.message[:200], '/'.join(str(p) for p in e.absolute_path))


def to_plain(x):
    if isinstance(x, dict):
        return {k: to_plain(v) for k, v in x.items()}
    if isinstance(x, (list, tuple)):
        return [to_plain(v) for v in x]
    return x


def canon(x):
    return json.dumps(to_plain(x), sort_keys=True, ensure_ascii=False)


# ------------------------------------------------------------------------------------------
# building blocks

def out_stream(text='hi\n', name='stdout'):
    return {'output_type': 'stream', 'name': name, 'text': text}


def out_error():
    return {'output_type': 'error', 'ename': 'ValueError', 'evalue': 'bad', 'traceback': ['Traceback (most recent call last)', 'ValueError: bad']}


def out_display(kind=0):
    data = [{'text/plain': '<Figure>', 'image/png': B64},
            {'text/plain': '<Figure 2>', 'image/png': B64_2},
            {'application/json': {'a': [1, {'b': 2}], 'id': 7}, 'text/plain': '{...}', 'text/LaTeX': '$a_1$\n'},   # media type with capitals
            {'text/html': '<b>x</b>\n<i>y</i>\n', 'text/plain': 'x y',
             # non-text payloads that are plain strings: a short (under 64 characters) base64 image and a vendor JSON string
             'image/gif': GIF56, 'application/vnd.loader.v0+json': 'require(["lib@1.14.6"], function(lib) { lib.embed("el-1"); })'}][kind % 4]
    return {'output_type': 'display_data', 'data': copy.deepcopy(data), 'metadata': {} if kind % 2 == 0 else {'image/png': {'width': 10}}}


def out_result(n=1, text='2'):
    return {'output_type': 'execute_result', 'data': {'text/plain': text}, 'metadata': {}, 'execution_count': n}


GIF56 = 'R0lGODlhAQABAIAAAAAAAP///yH5BAEAAAAALAAAAAABAAEAAAIBRAA7'      # 56 characters: a 1x1 gif


OUTPUTS = [lambda: out_display(3), lambda: out_stream('epoch 1: 10%\repoch 1: 50%\repoch 1: 100%'),   # \r progress bar WITHOUT any newline
           lambda: out_stream(), lambda: out_stream('warn\nmore\n', 'stderr'), out_error,
           lambda: out_display(0), lambda: out_display(2), lambda: out_result(1, '2'), lambda: out_result(3, '<obj at 0x7f3a2c1b9d30>'),
           lambda: {'output_type': 'display_data', 'metadata': {}, 'data': {}}]


def rewrapped(v, rnd):
    "the same base64 payload written differently (always a different string): with / without a trailing newline, wrapped into 40-column lines"
    flat = v.replace('\n', '')
    forms = [flat, flat + '\n', '\n'.join(flat[i:i + 40] for i in range(0, len(flat), 40)) + '\n']
    return rnd.choice([f for f in forms if f != v])


def code_cell(source='x = 1\n', outputs=(), ec=None, metadata=None):
    return {'cell_type': 'code', 'source': source, 'outputs': [copy.deepcopy(o) for o in outputs],
            'execution_count': ec, 'metadata': copy.deepcopy(metadata) if metadata else {}}


def md_cell(source='# Title\n', attachments=None, metadata=None):
    c = {'cell_type': 'markdown', 'source': source, 'metadata': copy.deepcopy(metadata) if metadata else {}}
    if attachments is not None:
        c['attachments'] = copy.deepcopy(attachments)
    return c


def raw_cell(source='raw text\n'):
    return {'cell_type': 'raw', 'source': source, 'metadata': {}}


NB_METADATA = [
    {}, {'kernelspec': {'display_name': 'Python 3', 'language': 'python', 'name': 'python3'},
         'language_info': {'name': 'python', 'version': '3.11'}},
    {'foo': [[1], {'a': 1}, 3], 'tags': ['x', 'y']},
]


def notebook(cells, minor=5, metadata=None, ids=None):
    cells = [copy.deepcopy(c) for c in cells]
    if minor >= 5:
        for i, c in enumerate(cells):
            c.setdefault('id', (ids[i] if ids else 'cell-%d' % i))
    else:
        for c in cells:
            c.pop('id', None)
    nb = {'nbformat': 4, 'nbformat_minor': minor, 'metadata': copy.deepcopy(metadata) if metadata else {}, 'cells': cells}
    return nbformat.from_dict(nb)


def cell_pool():
    return [
        code_cell('x = 1\n'),
        code_cell('x = 1\ny = 2\n', [out_stream()], 1),
        code_cell('def f(a):\n    return a + 1\n\nf(2)', [out_result(2, '3')], 2, {'collapsed': False}),
        code_cell('plt.show()\n', [out_display(0)], 3),
        code_cell('import os\nimport sys\n\nprint(os.getcwd())\n', [out_stream('/home\n'), out_error()], 4, {'tags': ['a']}),
        code_cell('d\n', [out_display(2), out_result(5, '<obj at 0x7f3a2c1b9d30>')], 5),
        md_cell('# Title\n\nSome *markdown* text.\n'),
        md_cell('![img](attachment:f.png)\n', {'f.png': {'image/png': B64}}),
        raw_cell(),
        code_cell('plt.show()\n', [out_display(0)], 6),
        md_cell(''),
        code_cell(LONG_SOURCE, [out_stream('done\n')], 7),
        code_cell('a = 0\rb = 1\nc = 2\x0cd = 3\ne = 5\nf = 6\n', [out_stream(' 10%\r 50%\r100%\nloss: 0.5\nelapsed: 1.51 s\n', 'stderr')], 8,
                  {'f': None, 'g': 0}),
        md_cell('first\u2028second\nthird\x85fourth\nfifth\n', None, {'f': '', 'g': [], 'notes': {'\u00b2': {'v': 0}, '7': {'v': 0}, '\u2460': 's0'}}),
        # line breaks but not a single newline character: a \r progress bar as stream text, form feeds in the source
        code_cell('page_one = 1\x0cpage_two = 2\x0cpage_three = 3', [out_stream('epoch 1: 10%\repoch 1: 50%\repoch 1: 100%')], 9),
        # text that git regards as binary (a NUL character), still a valid JSON string in a valid notebook
        code_cell('key = b"a\x00b"\nvalue = 1\nprint(key, value)\n', [out_stream('a\x00b 1\n')], 11),
        # short string payloads that are not text: a 56-character base64 image, a vendor JSON string
        code_cell('viz()\n', [out_display(3)], 10),
        # JSON payloads that are not containers: a number, null and a boolean are valid values of a +json media type
        code_cell('len(rows)\n', [{'output_type': 'display_data', 'metadata': {},
                                   'data': {'application/json': 42, 'application/vnd.flags.v1+json': None, 'application/vnd.done.v1+json': True,
                                            'text/plain': '42 rows in the result set\nof the last query\n'}}], 12),
        # a display with an EMPTY mime bundle (display({}, raw=True)): valid, and the boundary case of every per-bundle loop
        code_cell('display({}, raw=True)\nprint("shown")\n', [{'output_type': 'display_data', 'metadata': {}, 'data': {}}, out_stream('shown\n')], 13),
    ]


def base_notebooks(maxcells=3, minors=(5, 4, 2)):
    pool = cell_pool()
    out = []
    combos = [(), (0,), (1,), (6,), (11,), (1, 6), (2, 3), (7, 4), (11, 6), (1, 2, 6), (3, 9, 8), (4, 7, 5), (0, 1, 2, 3), (6, 2, 5, 7), (12,), (13, 12), (1, 12, 13), (17,), (1, 17), (18,), (2, 18)]
    for ci, combo in enumerate(combos):
        if len(combo) > maxcells:
            continue
        for mi, minor in enumerate(minors):
            md = NB_METADATA[(ci + mi) % len(NB_METADATA)]
            out.append(notebook([pool[i] for i in combo], minor, md))
    return out


# ------------------------------------------------------------------------------------------
# edits

def _newid(nb, rnd):
    return 'new-%04x' % rnd.randrange(16 ** 4)


def edit_ops():
    return ['insert', 'delete', 'source_line_add', 'source_line_change', 'source_line_del', 'outputs_clear',
            'outputs_append', 'outputs_change', 'metadata_flag', 'metadata_tags', 'execution_count', 'attachments',
            'move', 'duplicate', 'nb_metadata', 'retype', 'output_metadata', 'insert_run', 'source_multi_change', 'minor_upgrade', 'falsy_swap', 'source_last_lines', 'nested_named_keys']


def apply_edit(nb, op, rnd, where=None):
    """Apply one edit in place to a deep copy; returns the edited notebook (still schema valid)."""
    nb = copy.deepcopy(nb)
    cells = nb['cells']
    minor = nb['nbformat_minor']
    pool = cell_pool()

    def pick():
        if not cells:
            return None
        return where if where is not None and where < len(cells) else rnd.randrange(len(cells))

    def fresh(c):
        c = nbformat.from_dict(copy.deepcopy(c))
        if minor >= 5:
            c['id'] = _newid(nb, rnd)
        else:
            c.pop('id', None)
        return c
    i = pick()
    if op == 'insert':
        pos = (where if where is not None else rnd.randint(0, len(cells)))
        cells.insert(min(pos, len(cells)), fresh(rnd.choice(pool)))
    elif op == 'insert_run':
        pos = rnd.choice([0, len(cells), min(1, len(cells))])
        for k in range(rnd.randint(1, 3)):
            cells.insert(pos + k, fresh(rnd.choice(pool)))
    elif op == 'minor_upgrade':
        higher = [m for m in (3, 4, 5) if m > minor]
        if higher:
            new = rnd.choice(higher)
            nb['nbformat_minor'] = new
            if new >= 5:
                for k, c in enumerate(cells):
                    c.setdefault('id', 'up%02d-%04x' % (k, rnd.randrange(16 ** 4)) if rnd.random() < 0.5 else 'up-cell-%d' % k)
    elif op == 'nb_metadata':
        nb['metadata'] = nbformat.from_dict(copy.deepcopy(rnd.choice(NB_METADATA + [{'foo': [[1], {'a': 2}, 4]}, {'tags': ['z']}])))
    elif i is None:
        cells.append(fresh(rnd.choice(pool)))
    elif op == 'delete':
        del cells[i]
    elif op == 'source_line_add':
        lines = cells[i]['source'].splitlines(True)
        if lines and not lines[-1].endswith('\n'):
            lines[-1] += '\n'
        lines.insert(rnd.randint(0, len(lines)), rnd.choice(['z = x + y\n', '# note\n', '\n', 'import re\n']))
        cells[i]['source'] = ''.join(lines)
    elif op == 'source_line_change':
        lines = cells[i]['source'].splitlines(True)
        if lines:
            k = rnd.randrange(len(lines))
            nl = '\n' if lines[k].endswith('\n') else ''
            lines[k] = lines[k].rstrip('\n') + rnd.choice(['  # changed', ' + 1', 'Q']) + nl
            cells[i]['source'] = ''.join(lines)
        else:
            cells[i]['source'] = 'new = 0\n'
    elif op == 'source_multi_change':
        lines = cells[i]['source'].splitlines(True)
        if len(lines) >= 8:
            for k in rnd.sample([0, 5, 10, len(lines) - 1], rnd.randint(2, 3)):
                nl = '\n' if lines[k].endswith('\n') else ''
                lines[k] = lines[k].rstrip('\n') + rnd.choice([' # L', ' # R', ' + 0']) + nl
            cells[i]['source'] = ''.join(lines)
        elif lines:
            lines[0] = 'changed ' + lines[0]
            cells[i]['source'] = ''.join(lines)
        else:
            cells[i]['source'] = 'first = 1\n'
    elif op == 'falsy_swap':
        falsy = [None, 0, '', [], {}]      # pairwise python-unequal (True/1 conflation is finding C02-pyeq)
        c = cells[i]
        key = rnd.choice(['f', 'g'])
        cur = c['metadata'].get(key, 'absent')
        choices = [v for v in falsy if not (type(v) is type(cur) and v == cur)]
        c['metadata'][key] = nbformat.from_dict(rnd.choice(choices)) if True else None
        if c['cell_type'] == 'code' and rnd.random() < 0.5:
            c['execution_count'] = 0 if c['execution_count'] is None else None
    elif op == 'nested_named_keys':
        # keys that merely share the name of an ignorable key, deeper in the cell (Colab-style metadata.id, JSON payloads)
        c = cells[i]
        tgt = [o for o in c.get('outputs', []) if o['output_type'] in ('display_data', 'execute_result') and isinstance(o['data'].get('application/json'), dict)]
        if tgt and rnd.random() < 0.5:
            js = tgt[0]['data']['application/json']
            js['id'] = js.get('id', 0) + 1
        elif rnd.random() < 0.5:
            k = rnd.choice(['id', 'execution_count', 'attachments'])
            c['metadata'][k] = 'm%d' % rnd.randrange(1000)
        else:
            # keys that look like numbers (or almost): digits, signed, superscript / circled / other-script digits, padded
            note = c['metadata'].setdefault('notes', nbformat.from_dict({}))
            k = rnd.choice(['7', '-5', '+3', '007', '\u00b2', '\u2460', '\u0663', ' 1', '1.0'])
            if len(note) and rnd.random() < 0.6:
                k = rnd.choice(sorted(note))          # change the value under a key the base already has
            cur = note.get(k)
            note[k] = nbformat.from_dict({'v': (cur or {}).get('v', 0) + 1}) if not isinstance(cur, str) and rnd.random() < 0.7 else 's%d' % rnd.randrange(100)
    elif op == 'source_last_lines':
        # edit the last line(s) of a multi-line string (source or stream text) without touching earlier ones
        c = cells[i]
        targets = [('source', c)]
        for o in c.get('outputs', []):
            if o['output_type'] == 'stream':
                targets.append(('text', o))
        fld, holder = rnd.choice(targets)
        lines = holder[fld].splitlines(True)
        if lines:
            k = len(lines) - 1 - (rnd.randrange(2) if len(lines) > 1 else 0)
            nl = '\n' if lines[k].endswith('\n') else ''
            body = lines[k].rstrip('\n')
            lines[k] = (body[:-1] + '9' if body else 'z') + nl
            holder[fld] = ''.join(lines)
        else:
            holder[fld] = 'only\n'
    elif op == 'source_line_del':
        lines = cells[i]['source'].splitlines(True)
        if lines:
            del lines[rnd.randrange(len(lines))]
        cells[i]['source'] = ''.join(lines)
    elif op in ('outputs_clear', 'outputs_append', 'outputs_change', 'execution_count', 'output_metadata'):
        c = cells[i]
        if c['cell_type'] != 'code':
            c['metadata'] = nbformat.from_dict({'edited': True})
        elif op == 'outputs_clear':
            c['outputs'] = []
            c['execution_count'] = None
        elif op == 'outputs_append':
            c['outputs'].append(nbformat.from_dict(rnd.choice(OUTPUTS)()))
        elif op == 'execution_count':
            c['execution_count'] = (c['execution_count'] or 0) + rnd.randint(1, 5)
            for o in c['outputs']:
                if o['output_type'] == 'execute_result':
                    o['execution_count'] = c['execution_count']
        elif op == 'output_metadata':
            tgt = [o for o in c['outputs'] if o['output_type'] in ('display_data', 'execute_result')]
            if tgt:
                rnd.choice(tgt)['metadata'] = nbformat.from_dict({'isolated': True, 'n': rnd.randint(0, 3)})
            else:
                c['outputs'].append(nbformat.from_dict(out_display(1)))
        else:
            if c['outputs']:
                k = rnd.randrange(len(c['outputs']))
                # outputs whose bundle has a media type spelled with capitals are edited half of the time when there is one
                special = [j for j, x in enumerate(c['outputs']) if any(m != m.lower() for m in x.get('data', {}))]
                if special and rnd.random() < 0.5:
                    k = rnd.choice(special)
                o = c['outputs'][k]
                if o['output_type'] == 'stream':
                    o['text'] = o['text'] + rnd.choice(['extra\n', 'more output\n'])
                elif o['output_type'] == 'error':
                    o['evalue'] = 'worse'
                    o['traceback'] = list(o['traceback']) + ['  File "x.py", line %d' % rnd.randint(1, 9)]
                else:
                    o['data']['text/plain'] = o['data'].get('text/plain', '') + rnd.choice(['!', ' (new)'])
                    # short non-text string payloads: change one or two characters (a different image / library version)
                    if 'image/gif' in o['data'] and rnd.random() < 0.6:
                        g = o['data']['image/gif']
                        o['data']['image/gif'] = g[:30] + ('B' if g[30] != 'B' else 'C') + g[31:]
                    if 'application/vnd.loader.v0+json' in o['data'] and rnd.random() < 0.6:
                        o['data']['application/vnd.loader.v0+json'] = o['data']['application/vnd.loader.v0+json'].replace('1.14.6', '1.14.7') \
                            if '1.14.6' in o['data']['application/vnd.loader.v0+json'] else o['data']['application/vnd.loader.v0+json'].replace('1.14.7', '1.14.6')
                    for mk in [m for m in o['data'] if m != m.lower() and isinstance(o['data'][m], str)]:
                        if rnd.random() < 0.9:
                            o['data'][mk] = o['data'][mk] + rnd.choice(['$b$\n', '%'])
                    if isinstance(o['data'].get('application/json'), int) and rnd.random() < 0.4:
                        o['data']['application/json'] += 1          # a different number (never a Python-equal one: finding C02-pyeq)
                    u = rnd.random()
                    if 'image/png' in o['data'] and u < 0.4:
                        o['data']['image/png'] = other_image(o['data']['image/png'], rnd)
                    elif 'image/png' in o['data'] and u < 0.8:
                        # the same payload written differently: a trailing newline, or wrapped into lines (another front end saved it)
                        o['data']['image/png'] = rewrapped(o['data']['image/png'], rnd)
            else:
                c['outputs'].append(nbformat.from_dict(out_stream('fresh\n')))
    elif op == 'metadata_flag':
        md = cells[i]['metadata']
        if 'collapsed' in md and rnd.random() < 0.3:
            del md['collapsed']                  # a newer front end drops the legacy view-state key altogether
        elif rnd.random() < 0.25:
            md['scrolled'] = rnd.choice([v for v in (True, False, 'auto') if not (type(v) is type(md.get('scrolled')) and v == md.get('scrolled'))])
        else:
            md['collapsed'] = not md.get('collapsed', False)
    elif op == 'metadata_tags':
        tags = list(cells[i]['metadata'].get('tags', []))
        new = [t for t in ['t1', 't2', 'hide', 'a', 'b'] if t not in tags]
        if new:
            tags.append(rnd.choice(new))
        cells[i]['metadata']['tags'] = tags
    elif op == 'attachments':
        c = cells[i]
        if c['cell_type'] != 'markdown':
            c['metadata']['note'] = 'n%d' % rnd.randint(0, 9)
        else:
            att = c.get('attachments')
            if att is None:
                c['attachments'] = nbformat.from_dict({'g.png': {'image/png': B64_2}})
            else:
                r = rnd.random()
                if r < 0.2 and att:
                    k = sorted(att)[0]
                    cur = att[k].get('image/gif', GIF56)
                    att[k] = nbformat.from_dict({'image/gif': cur[:30] + ('B' if cur[30] != 'B' else 'C') + cur[31:]})
                elif r < 0.3 and att:
                    k = sorted(att)[0]
                    att[k] = nbformat.from_dict({'image/png': other_image(att[k].get('image/png'), rnd)})
                elif r < 0.45 and att and 'image/png' in att[sorted(att)[0]]:
                    k = sorted(att)[0]
                    att[k] = nbformat.from_dict({'image/png': rewrapped(att[k]['image/png'], rnd)})
                elif r < 0.7:
                    att['h%d.png' % rnd.randint(0, 3)] = nbformat.from_dict({'image/png': B64})
                elif att:
                    del att[sorted(att)[0]]
    elif op == 'move':
        c = cells.pop(i)
        cells.insert(rnd.randint(0, len(cells)), c)
    elif op == 'duplicate':
        c = fresh(cells[i])
        cells.insert(i + 1, c)
    elif op == 'retype':
        c = cells[i]
        if c['cell_type'] == 'raw':
            new = md_cell(c['source'])
        else:
            new = raw_cell(c['source'])
        if minor >= 5:
            new['id'] = c.get('id', _newid(nb, rnd))
        cells[i] = nbformat.from_dict(new)
    return nb


def random_edits(nb, rnd, n, ops=None):
    ops = ops or edit_ops()
    for _ in range(n):
        nb = apply_edit(nb, rnd.choice(ops), rnd)
    return nb


def triples(seed, count, maxcells=3, minors=(5, 4, 2), max_edits=2, ops=None, tail=False):
    """(base, local, remote) with local/remote derived from base by random edit scripts."""
    rnd = random.Random(seed)
    bases = base_notebooks(maxcells, minors)
    rnd2 = random.Random(seed * 31 + 7)
    # (copied before the first triple is handed out: code under check that modifies its inputs must not reach the later cases through
    # objects the cases share)
    tail_bases = copy.deepcopy(rnd2.sample(bases, min(len(bases), 12))) if ops is None and tail and count >= 20 else []
    for k in range(count):
        b = bases[k % len(bases)] if k < 2 * len(bases) else rnd.choice(bases)
        u = rnd.random()
        if ops is None and u < 0.12:
            yield concurrent_insert_triple(b, rnd)
            continue
        if ops is None and u < 0.18:
            t = concurrent_line_triple(b, rnd)
            if t is not None:
                yield t
                continue
        if ops is None and u < 0.40:
            t = focused_triple(b, rnd)
            if t is not None:
                yield t
                continue
        if ops is None and u < 0.47:
            t = transient_vs_delete_triple(b, rnd)
            if t is not None:
                yield t
                continue
        if ops is None and u < 0.55:
            t = separate_edits_triple(b, rnd)
            if t is not None:
                yield t
                continue
        if ops is None and u < 0.60:
            t = mixed_outputs_triple(b, rnd)
            if t is not None:
                yield t
                continue
        if ops is None and u < 0.64:
            t = double_append_outputs_triple(b, rnd)
            if t is not None:
                yield t
                continue
        if ops is None and u < 0.68:
            t = minor_mix_triple(b, rnd)
            if t is not None:
                yield t
                continue
        if ops is None and u < 0.71:
            t = nonascii_conflict_triple(b, rnd)
            if t is not None:
                yield t
                continue
        if ops is None and u < 0.74:
            yield same_section_reordered_triple(b, rnd)
            continue
        if ops is None and u < 0.78:
            t = concurrent_tags_triple(b, rnd)
            if t is not None:
                yield t
                continue
        if ops is None and u < 0.81:
            t = attachment_conflict_triple(b, rnd)
            if t is not None:
                yield t
                continue
        if ops is None and u < 0.84:
            t = transient_key_triple(b, rnd)
            if t is not None:
                yield t
                continue
        if ops is None and u < 0.87:
            t = numeric_key_triple(b, rnd)
            if t is not None:
                yield t
                continue
        common = b
        if rnd.random() < 0.3:
            # changes made identically on both sides (agreement), e.g. the same cell inserted by both
            common = random_edits(b, rnd, rnd.randint(1, 2), ops)
        l = random_edits(common, rnd, rnd.randint(0, max_edits), ops)
        r = random_edits(common, rnd, rnd.randint(0, max_edits), ops)
        yield copy.deepcopy(b), l, r
    if ops is None and tail and count >= 20:
        # after the drawn sample (indices count, count+1, ...; the draws above are left as they are): one side converts a code cell to
        # markdown/raw keeping its id, as the Jupyter UI does, while the other side only re-runs it
        for b in tail_bases:
            t = retype_vs_rerun_triple(b, rnd2)
            if t is not None:
                yield t


def retype_vs_rerun_triple(b, rnd):
    cand = [i for i, c in enumerate(b['cells']) if c['cell_type'] == 'code']
    if not cand:
        return None
    i = rnd.choice(cand)
    t = copy.deepcopy(b)
    c = t['cells'][i]
    c['execution_count'] = (c['execution_count'] or 0) + rnd.randint(1, 5)
    for o in c['outputs']:
        if o['output_type'] == 'execute_result':
            o['execution_count'] = c['execution_count']
    d = copy.deepcopy(b)
    old = d['cells'][i]
    new = (md_cell if rnd.random() < 0.5 else raw_cell)(old['source'])
    if 'id' in old:
        new['id'] = old['id']
    d['cells'][i] = nbformat.from_dict(new)
    l, r = (t, d) if rnd.random() < 0.5 else (d, t)
    return copy.deepcopy(b), l, r


def concurrent_insert_triple(b, rnd):
    """Both sides insert at the same position: blocks of unrelated cells of different lengths, then a cell
    that is identical or similar on both sides; optionally identical filler cells around a shared cell."""
    pool = cell_pool()
    minor = b['nbformat_minor']
    counter = [0]

    def fresh(c, tag):
        c = nbformat.from_dict(copy.deepcopy(c))
        counter[0] += 1
        if minor >= 5:
            c['id'] = '%s-%d-%04x' % (tag, counter[0], rnd.randrange(16 ** 4))
        else:
            c.pop('id', None)
        return c
    pos = rnd.choice([0, len(b['cells'])])
    shape = rnd.random()
    x = rnd.choice(pool)
    if shape < 0.5:
        lblock = [fresh(rnd.choice(pool), 'L') for _ in range(rnd.randint(0, 3))]
        rblock = [fresh(rnd.choice(pool), 'R') for _ in range(rnd.randint(0, 3))]
        lx, rx = fresh(x, 'L'), fresh(x, 'R')
        if rnd.random() < 0.7:
            rx['source'] = rx['source'] + '# remote tweak\n' if rx['source'].endswith('\n') or not rx['source'] else rx['source'] + '\n# remote tweak\n'
        if rnd.random() < 0.3:
            lx['metadata'] = nbformat.from_dict({'tags': ['l']})
        if lx.get('attachments') and rnd.random() < 0.6:
            # the two versions of the shared cell differ in their attachments: one more file on one side, or another image under the same name
            if rnd.random() < 0.6:
                rx['attachments']['g.png'] = nbformat.from_dict({'image/png': B64_2})
            else:
                name = sorted(rx['attachments'])[0]
                rx['attachments'][name] = nbformat.from_dict({'image/png': B64_2})
        tail = [fresh(rnd.choice(pool), 'T')] if rnd.random() < 0.3 else []
        lcells, rcells = lblock + [lx] + tail, rblock + [rx] + [copy.deepcopy(t) for t in tail]
        if rnd.random() < 0.3:
            # ... and one side goes on with a cell of its own after the shared part
            (rcells if rnd.random() < 0.5 else lcells).append(fresh(rnd.choice(pool), 'E'))
    else:
        filler = rnd.choice([md_cell(''), code_cell(''), raw_cell('')])
        lcells = [fresh(filler, 'L'), fresh(x, 'L'), fresh(filler, 'L')]
        rcells = [fresh(x, 'R')]
        if rnd.random() < 0.5:
            lcells, rcells = rcells, lcells
    l, r = copy.deepcopy(b), copy.deepcopy(b)
    l['cells'][pos:pos] = lcells
    r['cells'][pos:pos] = rcells
    return copy.deepcopy(b), l, r


def concurrent_tags_triple(b, rnd):
    """Both sides add tags to the same cell (tags must stay unique). Shapes: (0) both insert at the same place -- one side a run of
    its own tags followed by a tag both add, the other side that shared tag followed by one of its own; (1) both add the same new
    tag, one before and one after the existing tags; (2) both append different tags."""
    if not b['cells']:
        return None
    i = rnd.randrange(len(b['cells']))
    base = copy.deepcopy(b)
    base['cells'][i]['metadata']['tags'] = ['setup']
    l, r = copy.deepcopy(base), copy.deepcopy(base)
    shape = rnd.randrange(3)
    if shape == 0:
        own = rnd.sample(['hide-input', 'slow', 'draft', 'gpu'], rnd.randint(2, 3))
        lt, rt = ['setup'] + own + ['parameters'], ['setup', 'parameters', 'injected']
    elif shape == 1:
        lt, rt = ['reviewed', 'setup'], ['setup', 'reviewed']
    else:
        lt, rt = ['setup', 'slow'], ['setup', 'gpu']
    if rnd.random() < 0.5:
        lt, rt = rt, lt
    l['cells'][i]['metadata']['tags'] = lt
    r['cells'][i]['metadata']['tags'] = rt
    return base, l, r


def numeric_key_triple(b, rnd):
    "a metadata table keyed by numbers (\"1\", \"2\", \"10\"): the two sides change entries nested below different keys"
    if not b['cells']:
        return None
    i = rnd.randrange(len(b['cells']))
    base = copy.deepcopy(b)
    base['cells'][i]['metadata']['rubric'] = nbformat.from_dict({k: {'title': 'question ' + k, 'points': 1} for k in ('1', '2', '10')})
    l, r = copy.deepcopy(base), copy.deepcopy(base)
    l['cells'][i]['metadata']['rubric']['1']['points'] = 3
    l['cells'][i]['metadata']['rubric']['1']['comment'] = 'harder than it looks'
    r['cells'][i]['metadata']['rubric'][rnd.choice(['2', '10'])]['title'] = 'reworded'
    if rnd.random() < 0.5:
        l, r = r, l
    return base, l, r


def transient_key_triple(b, rnd):
    "one side changes a view-state key of a cell's metadata (collapsed / scrolled), the other side removes the key"
    if not b['cells']:
        return None
    i = rnd.randrange(len(b['cells']))
    key = rnd.choice(['collapsed', 'scrolled'])
    base = copy.deepcopy(b)
    base['cells'][i]['metadata'][key] = True
    l, r = copy.deepcopy(base), copy.deepcopy(base)
    l['cells'][i]['metadata'][key] = False if key == 'collapsed' else 'auto'
    del r['cells'][i]['metadata'][key]
    if rnd.random() < 0.5:
        l, r = r, l
    return base, l, r


def attachment_conflict_triple(b, rnd):
    "both sides replace the same attached image of a markdown cell by different images (or one replaces it, the other removes it)"
    cand = [i for i, c in enumerate(b['cells']) if c['cell_type'] == 'markdown' and c.get('attachments')]
    base = copy.deepcopy(b)
    if not cand:
        if not base['cells']:
            return None
        i = rnd.randrange(len(base['cells']))
        base['cells'][i] = nbformat.from_dict(dict(md_cell('![plot](attachment:plot.png)\n\ncaption\n', {'plot.png': {'image/png': B64}}), **({'id': base['cells'][i]['id']} if 'id' in base['cells'][i] else {})))
    else:
        i = rnd.choice(cand)
    l, r = copy.deepcopy(base), copy.deepcopy(base)
    name = sorted(base['cells'][i]['attachments'])[0]
    cur = base['cells'][i]['attachments'][name].get('image/png')
    imgs = [v for v in (B64, B64_2, B64_3) if v != cur]
    l['cells'][i]['attachments'][name] = nbformat.from_dict({'image/png': imgs[0]})
    if rnd.random() < 0.75:
        r['cells'][i]['attachments'][name] = nbformat.from_dict({'image/png': imgs[1]})
    else:
        del r['cells'][i]['attachments'][name]
    if rnd.random() < 0.5:
        l, r = r, l
    return base, l, r


def same_section_reordered_triple(b, rnd):
    """Both sides add the SAME cells at the same place (a section committed on two branches; with ids the ids are shared), then one
    side moves one of them to the other end of the section and the other side adds a line to that cell."""
    minor = b['nbformat_minor']
    srcs = ['import numpy as np\nimport pandas as pd\n', 'df = pd.read_csv("data.csv")\ndf = df.dropna()\n', 'df.describe()\nprint(df.shape)\n']
    tag = '%04x' % rnd.randrange(16 ** 4)
    section = []
    for k, src in enumerate(srcs):
        c = nbformat.from_dict(code_cell(src))
        if minor >= 5:
            c['id'] = 'sec-%s-%d' % (tag, k)
        else:
            c.pop('id', None)
        section.append(c)
    pos = rnd.choice([0, len(b['cells'])])
    which = rnd.choice([0, 2])                      # the cell that is moved: first to the end, or last to the front
    moved = copy.deepcopy(section)
    c = moved.pop(which)
    moved.insert(0 if which == 2 else len(moved), c)
    edited = copy.deepcopy(section)
    edited[which]['source'] = edited[which]['source'] + rnd.choice(['import scipy.stats as st\n', '# checked by remote\n'])
    l, r = copy.deepcopy(b), copy.deepcopy(b)
    l['cells'][pos:pos] = moved
    r['cells'][pos:pos] = edited
    if rnd.random() < 0.5:
        l, r = r, l
    return copy.deepcopy(b), l, r


FAMILIES = {
    'source': ['source_line_add', 'source_line_change', 'source_line_del', 'source_multi_change', 'source_last_lines'],
    'outputs': ['outputs_clear', 'outputs_append', 'outputs_change', 'execution_count', 'output_metadata'],
    'metadata': ['metadata_flag', 'metadata_tags', 'falsy_swap', 'nested_named_keys'],
    'attachments': ['attachments'],
    'cell': ['delete', 'retype', 'duplicate', 'source_line_change', 'outputs_change', 'metadata_flag'],
}


def focused_triple(b, rnd):
    "both sides edit the same cell with operations of one family (so that real conflicts are frequent)"
    if not b['cells']:
        return None
    fam = rnd.choice(sorted(FAMILIES))
    cand = list(range(len(b['cells'])))
    if fam == 'attachments':
        cand = [i for i, c in enumerate(b['cells']) if c['cell_type'] == 'markdown'] or cand
    if fam == 'outputs':
        cand = [i for i, c in enumerate(b['cells']) if c['cell_type'] == 'code'] or cand
    i = rnd.choice(cand)
    l, r = b, b
    for _ in range(rnd.randint(1, 2)):
        l = apply_edit(l, rnd.choice(FAMILIES[fam]), rnd, where=i)
    for _ in range(rnd.randint(1, 2)):
        r = apply_edit(r, rnd.choice(FAMILIES[fam]), rnd, where=i)
    return copy.deepcopy(b), l, r


def separate_edits_triple(b, rnd):
    """Both sides edit the source of the SAME cell, in regions separated by untouched lines: one side works in the upper part,
    the other in the lower part (deleting, changing or adding lines, including the first and the last line, with or without a
    final newline)."""
    if not b['cells']:
        return None
    i = rnd.randrange(len(b['cells']))
    n = rnd.randint(7, 14)
    lines = ['step_%02d = compute(%d)\n' % (k, k) for k in range(n)]
    if rnd.random() < 0.3:
        lines[rnd.randrange(n)] = '\n'
    if rnd.random() < 0.3:
        lines[-1] = lines[-1].rstrip('\n')
    base = copy.deepcopy(b)
    base['cells'][i]['source'] = ''.join(lines)

    def edit(lo, hi, tag):
        out = list(lines)
        k = rnd.randint(lo, hi - 1)
        how = rnd.randrange(4)
        if how == 0:
            del out[k]
        elif how == 1:
            out[k] = '# %s changed %d\n' % (tag, k) if out[k].endswith('\n') else '# %s changed %d' % (tag, k)
        elif how == 2:
            out.insert(k, '# %s added before %d\n' % (tag, k))
        else:
            m = min(hi, k + rnd.randint(1, 2))
            del out[k:m]
        return ''.join(out)
    cut = n // 2
    upper, lower = edit(0, cut - 1, 'upper'), edit(cut + 1, n, 'lower')
    l, r = copy.deepcopy(base), copy.deepcopy(base)
    if rnd.random() < 0.5:
        upper, lower = lower, upper
    l['cells'][i]['source'], r['cells'][i]['source'] = upper, lower
    return base, l, r


def minor_mix_triple(b, rnd):
    """Base, local and remote declare three different format minors (a notebook re-saved by two newer tools), either side may hold
    the highest one; each side also edits a cell of its own."""
    m0 = b['nbformat_minor']
    higher = [m for m in (3, 4, 5) if m > m0]
    if len(higher) < 2 or not b['cells']:
        return None
    hi, lo = sorted(rnd.sample(higher, 2), reverse=True)

    def resave(nb, minor, tag):
        nb = copy.deepcopy(nb)
        nb['nbformat_minor'] = minor
        if minor >= 5:
            for k, c in enumerate(nb['cells']):
                c.setdefault('id', '%s-cell-%d' % (tag, k))
        return nb
    l, r = resave(b, hi, 'hi'), resave(b, lo, 'lo')
    n = len(b['cells'])
    l = apply_edit(l, rnd.choice(['source_line_add', 'source_line_change', 'metadata_tags']), rnd, where=0)
    r = apply_edit(r, rnd.choice(['source_line_add', 'source_line_change', 'metadata_tags']), rnd, where=n - 1)
    if validate_strict(l) or validate_strict(r):
        return None
    if rnd.random() < 0.5:
        l, r = r, l
    return copy.deepcopy(b), l, r


def double_append_outputs_triple(b, rnd):
    """Both sides append outputs to the same code cell: one side several (one of them the same as, or a re-run of, the other side's
    single new output), so that one side's insertion is split into several pieces at the same position."""
    cand = [i for i, c in enumerate(b['cells']) if c['cell_type'] == 'code']
    if not cand:
        return None
    i = rnd.choice(cand)
    shared = nbformat.from_dict(out_result(3, '<obj at 0x7f3a2c1b9d30>'))
    extra = [nbformat.from_dict(rnd.choice(OUTPUTS)()) for _ in range(rnd.randint(1, 2))]
    many = [copy.deepcopy(shared)] + extra if rnd.random() < 0.5 else extra + [copy.deepcopy(shared)]
    if rnd.random() < 0.5:
        many.append(copy.deepcopy(shared))
    one = copy.deepcopy(shared)
    if rnd.random() < 0.6:
        one['execution_count'] = 11
    l, r = copy.deepcopy(b), copy.deepcopy(b)
    l['cells'][i]['outputs'] = list(l['cells'][i]['outputs']) + many
    r['cells'][i]['outputs'] = list(r['cells'][i]['outputs']) + [one]
    if rnd.random() < 0.5:
        l, r = r, l
    return copy.deepcopy(b), l, r


def mixed_outputs_triple(b, rnd):
    """One code cell with two (or three) outputs: one output is changed by both sides in different places (no conflict: one side
    its text, the other its metadata), a sibling output is changed by both sides on the same line (a real conflict), so that several
    decisions end up on the same outputs path and patch the same output."""
    cand = [i for i, c in enumerate(b['cells']) if c['cell_type'] == 'code']
    if not cand:
        return None
    i = rnd.choice(cand)
    table = ''.join('row %d of the table\n' % k for k in range(rnd.randint(3, 12)))
    base = copy.deepcopy(b)
    c = base['cells'][i]
    c['execution_count'] = c['execution_count'] or 1
    outs = [nbformat.from_dict({'output_type': 'display_data', 'data': {'text/plain': table, 'text/html': '<b>table</b>'},
                                'metadata': {'isolated': False}}),
            nbformat.from_dict(out_stream('line one\nline two\n'))]
    if rnd.random() < 0.3:
        outs.append(nbformat.from_dict(out_stream('tail\n', 'stderr')))
    if rnd.random() < 0.5:
        outs[0], outs[1] = outs[1], outs[0]
    c['outputs'] = outs
    l, r = copy.deepcopy(base), copy.deepcopy(base)
    for nb, tag in ((l, 'LOCAL'), (r, 'REMOTE')):
        for o in nb['cells'][i]['outputs']:
            if o['output_type'] == 'stream' and o['name'] == 'stdout':
                o['text'] = 'line one %s\nline two\n' % tag
    dl = [o for o in l['cells'][i]['outputs'] if o['output_type'] == 'display_data'][0]
    dr = [o for o in r['cells'][i]['outputs'] if o['output_type'] == 'display_data'][0]
    dl['data']['text/plain'] = table + 'one more row\n'
    dr['metadata']['isolated'] = True
    if rnd.random() < 0.5:
        l, r = r, l
    return base, l, r


def transient_vs_delete_triple(b, rnd):
    """One side only re-runs / toggles transient fields of a code cell (execution counts, collapsed, scrolled), the other side
    deletes that cell, all of its outputs, or one of its outputs: a removal against a patch that touches transient fields only."""
    cand = [i for i, c in enumerate(b['cells']) if c['cell_type'] == 'code' and c['outputs']]
    if not cand:
        return None
    i = rnd.choice(cand)
    t = copy.deepcopy(b)
    c = t['cells'][i]
    kind = rnd.randrange(3)
    if kind in (0, 2):
        c['execution_count'] = (c['execution_count'] or 0) + rnd.randint(1, 5)
        for o in c['outputs']:
            if o['output_type'] == 'execute_result':
                o['execution_count'] = c['execution_count']
    if kind in (1, 2):
        key = rnd.choice(['collapsed', 'scrolled'])
        c['metadata'][key] = not c['metadata'].get(key, False)
    d = copy.deepcopy(b)
    how = rnd.randrange(3)
    if how == 0:
        del d['cells'][i]
    elif how == 1:
        d['cells'][i]['outputs'] = []
    else:
        outs = d['cells'][i]['outputs']
        pref = [k for k, o in enumerate(outs) if o['output_type'] == 'execute_result'] or list(range(len(outs)))
        del outs[rnd.choice(pref)]
    l, r = (t, d) if rnd.random() < 0.5 else (d, t)
    return copy.deepcopy(b), l, r


def concurrent_line_triple(b, rnd):
    "same idea inside one cell's source: one side inserts blank lines around a line the other side also inserts"
    if not b['cells']:
        return None
    i = rnd.randrange(len(b['cells']))
    src = b['cells'][i]['source']
    lines = src.splitlines(True)
    if lines and not lines[-1].endswith('\n'):
        lines[-1] += '\n'
    pos = rnd.randint(0, len(lines))
    shared = rnd.choice(['setup()\n', 'import re\n', '# step\n'])
    filler = rnd.choice(['\n', '#\n'])
    a_lines = lines[:pos] + [filler, shared, filler] + lines[pos:]
    b_lines = lines[:pos] + [shared] + lines[pos:]
    l, r = copy.deepcopy(b), copy.deepcopy(b)
    if rnd.random() < 0.5:
        a_lines, b_lines = b_lines, a_lines
    l['cells'][i]['source'] = ''.join(a_lines)
    r['cells'][i]['source'] = ''.join(b_lines)
    return copy.deepcopy(b), l, r


NONASCII_LINES = ["nom = 'Zoë'\n", "nom = '张伟'\n", "nom = 'Ωmega ✓'\n", "nom = '😀 émoji'\n", "nom = 'José'  # año\n"]


def nonascii_conflict_triple(b, rnd):
    "both sides change the same line of one cell's source differently; the text lies outside ASCII (accents, CJK, symbols, emoji)"
    if not b['cells']:
        return None
    i = rnd.randrange(len(b['cells']))
    base = copy.deepcopy(b)
    src = "# données\nnom = 'René'\nprint(nom)\n"
    base['cells'][i]['source'] = src
    l, r = copy.deepcopy(base), copy.deepcopy(base)
    la, ra = rnd.sample(NONASCII_LINES, 2)
    l['cells'][i]['source'] = src.replace("nom = 'René'\n", la)
    r['cells'][i]['source'] = src.replace("nom = 'René'\n", ra)
    return base, l, r


def nonascii_disjoint_case(k):
    """(base, local, remote, expected): the sides change different cells of a notebook full of text outside ASCII; local edits the
    first cell, remote re-runs the third one and (odd k) deletes the markdown cell between them"""
    minor = (5, 4)[k % 2]
    cells = [code_cell("# données\nnom = 'René'\nprint(nom)\n", [out_stream('René ✓\n')], 1),
             md_cell('# Ünïcode 标题\n\ntexte accentué: café, naïve, 😀\n'),
             code_cell("%timeit f('µ')\n", [out_stream('12.3 µs ± 0.4 µs per loop ███\n')], 2),
             md_cell('fin ∎\n')]
    base = notebook(cells, minor, NB_METADATA[k % len(NB_METADATA)])
    l, r, want = copy.deepcopy(base), copy.deepcopy(base), copy.deepcopy(base)
    for nb in (l, want):
        nb['cells'][0]['source'] = "# données\nnom = '%s'\nprint(nom)\n# ajouté: ½ × 2\n" % ['Zoë', '张伟', 'Ωmega', '😀'][k % 4]
    for nb in (r, want):
        nb['cells'][2]['execution_count'] = 7
        nb['cells'][2]['outputs'][0]['text'] = '11.9 µs ± 0.2 µs per loop ███\n'
    if k % 2:
        for nb in (r, want):
            del nb['cells'][1]
    return base, l, r, want


def sweep_pairs(seed, minors=(5, 4)):
    """Systematic part of the pair space: every cell of the pool x every edit operation aimed at that cell (the cell sits between
    two neighbours so that moves, inserts and deletions have room), for each minor; the randomness inside an operation is seeded."""
    rnd = random.Random(seed)
    pool = cell_pool()
    for minor in minors:
        for ci, c in enumerate(pool):
            cells = [pool[(ci + 5) % len(pool)], c, pool[(ci + 9) % len(pool)]]
            try:
                a = notebook(cells, minor=minor, ids=['n%d-%d' % (ci, k) for k in range(3)] if minor >= 5 else None)
            except Exception:
                continue
            if validate_strict(a):
                continue
            for op in edit_ops():
                try:
                    b = apply_edit(a, op, rnd, where=1)
                except Exception:
                    continue
                if validate_strict(b):
                    continue
                yield copy.deepcopy(a), b
            # always: every payload stored under a media type spelled with capitals gets edited once
            b = copy.deepcopy(a)
            hit = False
            for o in b['cells'][1].get('outputs', []):
                for mk in [m for m in o.get('data', {}) if m != m.lower() and isinstance(o['data'][m], str)]:
                    o['data'][mk] = o['data'][mk] + '$c$\n'
                    hit = True
            if hit and not validate_strict(b):
                yield copy.deepcopy(a), b


def pairs(seed, count, maxcells=3, minors=(5, 4, 2), max_edits=3):
    if seed < 0:
        yield from sweep_pairs(-seed)
        return
    rnd = random.Random(seed)
    bases = base_notebooks(maxcells, minors)
    for k in range(count):
        a = bases[k % len(bases)] if k < 2 * len(bases) else rnd.choice(bases)
        if rnd.random() < 0.15:
            b = rnd.choice(bases)          # unrelated
            if b['nbformat_minor'] != a['nbformat_minor']:
                b = a
        else:
            b = random_edits(a, rnd, rnd.randint(0, max_edits))
        yield copy.deepcopy(a), copy.deepcopy(b)


def selfcheck():
    "every generated notebook must be schema-valid (guards the generator itself)"
    bad = []
    rnd = random.Random(1)
    for nb in base_notebooks():
        e = validate_strict(nb)
        if e:
            bad.append(('base', e))
        for op in edit_ops():
            for w in range(3):
                x = apply_edit(nb, op, rnd)
                e = validate_strict(x)
                if e:
                    bad.append((op, e, canon(x)[:200]))
    return bad


if __name__ == '__main__':
    b = selfcheck()
    print('invalid generated notebooks:', len(b))
    for x in b[:5]:
        print(x)
    print(len(base_notebooks()), 'bases')
