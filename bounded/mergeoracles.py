"""Run-time contracts (oracles) of the merge properties on the public API, one merge case at a time.
Each oracle returns a list of (property, kind, detail) -- empty when the contract holds."""
import copy
import json
import os
import re
import traceback

from . import nbspace
from .nbspace import canon, to_plain, validate_strict

MARKER_RES = [re.compile(p) for p in (
    r'^<<<<<<<', r'^=======', r'^>>>>>>>', r'^\|\|\|\|\|\|\|', r'<span style="color:red"><b>', r'CELL DELETED')]

_schemas = {}


def _schema(name):
    if name not in _schemas:
        import nbdime
        with open(os.path.join(os.path.dirname(nbdime.__file__), name)) as fh:
            _schemas[name] = json.load(fh)
    return _schemas[name]


_dec_validator = [None]


def decision_validator():
    if _dec_validator[0] is None:
        import jsonschema
        from referencing import Registry, Resource
        ms, ds = _schema('merge_format.schema.json'), _schema('diff_format.schema.json')
        reg = Registry().with_resources([
            ('diff_format.schema.json', Resource.from_contents(ds, default_specification=_spec(ds))),
            ('merge_format.schema.json', Resource.from_contents(ms, default_specification=_spec(ms))),
        ])
        cls = jsonschema.validators.validator_for(ms)
        _dec_validator[0] = cls(ms, registry=reg)
    return _dec_validator[0]


def _spec(schema):
    from referencing.jsonschema import DRAFT4
    return DRAFT4


_diff_validator = [None]


def diff_validator():
    if _diff_validator[0] is None:
        import jsonschema
        ds = _schema('diff_format.schema.json')
        cls = jsonschema.validators.validator_for(ds)
        _diff_validator[0] = cls(ds)
    return _diff_validator[0]


def exc_summary(exc):
    tb = traceback.extract_tb(exc.__traceback__)
    frames = [f for f in tb if '/nbdime/' in f.filename]
    last = frames[-1] if frames else tb[-1]
    return '%s: %s @ %s:%s in %s' % (type(exc).__name__, str(exc)[:120], os.path.basename(last.filename), last.lineno, last.name)


def exc_site(exc):
    tb = traceback.extract_tb(exc.__traceback__)
    frames = [f for f in tb if '/nbdime/' in f.filename]
    last = frames[-1] if frames else tb[-1]
    return '%s@%s:%s' % (type(exc).__name__, os.path.basename(last.filename), last.name)


def prefix_before(decisions):
    """C09 ordering clause: a decision inside a sub-document precedes any decision on an enclosing
    path; decisions with the same (non-line) path are contiguous."""
    paths = [tuple(d['common_path']) for d in decisions]
    for i, p in enumerate(paths):
        for j in range(i + 1, len(paths)):
            q = paths[j]
            if len(q) > len(p) and q[:len(p)] == p:
                return 'decision %d at %r precedes decision %d at deeper path %r' % (i, p, j, q)
    seen = {}
    for i, p in enumerate(paths):
        if p in seen and seen[p] != i - 1:
            # same path must be contiguous
            if any(paths[k] != p for k in range(seen[p] + 1, i)):
                return 'decisions on path %r are not contiguous (%d and %d)' % (p, seen[p], i)
        seen[p] = i
    return None


def merge_case(b, l, r, args, props):
    """One merge under one strategy table; contracts of C03, C04, C09, C11, C13 on the result."""
    from nbdime.merging import merge_notebooks
    from nbdime.merging.decisions import apply_decisions
    from contracts import specs
    out = []
    snap = [canon(b), canon(l), canon(r)]
    try:
        merged, decisions = merge_notebooks(b, l, r, args)
    except Exception as exc:
        out.append(('C03', 'crash:' + exc_site(exc), 'merge_notebooks raised ' + exc_summary(exc)))
        return out, None
    if 'C13' in props and [canon(b), canon(l), canon(r)] != snap:
        which = [n for n, x, s in zip('base local remote'.split(), (b, l, r), snap) if canon(x) != s]
        out.append(('C13', 'mutated:merge_notebooks:' + ','.join(which), 'merge_notebooks modified its input(s): %s' % which))
    if 'C04' in props:
        err = validate_strict(merged)
        if err:
            out.append(('C04', 'invalid:' + classify_invalid(merged, err, (b, l, r), bool(getattr(args, 'ignore_transients', True)) if args is not None else True), 'merged notebook (minor %s) does not validate: %s'
                        % (merged.get('nbformat_minor'), err)))
    if 'C09' in props or 'C11' in props:
        dplain = to_plain(decisions)
        if 'C09' in props:
            e = prefix_before(dplain)
            if e:
                out.append(('C09', 'order', e))
            try:
                rt = json.loads(json.dumps(dplain))
                if canon(rt) != canon(dplain):
                    out.append(('C09', 'json', 'decision list does not survive a JSON round trip'))
            except Exception as exc:
                out.append(('C09', 'json', 'decision list is not JSON: %s' % exc))
            errs = list(decision_validator().iter_errors(dplain))
            if errs:
                e0 = errs[0]
                out.append(('C09', 'schema:' + str(list(e0.absolute_path)[-1:] ), 'decision list violates merge_format.schema.json: %s at %s'
                            % (e0.message[:160], list(e0.absolute_path))))
            snapd = canon(decisions)
            try:
                again = apply_decisions(b, decisions)
                if canon(again) != canon(merged):
                    out.append(('C09', 'apply', 'apply_decisions(base, decisions) differs from the merged notebook'))
            except Exception as exc:
                out.append(('C09', 'apply-crash', 'apply_decisions raised ' + exc_summary(exc)))
            if 'C13' in props and (canon(decisions) != snapd or canon(b) != snap[0]):
                out.append(('C13', 'mutated:apply_decisions', 'apply_decisions modified its decision list or base'))
        if 'C11' in props:
            for di, d in enumerate(dplain):
                base_at, in_line = resolve(to_plain(b), d['common_path'])
                for fld in ('local_diff', 'remote_diff', 'custom_diff'):
                    dd = d.get(fld)
                    if dd and base_at is not MISSING:
                        ok = wf_chars(base_at, dd) if in_line else wf_relaxed(base_at, dd)
                        if not ok:
                            where = '%s@%s' % (d.get('action'), d['common_path'][-1] if d['common_path'] else '')
                            tag = 'wf-emptypatch' if has_empty_patch(dd) else 'wf'
                            out.append(('C11', '%s:%s:%s' % (tag, fld, where), '%s of decision %d (action %s) at %r is not well formed for its base: %r'
                                        % (fld, di, d.get('action'), d['common_path'], dd)))
    return out, (merged, decisions)


MISSING = object()


def has_empty_patch(dd):
    return any(e.get('op') == 'patch' and (not e.get('diff') or has_empty_patch(e['diff'])) for e in dd if isinstance(e, dict))


def resolve(doc, path):
    """sub-document at path; second component: True when the path ends at a single line of a string
    (diffs there are character based)"""
    cur, in_line = doc, False
    for k in path:
        try:
            if isinstance(cur, str):
                cur = cur.splitlines(True)[k]
                in_line = True
            else:
                cur = cur[k]
        except Exception:
            return MISSING, False
    return cur, in_line


def wf_chars(line, dd):
    from contracts import specs
    return specs.wf_seq(dd, len(line)) and not any(e['op'] == 'patch' for e in dd)


def wf_relaxed(base, dd):
    """decision-level diffs: as specs.wf_deep, but a removerange of length 0 (a no-op emitted when an
    already empty list is cleared) is tolerated: the property statement does not forbid it"""
    from contracts import specs
    dd2 = [e for e in dd if not (e.get('op') == 'removerange' and e.get('length') == 0)]
    # several insertions at one position (bundled from several decisions) are ordered by position and do not overlap: the
    # statement does not forbid them; they are joined before the canonical-form check
    dd3 = []
    for e in dd2:
        if dd3 and e.get('op') == 'addrange' and dd3[-1].get('op') == 'addrange' and dd3[-1].get('key') == e.get('key') \
                and isinstance(e.get('valuelist'), type(dd3[-1].get('valuelist'))):
            dd3[-1] = dict(dd3[-1], valuelist=dd3[-1]['valuelist'] + e['valuelist'])
        else:
            dd3.append(e)
    return specs.wf_deep(base, dd3) if dd3 else True


def _strip_transients(cell):
    c = copy.deepcopy(to_plain(cell))
    c.pop('execution_count', None)
    for o in c.get('outputs', []) or []:
        if isinstance(o, dict):
            o.pop('execution_count', None)
    md = c.get('metadata')
    if isinstance(md, dict):
        for k in ('collapsed', 'scrolled', 'autoscroll'):
            md.pop(k, None)
    return c


def _retype_vs_transient_only(inputs, cell):
    """True if `cell` (of the merged notebook) is a base cell that one side retyped while the other side changed nothing in it but
    transient fields (re-ran it, toggled collapsed/scrolled)."""
    if not inputs:
        return False
    b, l, r = inputs
    for retyper, other in ((l, r), (r, l)):
        for k, bc in enumerate(b.get('cells', [])):
            def find(side):
                if bc.get('id') is not None:
                    return next((c for c in side.get('cells', []) if c.get('id') == bc.get('id')), None)
                return side['cells'][k] if k < len(side.get('cells', [])) else None
            rc, oc = find(retyper), find(other)
            if rc is None or oc is None or rc.get('cell_type') == bc.get('cell_type') or oc.get('cell_type') != bc.get('cell_type'):
                continue
            same_cell = (cell.get('id') is not None and cell.get('id') == bc.get('id')) or cell.get('source') in (bc.get('source'), rc.get('source'))
            if same_cell and canon(_strip_transients(oc)) == canon(_strip_transients(bc)):
                return True
    return False


def _retyped_cells(inputs):
    """(ids, sources) of base cells whose cell_type one side changed (same id; without ids: same position and same source)"""
    ids, sources = set(), set()
    if not inputs:
        return ids, sources
    b, l, r = inputs
    base_ids = {c.get('id') for c in b.get('cells', [])}
    for side, other in ((l, r), (r, l)):
        byid = {c.get('id'): c for c in side.get('cells', []) if c.get('id') is not None}
        for k, c in enumerate(b.get('cells', [])):
            o = byid.get(c.get('id')) if c.get('id') is not None else None
            if o is None and c.get('id') is None and k < len(side.get('cells', [])) and side['cells'][k].get('source') == c.get('source'):
                o = side['cells'][k]
            if o is not None and o.get('cell_type') != c.get('cell_type'):
                ids.add(c.get('id'))
                sources.add(c.get('source'))
                sources.add(o.get('source'))
                # the other side may have changed the cell so far that it carries a new id there (same position, the base id gone):
                # nbdime still aligns the two, and the merged cell then goes by the other side's id
                oc = other.get('cells', [])
                if c.get('id') is not None and all(x.get('id') != c.get('id') for x in oc) and len(oc) == len(b.get('cells', [])) \
                        and oc[k].get('id') is not None and oc[k].get('id') not in base_ids:
                    ids.add(oc[k].get('id'))
                    sources.add(oc[k].get('source'))
    return ids, sources


def classify_invalid(merged, err, inputs=None, ignore_transients=False):
    """class of a schema violation, specific enough to identify a recorded finding by its cause (the shape of the inputs), not
    just by the wording of the schema error"""
    minor = merged.get('nbformat_minor', 0)
    if "'id' was unexpected" in err and minor < 5:
        # which cells carry the id?
        cells = [c for c in merged.get('cells', []) if 'id' in c]
        if cells and all(any(m.search(c.get('source', '')) for m in MARKER_RES) for c in cells):
            return 'marker-id-pre45'
        return 'id-pre45'
    if 'is not of type' in err and "/id" in err:
        m = re.search(r'/cells/(\d+)/id', err)
        cid = merged['cells'][int(m.group(1))].get('id') if m else None
        # the recorded finding: the cell built for two similar concurrent inserts carries {'local_id':.., 'remote_id':..}
        return 'id-not-string' if isinstance(cid, dict) and set(cid) == {'local_id', 'remote_id'} else 'id-bad-type'
    if "'id' is a required property" in err:
        m = re.search(r'at /cells/(\d+)$', err)
        if m and merged['cells'][int(m.group(1))].get('source', '').startswith('<span style="color:red">'):
            return 'marker-id-missing'
        # the recorded finding: both sides upgraded a pre-4.5 base to 4.5
        if inputs and inputs[0].get('nbformat_minor', 0) < 5 and all(x.get('nbformat_minor', 0) >= 5 for x in inputs[1:]):
            return 'id-missing'
        # another recorded finding: only ONE side upgraded the pre-4.5 base to 4.5 (so the merge declares 4.5), and the cell without
        # id is one of the pre-4.5 documents: inserted or kept by the side that was not upgraded, or a base cell the merge keeps as it was
        if inputs and m and inputs[0].get('nbformat_minor', 0) < 5:
            minors = [x.get('nbformat_minor', 0) for x in inputs[1:]]
            if sorted(v >= 5 for v in minors) == [False, True]:
                old_side = inputs[1:][[v >= 5 for v in minors].index(False)]
                new_side = inputs[1:][[v >= 5 for v in minors].index(True)]
                cell = merged['cells'][int(m.group(1))]
                same = lambda c: c.get('source') == cell.get('source') and c.get('cell_type') == cell.get('cell_type')
                from_old = any(same(c) and 'id' not in c for c in list(old_side.get('cells', [])) + list(inputs[0].get('cells', [])))
                from_new = any(same(c) and 'id' in c for c in new_side.get('cells', []))
                # cells of the upgraded side carry ids; an id-less cell that is not one of them (stripped of its id) comes from the
                # pre-4.5 documents or is a conflict cell built from them
                if from_old or not from_new:
                    return 'one-sided-upgrade-id-missing'
        return 'other-id-missing'
    if re.search(r"'(outputs|execution_count)'(, '(outputs|execution_count)')* (was|were) unexpected\) at /cells/\d+$", err) or \
            re.search(r"^'(outputs|execution_count)' is a required property at /cells/\d+$", err):
        m = re.search(r'at /cells/(\d+)$', err)
        cell = merged['cells'][int(m.group(1))] if m else {}
        ids, sources = _retyped_cells(inputs)
        # the recorded finding: a side changed the cell_type of an existing cell
        if (cell.get('id') is not None and cell.get('id') in ids) or (ids == {None} or (not ids and sources)) and cell.get('source') in sources \
                or (None in ids and cell.get('source') in sources):
            # ... and the other side really edited it; with transients ignored, a side that only re-ran the cell does not count
            if ignore_transients and _retype_vs_transient_only(inputs, cell):
                return 'retype-vs-rerun'
            return 'retype-key'
        return 'code-keys-misplaced'
    m = re.search(r"^'output_type' is a required property at /cells/(\d+)/outputs/(\d+)$", err)
    if m:
        try:
            if merged['cells'][int(m.group(1))]['outputs'][int(m.group(2))] == {}:
                return 'cleared-output'         # the recorded finding: a 'clear' decision pushed up to the outputs list
        except (KeyError, IndexError):
            pass
    m = re.search(r"has non-unique elements at /cells/(\d+)/metadata/tags$", err)
    if m and inputs:
        try:
            cell = merged['cells'][int(m.group(1))]
            tags = list(cell['metadata']['tags'])
            dup = sorted(t for t in set(tags) if tags.count(t) > 1)
            sides = [_matching_cell(nb, cell, int(m.group(1)) if len(nb.get('cells', [])) == len(merged['cells']) else None) for nb in inputs]
            if all(c is not None for c in sides):
                bt, lt, rt = [list(c.get('metadata', {}).get('tags', [])) for c in sides]
                before = lambda ts, t: [u for u in ts[:ts.index(t)] if u in bt]
                # the recorded finding: BOTH sides added the same new tag, at different places among the base tags (the list merge
                # treats them as two independent insertions)
                if dup and all(t not in bt and t in lt and t in rt and tags.count(t) == 2 and before(lt, t) != before(rt, t) for t in dup):
                    return 'tag-added-by-both-sides-at-different-places'
        except (KeyError, IndexError, ValueError, TypeError):
            pass
        return 'duplicate-tags'
    return 'other:' + re.sub(r"'[^']*'", "'..'", err)[:60]


def _matching_cell(nb, cell, index=None):
    "the cell of nb that `cell` (of the merged notebook) stems from: by id, else by source text (at the same index when the cell counts agree)"
    cands = [c for c in nb.get('cells', []) if cell.get('id') is not None and c.get('id') == cell.get('id')]
    if not cands:
        same = lambda c: c.get('source') == cell.get('source') and c.get('cell_type') == cell.get('cell_type')
        if index is not None and index < len(nb.get('cells', [])) and same(nb['cells'][index]):
            return nb['cells'][index]
        cands = [c for c in nb.get('cells', []) if same(c)]
    return cands[0] if len(cands) >= 1 else None


# ------------------------------------------------------------------------------------------ C05

def same_position_inserts(d0, d1):
    """True if the two diffs (against the same base) both insert into the same list at the same key."""
    k0 = {}
    for e in d0:
        k0.setdefault(e['key'], []).append(e)
    for e in d1:
        for f in k0.get(e['key'], []):
            if e['op'] == 'addrange' and f['op'] == 'addrange':
                return True
            if e['op'] == 'patch' and f['op'] == 'patch':
                if same_position_inserts(e['diff'], f['diff']):
                    return True
            if e['op'] in ('add', 'addrange') and f['op'] in ('add', 'addrange') and isinstance(e['key'], int):
                return True
    return False


def laws_case(b, x, args, label):
    "identity, one-sided adoption, agreement (C05 i-iii)"
    from nbdime.merging import merge_notebooks
    out = []
    # every law twice: with three independent copies, and with ONE object standing in every role it plays (merge(b, b, b),
    # merge(b, x, b), ...: what a caller that holds a single notebook object naturally writes)
    for shared in (False, True):
        for name, roles, wantrole in (('identity', 'bb', 'b'), ('one-sided-local', 'xb', 'x'), ('one-sided-remote', 'bx', 'x'), ('agreement', 'xx', 'x')):
            objs = {'b': copy.deepcopy(b), 'x': copy.deepcopy(x)}
            want = {'b': b, 'x': x}[wantrole]
            if shared:
                b_, l_, r_ = objs['b'], objs[roles[0]], objs[roles[1]]
            else:
                b_, l_, r_ = objs['b'], copy.deepcopy(objs[roles[0]]), copy.deepcopy(objs[roles[1]])
            tag = name + (' (one object in several roles)' if shared else '')
            try:
                m, dec = merge_notebooks(b_, l_, r_, args)
            except Exception as exc:
                out.append(('C05', 'crash:' + exc_site(exc), '%s merge raised %s' % (tag, exc_summary(exc))))
                continue
            if any(d.conflict for d in dec):
                out.append(('C05', name + ':conflict', '%s merge reports a conflict (%s)' % (tag, label)))
            if canon(m) != canon(want):
                out.append(('C05', name + ':result', '%s merge does not return the expected notebook (%s)' % (tag, label)))
    return out


def symmetry_case(b, l, r, args, known_crash_sites=()):
    from nbdime.merging import merge_notebooks
    from nbdime.diffing.notebooks import diff_notebooks
    try:
        if same_position_inserts(to_plain(diff_notebooks(b, l)), to_plain(diff_notebooks(b, r))):
            return [], False
    except Exception:
        return [], False
    # a strategy that names a side (use-local / use-remote) is swapped together with the roles
    sw = {'use-local': 'use-remote', 'use-remote': 'use-local'}
    args2 = copy.copy(args)
    args2.merge_strategy = sw.get(args.merge_strategy, args.merge_strategy)
    args2.input_strategy = sw.get(args.input_strategy, args.input_strategy)
    args2.output_strategy = sw.get(args.output_strategy, args.output_strategy)
    res, errs = [], []
    for (x, y, a) in ((l, r, args), (r, l, args2)):
        try:
            res.append(merge_notebooks(copy.deepcopy(b), copy.deepcopy(x), copy.deepcopy(y), a))
            errs.append(None)
        except Exception as exc:
            res.append(None)
            errs.append(exc)
    if errs[0] is not None and errs[1] is not None:
        return [], False          # a merge that aborts in both role assignments is C03's business
    if errs[0] is not None or errs[1] is not None:
        # one role assignment gives a verdict, the other aborts: no "same verdict" (sites recorded as C03 findings are left to C03)
        exc = errs[0] or errs[1]
        site = 'crash:' + exc_site(exc)
        if site in known_crash_sites:
            return [], False
        ok = res[0] or res[1]
        return [('C05', 'symmetry:one-order-raises', 'merge(b,%s) gives conflict=%s but with local and remote swapped it raises %s [%s]'
                 % ('l,r' if errs[1] else 'r,l', any(d.conflict for d in ok[1]), exc_summary(exc), site))], True
    (m1, d1), (m2, d2) = res
    c1 = any(d.conflict for d in d1)
    c2 = any(d.conflict for d in d2)
    out = []
    if c1 != c2:
        out.append(('C05', 'symmetry:verdict', 'merge(b,l,r) conflict=%s but merge(b,r,l) conflict=%s' % (c1, c2)))
    elif not c1 and canon(m1) != canon(m2):
        out.append(('C05', 'symmetry:result', 'conflict-free merges differ when local and remote are swapped'))
    return out, True


# ------------------------------------------------------------------------------------------ C07

def source_lines(nb):
    out = set()
    for c in nb.get('cells', []):
        for ln in c.get('source', '').splitlines():
            out.add(ln)
    return out


def is_marker(line):
    return any(m.search(line) for m in MARKER_RES)


GLUED = re.compile(r'^(.+?)(<<<<<<< |\|\|\|\|\|\|\| |=======$|>>>>>>> )')


def c07_case(b, l, r, merged, decisions):
    out = []
    base, loc, rem, mer = (source_lines(x) for x in (b, l, r, merged))
    # a conflict marker glued to the end of an input line that had no trailing newline (diff3 does this)
    glued = {}
    for ln in mer:
        m = GLUED.match(ln)
        if m and not is_marker_start(ln):
            glued[ln] = m.group(1)
    present = set(mer) | set(glued.values())
    for side, lines in (('local', loc), ('remote', rem)):
        lost = [ln for ln in lines - base if ln.strip() and ln not in present]
        if lost:
            out.append(('C07', 'dropped:' + side, 'source line(s) added by %s are missing from the merged notebook: %r' % (side, lost[:3])))
    invented = [ln for ln in mer if ln.strip() and ln not in base and ln not in loc and ln not in rem and not is_marker(ln)]
    real = [ln for ln in invented if ln not in glued]
    if real:
        out.append(('C07', 'invented', 'merged source contains line(s) found in no input and not a marker: %r' % real[:3]))
    elif invented:
        out.append(('C07', 'glued-marker', 'a conflict marker is glued to an input line that has no trailing newline: %r' % invented[:2]))
    return out


def is_marker_start(line):
    return any(line.startswith(p) for p in ('<<<<<<<', '=======', '>>>>>>>', '|||||||'))
