"""Strategy space and shared helpers for the merge properties (C03-C10, C13)."""
import argparse
import copy
import itertools
import json
import os
import random

from . import nbspace

MERGE = ['inline', 'use-base', 'use-local', 'use-remote']
INPUT = [None] + MERGE
OUTPUT = [None] + MERGE + ['remove', 'clear-all']


def args_for(merge='inline', inp=None, out=None, ignore_transients=True):
    return argparse.Namespace(merge_strategy=merge, input_strategy=inp, output_strategy=out,
                              ignore_transients=ignore_transients, log_level='INFO')


def all_args():
    out = []
    for m, i, o, t in itertools.product(MERGE, INPUT, OUTPUT, [True, False]):
        out.append(args_for(m, i, o, t))
    out.append(args_for('mergetool'))
    out.append(args_for('mergetool', ignore_transients=False))
    return out


def args_key(a):
    return (a.merge_strategy, a.input_strategy, a.output_strategy, a.ignore_transients)


def sample_args(rnd, n):
    allv = all_args()
    core = [args_for(), args_for('mergetool'), args_for('use-local'), args_for('use-remote'), args_for('use-base'),
            args_for('inline', None, 'clear-all'), args_for('inline', None, 'remove'),
            args_for('inline', 'use-local', 'use-remote', False), args_for('use-base', 'inline', 'inline')]
    rest = [a for a in allv if args_key(a) not in {args_key(c) for c in core}]
    rnd.shuffle(rest)
    return core + rest[:max(0, n - len(core))]


def renderer_env(kind):
    """PATH manipulation selecting the external helpers found on the machine: 'git' (git+diff), 'diff3' (diff3+diff), 'builtin'
    (none), 'diff' (diff without diff3 -- busybox-style), 'diff3only', 'gitonly', 'all'.
    Returns a context manager."""
    import contextlib
    import shutil
    import tempfile

    @contextlib.contextmanager
    def cm():
        old = os.environ.get('PATH', '')
        d = tempfile.mkdtemp(prefix='nbdime-verif-path-')
        try:
            # machines: everything / diffutils without git / nothing, and the partial installations in between
            keep = {'git': ['git', 'diff'], 'diff3': ['diff3', 'diff'], 'builtin': [],
                    'diff': ['diff'], 'diff3only': ['diff3'], 'gitonly': ['git'], 'all': ['git', 'diff', 'diff3']}[kind]
            for tool in keep:
                src = shutil.which(tool, path=old)
                if src:
                    os.symlink(src, os.path.join(d, tool))
            os.environ['PATH'] = d
            _reset_tool_cache()
            yield
        finally:
            os.environ['PATH'] = old
            _reset_tool_cache()
            shutil.rmtree(d, ignore_errors=True)
    return cm()


def _reset_tool_cache():
    # prettyprint caches which('git') etc. in module-level names on first use
    try:
        import nbdime.prettyprint as pp
        for name in ('_git_diff_print_cmd', '_diff_print_cmd', '_git_mergefile_print_cmd', '_diff3_print_cmd'):
            pass
        if hasattr(pp, 'which'):
            pass
    except Exception:
        pass


def plain(x):
    return nbspace.to_plain(x)


def canon(x):
    return nbspace.canon(x)


def snapshot(*objs):
    return [canon(o) for o in objs]
