"""C17 helpers: random small git repositories built with the real `git`, and the independent oracle
(`git diff --name-status -z`, `git show`, working-tree files).  Nothing in here imports nbdime or GitPython."""
import json
import os
import random
import shutil
import subprocess
import tempfile

NULL = '<null-file>'

DIRS = ['', 'pkg', 'pkg/docs', 'pkg/sub', 'other', 'other/deep', 'other/deep/er']
CWDS = ['', 'pkg', 'pkg/docs', 'pkg/sub', 'other', 'other/deep']
NB_NAMES = ['a.ipynb', 'b.ipynb', 'deep.ipynb', 'n1.ipynb', 'n2.ipynb', 'my nb.ipynb', 'analysis.ipynb', 'x.y.ipynb',
            'ipynb.ipynb', 'plot.ipynb']
OTHER_NAMES = ['notes.txt', 'mod.py', 'README.md', 'old.ipynb.bak', 'ipynb', 'data.ipynbx', 'nb.json', 'a.ipynb.txt',
               'conf.cfg']
WORDS = ('alpha beta gamma delta epsilon zeta eta theta iota kappa lambda mu nu xi omicron pi rho sigma tau upsilon phi '
         'chi psi omega café naïve π import print return while yield lambda').split()

GIT_ENV_DROP = ['GIT_DIR', 'GIT_WORK_TREE', 'GIT_INDEX_FILE', 'GIT_OBJECT_DIRECTORY', 'GIT_ALTERNATE_OBJECT_DIRECTORIES',
                'GIT_CEILING_DIRECTORIES', 'GIT_NAMESPACE', 'GIT_PREFIX', 'GIT_EXTERNAL_DIFF', 'GIT_DIFF_OPTS',
                'GIT_CONFIG', 'GIT_CONFIG_COUNT', 'GIT_CONFIG_PARAMETERS']


class HarnessError(Exception):
    pass


def is_nb(path):
    return path.endswith('.ipynb')


# ------------------------------------------------------------------------------------------------------
# isolated git environment (also installed into os.environ while nbdime/GitPython run in-process)

def make_env(home):
    """environment overrides isolating git (and jupyter config discovery) from the real user"""
    cfg = os.path.join(home, 'gitconfig')
    if not os.path.exists(cfg):
        with open(cfg, 'w') as fh:
            fh.write('[user]\n\tname = Verif Harness\n\temail = verif@example.invalid\n'
                     '[init]\n\tdefaultBranch = main\n[core]\n\tautocrlf = false\n[advice]\n\tdetachedHead = false\n'
                     '[commit]\n\tgpgsign = false\n')
    return {
        'HOME': home, 'XDG_CONFIG_HOME': os.path.join(home, 'xdg'), 'GIT_CONFIG_NOSYSTEM': '1', 'GIT_CONFIG_GLOBAL': cfg,
        'GIT_AUTHOR_NAME': 'Verif Harness', 'GIT_AUTHOR_EMAIL': 'verif@example.invalid',
        'GIT_COMMITTER_NAME': 'Verif Harness', 'GIT_COMMITTER_EMAIL': 'verif@example.invalid',
        'GIT_AUTHOR_DATE': '2020-01-01T00:00:00 +0000', 'GIT_COMMITTER_DATE': '2020-01-01T00:00:00 +0000',
        'GIT_TERMINAL_PROMPT': '0', 'GIT_PYTHON_REFRESH': 'quiet', 'LC_ALL': 'C.UTF-8',
        'JUPYTER_CONFIG_DIR': os.path.join(home, 'jupyter'), 'JUPYTER_CONFIG_PATH': os.path.join(home, 'jupyter'),
        'JUPYTER_NO_CONFIG': '1', 'JUPYTER_PLATFORM_DIRS': '0',
    }


class isolated_environ:
    """install make_env(home) into os.environ (GitPython and nbdime's own `git` sub-processes inherit it); restore on exit"""

    def __init__(self, home):
        self.home = home

    def __enter__(self):
        self.saved = dict(os.environ)
        for k in GIT_ENV_DROP:
            os.environ.pop(k, None)
        os.environ.update(make_env(self.home))
        return self

    def __exit__(self, *exc):
        os.environ.clear()
        os.environ.update(self.saved)
        return False


def git(root, *args, cwd=None, ok=(0,), binary=False):
    """run the real git with the (already isolated) process environment; returns stdout"""
    p = subprocess.run(['git'] + list(args), cwd=cwd or root, stdout=subprocess.PIPE, stderr=subprocess.PIPE)
    if p.returncode not in ok:
        raise HarnessError('git %s failed in %s (%d): %s' % (' '.join(args), cwd or root, p.returncode,
                                                             p.stderr.decode('utf-8', 'replace')[:300]))
    return p.stdout if binary else p.stdout.decode('utf-8')


# ------------------------------------------------------------------------------------------------------
# content

def nb_text(rnd, token, lines=None):
    """a tiny valid nbformat 4.5 notebook whose source is unique to `token`"""
    if lines is None:
        lines = ['# %s' % token] + [' '.join(rnd.choice(WORDS) for _ in range(rnd.randint(3, 7))) + ' %s-%d' % (token, i)
                                     for i in range(rnd.randint(4, 12))]
    nb = {'cells': [{'cell_type': 'code', 'execution_count': None, 'id': 'c0', 'metadata': {}, 'outputs': [],
                     'source': '\n'.join(lines)},
                    {'cell_type': 'markdown', 'id': 'c1', 'metadata': {}, 'source': 'version %s' % token}],
          'metadata': {}, 'nbformat': 4, 'nbformat_minor': 5}
    return json.dumps(nb, indent=1, ensure_ascii=False, sort_keys=True) + '\n'


def nb_edit(rnd, text, token):
    """small edit (stays similar: git pairs a rename+edit as a rename)"""
    nb = json.loads(text)
    lines = nb['cells'][0]['source'].split('\n')
    k = rnd.randrange(len(lines))
    lines[k] = lines[k] + ' # edited %s' % token
    if rnd.random() < 0.5:
        lines.append('appended %s' % token)
    nb['cells'][0]['source'] = '\n'.join(lines)
    nb['cells'][1]['source'] = 'version %s' % token
    return json.dumps(nb, indent=1, ensure_ascii=False, sort_keys=True) + '\n'


def other_text(rnd, token, name):
    if name in ('nb.json', 'old.ipynb.bak') and rnd.random() < 0.7:
        return nb_text(rnd, token)          # notebook-shaped content under a non-notebook name
    return ''.join('%s %s line %d\n' % (token, ' '.join(rnd.choice(WORDS) for _ in range(rnd.randint(2, 6))), i)
                   for i in range(rnd.randint(3, 10)))


def other_edit(rnd, text, token):
    lines = text.splitlines(True)
    k = rnd.randrange(len(lines))
    lines[k] = lines[k].rstrip('\n') + ' edited %s\n' % token
    return ''.join(lines)


# ------------------------------------------------------------------------------------------------------
# repository builder

class Builder:
    def __init__(self, root, seed):
        self.root = root
        self.rnd = random.Random(seed)
        self.serial = 0
        self.files = {}            # working-tree model: path -> text
        self.ever = set()          # every path that ever existed
        self.log = []              # human readable history

    def token(self):
        self.serial += 1
        return 'T%03d' % self.serial

    def abspath(self, path):
        return os.path.join(self.root, *path.split('/'))

    def write(self, path, text):
        full = self.abspath(path)
        os.makedirs(os.path.dirname(full), exist_ok=True)
        new = not os.path.exists(full)
        with open(full, 'w', encoding='utf-8', newline='') as fh:
            fh.write(text)
        if new and path not in self.ever and self.rnd.random() < 0.2:
            # a file that arrives with the executable bit set (copied from a FAT/SMB share, unpacked from a zip): git tracks it as mode 100755
            os.chmod(full, 0o755)
            self.log.append('(mode 755) %s' % path)
        self.files[path] = text
        self.ever.add(path)

    def fresh_path(self, notebook):
        rnd = self.rnd
        for _ in range(50):
            d = rnd.choice(DIRS)
            n = rnd.choice(NB_NAMES if notebook else OTHER_NAMES)
            p = (d + '/' + n) if d else n
            # never a path that is/was a file or collides with a directory name
            if p in self.ever or any(q.startswith(p + '/') for q in self.ever) or any(p.startswith(q + '/') for q in self.ever):
                continue
            if p in DIRS:
                continue
            return p
        return None

    def new_content(self, path):
        t = self.token()
        return nb_text(self.rnd, t) if is_nb(path) else other_text(self.rnd, t, os.path.basename(path))

    def edited(self, path, rewrite=False):
        t = self.token()
        old = self.files[path]
        if rewrite:
            return self.new_content(path)
        try:                       # by content: a cross-type rename leaves text under a notebook name and vice versa
            json.loads(old)
        except ValueError:
            return other_edit(self.rnd, old, t)
        return nb_edit(self.rnd, old, t)

    # one random operation; `stage` in {'commit', 'staged', 'unstaged'}
    def op(self, stage):
        rnd = self.rnd
        have = sorted(self.files)
        nbs = [p for p in have if is_nb(p)]
        choices = ['add_nb'] * 3 + ['add_other'] * 2
        if have:
            choices += ['edit'] * 4 + ['delete'] * 2 + ['rename'] * 2 + ['rename_edit', 'rewrite']
        if nbs:
            choices += ['edit_nb'] * 3 + ['delete_nb', 'rename_nb']
        kind = rnd.choice(choices)
        if stage == 'unstaged' and kind.startswith('rename'):
            kind = 'edit'
        if kind in ('add_nb', 'add_other'):
            p = self.fresh_path(kind == 'add_nb')
            if p is None:
                return
            self.write(p, self.new_content(p))
            if stage == 'staged':
                git(self.root, 'add', '--', p)
            elif stage == 'unstaged' and rnd.random() < 0.3:
                git(self.root, 'add', '-N', '--', p)      # intent-to-add: shows up in `git diff`
                self.log.append('%s: intent-to-add %s' % (stage, p))
                return
            self.log.append('%s: add %s%s' % (stage, p, ' (untracked)' if stage == 'unstaged' else ''))
            return
        pool = nbs if kind.endswith('_nb') else have
        p = rnd.choice(pool)
        kind = kind.replace('_nb', '')
        if kind in ('edit', 'rewrite'):
            self.write(p, self.edited(p, rewrite=(kind == 'rewrite')))
            if stage == 'staged':
                git(self.root, 'add', '--', p)
            self.log.append('%s: %s %s' % (stage, kind, p))
        elif kind == 'delete':
            text = self.files.pop(p)
            os.remove(self.abspath(p))
            if stage == 'staged':
                git(self.root, 'rm', '-q', '--cached', '--', p)
            self.log.append('%s: delete %s' % (stage, p))
            del text
        else:  # rename / rename_edit
            # cross-type renames: notebook -> non-notebook name, or a notebook-shaped non-notebook -> *.ipynb
            # (a file under a *.ipynb name always holds a valid notebook)
            cross = rnd.random() < 0.08 and (is_nb(p) or self.files[p].startswith('{'))
            q = self.fresh_path(is_nb(p) != cross)
            if q is None:
                return
            text = self.files.pop(p)
            os.remove(self.abspath(p))
            self.write(q, text)
            if kind == 'rename_edit':
                self.write(q, self.edited(q))
            if stage == 'staged':
                git(self.root, 'rm', '-q', '--cached', '--', p)
                git(self.root, 'add', '--', q)
            self.log.append('%s: %s %s -> %s' % (stage, kind, p, q))


def build_repo(root, seed):
    """Build the random repository for `seed` in the (empty, existing) directory `root`.
    Returns {'commits': [sha...], 'tags': {...}, 'log': [...], 'ever': [...]}.  Deterministic in `seed`
    (commit dates are pinned, so the shas are reproducible as well)."""
    b = Builder(root, seed)
    rnd = b.rnd
    git(root, 'init', '-q', '.')
    commits = []
    tags = {}
    ncommits = rnd.randint(2, 6)
    for c in range(ncommits):
        nops = rnd.randint(2, 4) if c == 0 else rnd.randint(1, 4)
        if c == 0:
            for notebook in [True] * rnd.randint(2, 4) + [False] * rnd.randint(1, 2):
                p = b.fresh_path(notebook)
                b.write(p, b.new_content(p))
                b.log.append('commit: add %s' % p)
        for _ in range(nops):
            b.op('commit')
        git(root, 'add', '-A')
        git(root, 'commit', '-q', '--allow-empty', '-m', 'c%d' % c)
        sha = git(root, 'rev-parse', 'HEAD').strip()
        commits.append(sha)
        b.log.append('== commit %d %s' % (c, sha[:8]))
        if c == 0 or (c == 2 and rnd.random() < 0.5):
            name = 'v%d' % c
            git(root, 'tag', name)
            tags[name] = c
    # model of the index == HEAD == working tree here
    for _ in range(rnd.choice([0, 1, 2, 2, 3])):
        b.op('staged')
    for _ in range(rnd.choice([0, 1, 2, 2, 3])):
        b.op('unstaged')
    # the directories the checks chdir into must exist even when git removed them with their last file
    for d in CWDS:
        if d:
            full = os.path.join(root, *d.split('/'))
            if not os.path.isdir(full):
                if os.path.exists(full):
                    raise HarnessError('cwd candidate %s is a file' % d)
                os.makedirs(full)
    return {'commits': commits, 'tags': tags, 'log': b.log, 'ever': sorted(b.ever)}


# ------------------------------------------------------------------------------------------------------
# oracle

def oracle_name_status(root, cwd_rel, kind, refs, paths):
    """What git itself reports: list of (status_letter, a_path, b_path) with repository-root relative paths.
    kind: 'cc' (refs=[A,B]), 'ci' (refs=[A], --cached), 'cw' (refs=[A]), 'iw' (refs=[])."""
    cmd = ['diff', '--name-status', '-z']
    if kind == 'ci':
        cmd.append('--cached')
    cmd += list(refs)
    cmd.append('--')
    cmd += list(paths or [])
    cwd = os.path.join(root, *cwd_rel.split('/')) if cwd_rel else root
    out = git(root, *cmd, cwd=cwd)
    toks = out.split('\0')
    if toks and toks[-1] == '':
        toks.pop()
    res = []
    i = 0
    while i < len(toks):
        st = toks[i]
        if not st or st[0] not in 'AMDRCT':
            raise HarnessError('unexpected name-status token %r in %r' % (st, out))
        if st[0] in 'RC':
            res.append((st[0], toks[i + 1], toks[i + 2]))
            i += 3
        else:
            res.append((st[0], toks[i + 1], toks[i + 1]))
            i += 2
    return res


class Contents:
    """content of `path` on one side of a comparison, straight from git / the file system (cached)"""

    def __init__(self, root):
        self.root = root
        self.cache = {}

    def get(self, side, path):
        """side: sha string | 'INDEX' | 'WT'.  Returns text or NULL"""
        key = (side, path)
        if key in self.cache:
            return self.cache[key]
        if side == 'WT':
            full = os.path.join(self.root, *path.split('/'))
            if os.path.isfile(full):
                with open(full, encoding='utf-8', newline='') as fh:
                    val = fh.read()
            else:
                val = NULL
        else:
            spec = (':%s' % path) if side == 'INDEX' else '%s:%s' % (side, path)
            p = subprocess.run(['git', 'show', spec], cwd=self.root, stdout=subprocess.PIPE, stderr=subprocess.PIPE)
            val = p.stdout.decode('utf-8') if p.returncode == 0 else NULL
        self.cache[key] = val
        return val


def expected_entries(root, contents, cwd_rel, kind, refs, sides, paths):
    """Oracle: (required, optional, skipped)
    required: list of dicts {a_path, b_path, a, b, status} for entries whose both paths are notebooks
    optional: entries git reports as a rename between a notebook name and a non-notebook name (the property does not
              say whether these count as notebook files; tolerated either way)
    skipped:  entries for non-notebook files (must not be yielded)"""
    req, opt, skip = [], [], []
    side_a, side_b = sides
    for st, pa, pb in oracle_name_status(root, cwd_rel, kind, refs, paths):
        ent = {'status': st, 'a_path': pa, 'b_path': pb,
               'a': NULL if st == 'A' else contents.get(side_a, pa),
               'b': NULL if st == 'D' else contents.get(side_b, pb)}
        if is_nb(pa) and is_nb(pb):
            req.append(ent)
        elif is_nb(pa) or is_nb(pb):
            opt.append(ent)
        else:
            skip.append(ent)
    return req, opt, skip


def mkscratch():
    """(scratch_dir, repo_root, home) under a fresh temp dir (real paths, outside /repo and /verif)"""
    top = os.path.realpath(tempfile.mkdtemp(prefix='c17-'))
    root = os.path.join(top, 'n1', 'n2', 'n3', 'n4', 'n5', 'n6', 'repo')   # nested: a cwd that escapes upwards stays in the scratch dir
    home = os.path.join(top, 'home')
    os.makedirs(root)
    os.makedirs(home)
    return top, root, home


def rmscratch(top):
    shutil.rmtree(top, ignore_errors=True)
