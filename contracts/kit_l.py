# Sidecar contracts, Kit L (list diff / patch).  Parsed (never imported) by pyvc; the same
# expressions are evaluated at run time by pyvc.runtime against contracts/specs.py.
# Keys are qualified names of real functions in /repo; loop ordinals are in source order.

fields("nbdime.diff_format.SequenceDiffBuilder", _diff="Seq[E]")

# ------------------------------------------------------------------ diff_format: entry constructors

@contract("nbdime.diff_format.op_addrange", properties=["C02", "C11"])
def op_addrange(key: "int", valuelist: "Seq[V]") -> "E":
    ensures(result.op == "addrange" and result.key == key and result.valuelist == valuelist)
    ensures(has_valuelist(result) and not has_length(result) and not has_diff(result) and not has_value(result))


@contract("nbdime.diff_format.op_removerange", properties=["C02", "C11"])
def op_removerange(key: "int", length: "int") -> "E":
    ensures(result.op == "removerange" and result.key == key and result.length == length)
    ensures(has_length(result) and not has_valuelist(result) and not has_diff(result) and not has_value(result))


@contract("nbdime.diff_format.op_patch", properties=["C02", "C11"])
def op_patch(key: "int", diff: "Seq[E]") -> "E":
    ensures(result.op == "patch" and result.key == key and result.diff == diff)
    ensures(has_diff(result) and not has_valuelist(result) and not has_length(result) and not has_value(result))


# ------------------------------------------------------------------ SequenceDiffBuilder

@contract("nbdime.diff_format.SequenceDiffBuilder.__init__", properties=["C02", "C11"])
def __init__(self: "obj:nbdime.diff_format.SequenceDiffBuilder"):
    modifies(self._diff)
    ensures(len(self._diff) == 0)


@contract("nbdime.diff_format.SequenceDiffBuilder.validated", properties=["C02", "C11"])
def validated(self: "obj:nbdime.diff_format.SequenceDiffBuilder") -> "Seq[E]":
    ensures(result == self._diff)


@contract("nbdime.diff_format.SequenceDiffBuilder.append", properties=["C02", "C11"])
def append(self: "obj:nbdime.diff_format.SequenceDiffBuilder", entry: "E"):
    requires(sorted_b(self._diff))
    requires(entry.op == "addrange" or entry.op == "removerange" or entry.op == "patch")
    modifies(self._diff)
    exposes(pos="int")
    ensures(0 <= pos and pos <= len(old(self._diff)))
    ensures(self._diff == old(self._diff)[:pos] + [entry] + old(self._diff)[pos:])
    ensures(all(implies(entry.op == "addrange", old(self._diff)[q].key >= entry.key) and
                implies(entry.op != "addrange", old(self._diff)[q].key > entry.key)
                for q in range(pos, len(old(self._diff)))))
    ensures(pos == len(old(self._diff)) or
            (implies(entry.op == "addrange", old(self._diff)[pos].key >= entry.key) and
             implies(entry.op != "addrange", old(self._diff)[pos].key > entry.key)))
    ensures(pos == 0 or
            (implies(entry.op == "addrange", old(self._diff)[pos - 1].key < entry.key) and
             implies(entry.op != "addrange", old(self._diff)[pos - 1].key <= entry.key)))
    ensures(sorted_b(self._diff))
    with loop(1):
        invariant(0 <= pos and pos <= n and n == len(self._diff))
        invariant(self._diff == old(self._diff))
        invariant(all(self._diff[q].key >= entry.key for q in range(pos, n)))
        decreases(pos)
    with loop(2):
        invariant(0 <= pos and pos <= n and n == len(self._diff))
        invariant(self._diff == old(self._diff))
        invariant(all(self._diff[q].key > entry.key for q in range(pos, n)))
        decreases(pos)


@inline("nbdime.diff_format.SequenceDiffBuilder.patch")
def patch(self: "obj:nbdime.diff_format.SequenceDiffBuilder", key: "int", diff: "Seq[E]"):
    pass


@inline("nbdime.diff_format.SequenceDiffBuilder.addrange")
def addrange(self: "obj:nbdime.diff_format.SequenceDiffBuilder", key: "int", valuelist: "Seq[V]"):
    pass


@inline("nbdime.diff_format.SequenceDiffBuilder.removerange")
def removerange(self: "obj:nbdime.diff_format.SequenceDiffBuilder", key: "int", length: "int"):
    pass


# ------------------------------------------------------------------ patching

@assumed("nbdime.patching.patch", properties=["C02", "C01"])
def patch_(obj: "V", diff: "Seq[E]") -> "V":
    # element-level patch: by definition of the spec vocabulary apply_v IS the documented meaning of
    # patching a value; the dispatcher itself is covered by the bounded stand-in (C02).
    ensures(result == apply_v(obj, diff))


@contract("nbdime.patching.patch_list", properties=["C02", "C01"])
def patch_list(obj: "Seq[V]", diff: "Seq[E]") -> "Seq[V]":
    requires(wf_seq(diff, len(obj)))
    ensures(result == apply_seq(obj, diff))
    local(newobj="Seq[V]")
    with loop(1, index="k"):
        invariant(newobj == rout(obj, diff[:k]))
        invariant(take == rtake(obj, diff[:k]))
