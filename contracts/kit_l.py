# Sidecar contracts, Kit L (list diff / patch).  Parsed (never imported) by pyvc; the same
# expressions are evaluated at run time by pyvc.runtime against contracts/specs.py.
# Keys are qualified names of real functions in /repo; loop ordinals are in source order.

fields("nbdime.diff_format.SequenceDiffBuilder", _diff="Seq[E]")

# ------------------------------------------------------------------ diff_format: entry constructors

@contract("nbdime.diff_format.op_addrange", properties=["C02", "C11"])
def op_addrange(key: "int", valuelist: "Seq[V]") -> "E":
    ensures(result.op == "addrange" and result.key == key and result.valuelist == valuelist)
    ensures(has_valuelist(result) and not has_length(result) and not has_diff(result) and not has_value(result))


@contract("nbdime.diff_format.op_removerange", properties=["C02", "C11"])
def op_removerange(key: "int", length: "int") -> "E":
    ensures(result.op == "removerange" and result.key == key and result.length == length)
    ensures(has_length(result) and not has_valuelist(result) and not has_diff(result) and not has_value(result))


@contract("nbdime.diff_format.op_patch", properties=["C02", "C11"])
def op_patch(key: "int", diff: "Seq[E]") -> "E":
    ensures(result.op == "patch" and result.key == key and result.diff == diff)
    ensures(has_diff(result) and not has_valuelist(result) and not has_length(result) and not has_value(result))


# ------------------------------------------------------------------ SequenceDiffBuilder

@contract("nbdime.diff_format.SequenceDiffBuilder.__init__", properties=["C02", "C11"])
def __init__(self: "obj:nbdime.diff_format.SequenceDiffBuilder"):
    modifies(self._diff)
    ensures(len(self._diff) == 0)


@contract("nbdime.diff_format.SequenceDiffBuilder.validated", properties=["C02", "C11"])
def validated(self: "obj:nbdime.diff_format.SequenceDiffBuilder") -> "Seq[E]":
    ensures(result == self._diff)


@contract("nbdime.diff_format.SequenceDiffBuilder.append", properties=["C02", "C11"])
def append(self: "obj:nbdime.diff_format.SequenceDiffBuilder", entry: "E"):
    requires(sorted_b(self._diff))
    requires(entry.op == "addrange" or entry.op == "removerange" or entry.op == "patch")
    modifies(self._diff)
    exposes(pos="int")
    ensures(0 <= pos and pos <= len(old(self._diff)))
    ensures(self._diff == old(self._diff)[:pos] + [entry] + old(self._diff)[pos:])
    ensures(all(implies(entry.op == "addrange", old(self._diff)[q].key >= entry.key) and
                implies(entry.op != "addrange", old(self._diff)[q].key > entry.key)
                for q in range(pos, len(old(self._diff)))))
    ensures(pos == len(old(self._diff)) or
            (implies(entry.op == "addrange", old(self._diff)[pos].key >= entry.key) and
             implies(entry.op != "addrange", old(self._diff)[pos].key > entry.key)))
    ensures(pos == 0 or
            (implies(entry.op == "addrange", old(self._diff)[pos - 1].key < entry.key) and
             implies(entry.op != "addrange", old(self._diff)[pos - 1].key <= entry.key)))
    ensures(sorted_b(self._diff))
    with loop(1):
        invariant(0 <= pos and pos <= n and n == len(self._diff))
        invariant(self._diff == old(self._diff))
        invariant(all(self._diff[q].key >= entry.key for q in range(pos, n)))
        decreases(pos)
    with loop(2):
        invariant(0 <= pos and pos <= n and n == len(self._diff))
        invariant(self._diff == old(self._diff))
        invariant(all(self._diff[q].key > entry.key for q in range(pos, n)))
        decreases(pos)


@inline("nbdime.diff_format.SequenceDiffBuilder.patch")
def patch(self: "obj:nbdime.diff_format.SequenceDiffBuilder", key: "int", diff: "Seq[E]"):
    pass


@inline("nbdime.diff_format.SequenceDiffBuilder.addrange")
def addrange(self: "obj:nbdime.diff_format.SequenceDiffBuilder", key: "int", valuelist: "Seq[V]"):
    pass


@inline("nbdime.diff_format.SequenceDiffBuilder.removerange")
def removerange(self: "obj:nbdime.diff_format.SequenceDiffBuilder", key: "int", length: "int"):
    pass


# ------------------------------------------------------------------ patching

@contract("nbdime.patching.patch", properties=["C02", "C01"])
def patch_(obj: "V", diff: "Seq[E]") -> "V":
    # the type dispatcher: for a diff that is well formed for the typed value all the way down (wf_v), the result is the
    # documented application apply_v (which on lists / dicts IS apply_seq / apply_map, see the prelude)
    requires(wf_v(obj, diff))
    ensures(result == apply_v(obj, diff))


@assumed("nbdime.patching.patch_string", properties=["C02", "C01"])
def patch_string(obj: "V", diff: "Seq[E]") -> "V":
    # ASSUMED (Kit S, the flattening of a line-based diff to characters, is not built): patching a string with a diff that is
    # well formed for it yields the documented result.  Exercised at run time by the bounded stand-ins.
    requires(is_str(obj))
    ensures(result == apply_v(obj, diff))


@contract("nbdime.patching.patch_list", properties=["C02", "C01"])
def patch_list(obj: "Seq[V]", diff: "Seq[E]") -> "Seq[V]":
    requires(wf_seq(diff, len(obj)))
    # nested diffs are well formed for the items they patch
    requires(all(implies(diff[q].op == "patch", wf_v(obj[diff[q].key], diff[q].diff)) for q in range(len(diff))))
    ensures(result == apply_seq(obj, diff))
    local(newobj="Seq[V]")
    with loop(1, index="k"):
        invariant(newobj == rout(obj, diff[:k]))
        invariant(take == rtake(obj, diff[:k]))


# ------------------------------------------------------------------ lemmas about the Run fold
# (ghost code: proved from the prelude's definitional axioms by the same engine on every run)

@lemma("fold1")
def fold1(A: "Seq[V]", B: "Seq[V]", f: "fn", D: "Seq[E]", S: "Seq[E]"):
    requires(len(S) == 1)
    ensures(rout(A, D + S) == step_out(A, rout(A, D), rtake(A, D), S[0]))
    ensures(rtake(A, D + S) == step_take(rtake(A, D), S[0]))
    ensures(al(A, B, D + S, f) == (al(A, B, D, f) and al_step(A, B, f, rtake(A, D), len(rout(A, D)), S[0])))
    check(S == [S[0]])


@lemma("fold2")
def fold2(A: "Seq[V]", B: "Seq[V]", f: "fn", D: "Seq[E]", S: "Seq[E]"):
    requires(len(S) == 2)
    ensures(rout(A, D + S) == step_out(A, rout(A, D + [S[0]]), rtake(A, D + [S[0]]), S[1]))
    ensures(rtake(A, D + S) == step_take(rtake(A, D + [S[0]]), S[1]))
    ensures(rout(A, D + [S[0]]) == step_out(A, rout(A, D), rtake(A, D), S[0]))
    ensures(rtake(A, D + [S[0]]) == step_take(rtake(A, D), S[0]))
    ensures(al(A, B, D + S, f) == (al(A, B, D, f) and al_step(A, B, f, rtake(A, D), len(rout(A, D)), S[0]) and
                                   al_step(A, B, f, rtake(A, D + [S[0]]), len(rout(A, D + [S[0]])), S[1])))
    check(S == [S[0]] + [S[1]])
    check(D + S == (D + [S[0]]) + [S[1]])


# ------------------------------------------------------------------ lcs -> diff

@contract("nbdime.diffing.lcs.diff_from_lcs", properties=["C02", "C11", "C01"])
def diff_from_lcs(A: "Seq[V]", B: "Seq[V]", A_indices: "Seq[int]", B_indices: "Seq[int]") -> "Seq[E]":
    ghost(compare="fn")
    requires(len(A_indices) == len(B_indices))
    requires(all(0 <= A_indices[r] and A_indices[r] < len(A) and 0 <= B_indices[r] and B_indices[r] < len(B)
                 for r in range(len(A_indices))))
    requires(all(A_indices[r] < A_indices[r + 1] and B_indices[r] < B_indices[r + 1]
                 for r in range(len(A_indices) - 1)))
    requires(all(cmp(compare, A[A_indices[r]], B[B_indices[r]]) for r in range(len(A_indices))))
    ensures(wf_seq(result, len(A)))
    ensures(aligned(A, B, result, compare))
    ensures(all(result[q].op != "patch" for q in range(len(result))))
    finally_check(result == after_loop(1, di._diff) + result[len(after_loop(1, di._diff)):])
    finally_hint(fold1(A, B, compare, after_loop(1, di._diff), result[len(after_loop(1, di._diff)):]))
    finally_hint(fold2(A, B, compare, after_loop(1, di._diff), result[len(after_loop(1, di._diff)):]))
    finally_check(implies(len(result) > len(after_loop(1, di._diff)),
                          al_step(A, B, compare, rtake(A, after_loop(1, di._diff)), len(rout(A, after_loop(1, di._diff))),
                                  result[len(after_loop(1, di._diff))])))
    finally_check(implies(len(result) > len(after_loop(1, di._diff)) + 1,
                          al_step(A, B, compare,
                                  rtake(A, after_loop(1, di._diff) + [result[len(after_loop(1, di._diff))]]),
                                  len(rout(A, after_loop(1, di._diff) + [result[len(after_loop(1, di._diff))]])),
                                  result[len(after_loop(1, di._diff)) + 1])))
    with loop(1):
        invariant(N == len(A) and M == len(B) and llcs == len(A_indices))
        invariant(0 <= x and x <= N and 0 <= y and y <= M)
        invariant(implies(r == 0, x == 0 and y == 0))
        invariant(implies(r > 0, x == A_indices[r - 1] + 1 and y == B_indices[r - 1] + 1))
        invariant(sorted_b(di._diff))
        invariant(all(wf_entry(di._diff[q], N) for q in range(len(di._diff))))
        invariant(all(di._diff[q].op != "patch" for q in range(len(di._diff))))
        invariant(all(ordered(di._diff[p], di._diff[q]) for p in range(len(di._diff)) for q in range(p + 1, len(di._diff))))
        invariant(all(di._diff[q].key + span(di._diff[q]) <= x and di._diff[q].key < x or x == 0 for q in range(len(di._diff))))
        invariant(x > 0 or len(di._diff) == 0)
        invariant(0 <= rtake(A, di._diff) and rtake(A, di._diff) <= x)
        invariant(len(rout(A, di._diff)) + x - rtake(A, di._diff) == y)
        invariant(al(A, B, di._diff, compare))
        invariant(gap_ok(A, B, compare, rtake(A, di._diff), x, len(rout(A, di._diff))))
        finally_check(di._diff == at_head(di._diff) + di._diff[len(at_head(di._diff)):])
        finally_hint(fold1(A, B, compare, at_head(di._diff), di._diff[len(at_head(di._diff)):]))
        finally_hint(fold2(A, B, compare, at_head(di._diff), di._diff[len(at_head(di._diff)):]))
        finally_check(implies(len(di._diff) > len(at_head(di._diff)),
                              al_step(A, B, compare, rtake(A, at_head(di._diff)), len(rout(A, at_head(di._diff))),
                                      di._diff[len(at_head(di._diff))])))
        finally_check(implies(len(di._diff) > len(at_head(di._diff)) + 1,
                              al_step(A, B, compare,
                                      rtake(A, at_head(di._diff) + [di._diff[len(at_head(di._diff))]]),
                                      len(rout(A, at_head(di._diff) + [di._diff[len(at_head(di._diff))]])),
                                      di._diff[len(at_head(di._diff)) + 1])))
        finally_check(0 <= rtake(A, di._diff) and rtake(A, di._diff) <= i)
        finally_check(len(rout(A, di._diff)) + i - rtake(A, di._diff) == j)
        finally_check(cmp(compare, A[i], B[j]))


# ------------------------------------------------------------------ brute-force LCS

@contract("nbdime.diffing.seq_bruteforce.bruteforce_compare_grid", properties=["C02", "C01"])
def bruteforce_compare_grid(A: "Seq[V]", B: "Seq[V]", compare: "fn") -> "Seq[Seq[bool]]":
    ensures(len(result) == len(A))
    ensures(all(len(result[i]) == len(B) for i in range(len(A))))
    ensures(all(result[i][j] == cmp(compare, A[i], B[j]) for i in range(len(A)) for j in range(len(B))))


@contract("nbdime.diffing.seq_bruteforce.bruteforce_llcs_grid", properties=["C02", "C01"])
def bruteforce_llcs_grid(G: "Seq[Seq[bool]]") -> "Seq[Seq[int]]":
    requires(all(len(G[i]) == len(G[0]) for i in range(len(G))))
    ensures(len(result) == len(G) + 1)
    ensures(all(len(result[a]) == (len(G[0]) if len(G) > 0 else 0) + 1 for a in range(len(G) + 1)))
    ensures(all(result[a][b] == (result[a - 1][b - 1] + 1 if G[a - 1][b - 1]
                                 else max(result[a - 1][b], result[a][b - 1]))
                for a in range(1, len(G) + 1) for b in range(1, (len(G[0]) if len(G) > 0 else 0) + 1)))
    with loop(1):
        invariant(N == len(G) and M == (len(G[0]) if N > 0 else 0) and M >= 0)
        invariant(len(R) == N + 1 and all(len(R[a]) == M + 1 for a in range(N + 1)))
        invariant(all(R[a][b] == (R[a - 1][b - 1] + 1 if G[a - 1][b - 1] else max(R[a - 1][b], R[a][b - 1]))
                      for a in range(1, x) for b in range(1, M + 1)))
    with loop(2):
        invariant(N == len(G) and M == (len(G[0]) if N > 0 else 0) and M >= 0 and 1 <= x and x <= N)
        invariant(len(R) == N + 1 and all(len(R[a]) == M + 1 for a in range(N + 1)))
        invariant(all(R[a][b] == (R[a - 1][b - 1] + 1 if G[a - 1][b - 1] else max(R[a - 1][b], R[a][b - 1]))
                      for a in range(1, x) for b in range(1, M + 1)))
        invariant(all(R[x][b] == (R[x - 1][b - 1] + 1 if G[x - 1][b - 1] else max(R[x - 1][b], R[x][b - 1]))
                      for b in range(1, y)))


@contract("nbdime.diffing.seq_bruteforce.bruteforce_lcs_indices", properties=["C02", "C01"])
def bruteforce_lcs_indices(A: "Seq[V]", B: "Seq[V]", G: "Seq[Seq[bool]]", R: "Seq[Seq[int]]",
                           compare: "fn") -> "Tuple[Seq[int],Seq[int]]":
    requires(len(G) == len(A) and all(len(G[i]) == len(B) for i in range(len(A))))
    requires(len(R) == len(A) + 1 and (len(A) == 0 or all(len(R[a]) == len(B) + 1 for a in range(len(A) + 1))))
    requires(all(R[a][b] == (R[a - 1][b - 1] + 1 if G[a - 1][b - 1] else max(R[a - 1][b], R[a][b - 1]))
                 for a in range(1, len(A) + 1) for b in range(1, len(B) + 1)))
    ensures(len(result[0]) == len(result[1]))
    ensures(all(0 <= result[0][r] and result[0][r] < len(A) and 0 <= result[1][r] and result[1][r] < len(B)
                for r in range(len(result[0]))))
    ensures(all(result[0][r] < result[0][r + 1] and result[1][r] < result[1][r + 1]
                for r in range(len(result[0]) - 1)))
    ensures(all(G[result[0][r]][result[1][r]] for r in range(len(result[0]))))
    local(A_indices="Seq[int]", B_indices="Seq[int]")
    with loop(1):
        invariant(N == len(A) and M == len(B) and 0 <= x and x <= N and 0 <= y and y <= M)
        invariant(len(A_indices) == len(B_indices))
        invariant(all(x <= A_indices[r] and A_indices[r] < N and y <= B_indices[r] and B_indices[r] < M
                      for r in range(len(A_indices))))
        invariant(all(A_indices[r] > A_indices[r + 1] and B_indices[r] > B_indices[r + 1]
                      for r in range(len(A_indices) - 1)))
        invariant(all(G[A_indices[r]][B_indices[r]] for r in range(len(A_indices))))
        decreases(x + y)


@contract("nbdime.diffing.seq_bruteforce.diff_sequence_bruteforce", properties=["C02", "C11", "C01"])
def diff_sequence_bruteforce(A: "Seq[V]", B: "Seq[V]", compare: "fn") -> "Seq[E]":
    ensures(wf_seq(result, len(A)))
    ensures(aligned(A, B, result, compare))
    ensures(all(result[q].op != "patch" for q in range(len(result))))


# ------------------------------------------------------------------ generic list differ

@contract("nbdime.diff_utils.count_consumed_symbols", properties=["C02", "C11"])
def count_consumed_symbols(e: "E") -> "Tuple[int,int]":
    requires(e.op == "addrange" or e.op == "removerange" or e.op == "patch")
    requires(implies(e.op == "addrange", has_valuelist(e)) and implies(e.op == "removerange", has_length(e)))
    ensures(implies(e.op == "addrange", result[0] == 0 and result[1] == len(e.valuelist)))
    ensures(implies(e.op == "removerange", result[0] == e.length and result[1] == 0))
    ensures(implies(e.op == "patch", result[0] == 1 and result[1] == 1))


@contract("nbdime.diffing.sequences.diff_sequence", properties=["C02", "C11"])
def diff_sequence(a: "Seq[V]", b: "Seq[V]", compare: "fn") -> "Seq[E]":
    ensures(wf_seq(result, len(a)))
    ensures(aligned(a, b, result, compare))
    ensures(all(result[q].op != "patch" for q in range(len(result))))


@contract("nbdime.diffing.generic._lookup_predicates", properties=["C02", "C12"])
def _lookup_predicates(config: "cfg", path: "path") -> "Seq[fn]":
    # value: both arms return the table entry under the normalised key, which is what preds_at denotes.  The removal of the default
    # entry a defaultdict lookup leaves behind has no value-level effect; that it restores the table exactly is C12's frame obligation.
    ensures(result == preds_at(path))


@lemma("al_prefix")
def al_prefix(A: "Seq[V]", B: "Seq[V]", f: "fn", D: "Seq[E]", k: "int"):
    requires(al(A, B, D, f) and 0 <= k and k <= len(D))
    ensures(al(A, B, D[:k], f))
    m = len(D)
    while m > k:
        m = m - 1
    with loop(1):
        invariant(k <= m and m <= len(D))
        invariant(al(A, B, D[:m], f))
        decreases(m)
        hint(snoc(D, m - 1))


@contract("nbdime.diffing.snakes.compute_snakes_multilevel", properties=["C01", "C11"])
def compute_snakes_multilevel(A: "Seq[V]", B: "Seq[V]", compares: "Seq[fn]", rect: "None" = None, level: "None" = None) -> "Seq[T3]":
    # the entry call (whole lists, coarsest predicate): runs (i, j, n), n >= 1, inside the two lists, strictly monotone and
    # non-overlapping.  Which items the predicates align is irrelevant to the round trip.  Termination (level decreases in the
    # recursive call) is not verified.
    requires(len(compares) >= 1)
    ensures(all(result[q][2] >= 1 and 0 <= result[q][0] and result[q][0] + result[q][2] <= len(A) and
                0 <= result[q][1] and result[q][1] + result[q][2] <= len(B) for q in range(len(result))))
    ensures(all(result[q][0] + result[q][2] <= result[q + 1][0] and result[q][1] + result[q][2] <= result[q + 1][1]
                for q in range(len(result) - 1)))
    ensures(all(implies(result[q][0] <= p and p < result[q][0] + result[q][2], any_cmp(compares, A[p], B[p - result[q][0] + result[q][1]]))
                for q in range(len(result)) for p in range(len(A))))
    local(newsnakes="Seq[T3]")
    with loop(1, index="k"):
        invariant(level >= 1 and level < len(compares))
        invariant(rect[0] <= i0 and i0 <= i1 and rect[1] <= j0 and j0 <= j1 and i1 == rect[2] and j1 == rect[3])
        invariant(implies(k == 0, i0 == rect[0] and j0 == rect[1]))
        invariant(implies(k > 0 and k <= len(snakes), i0 == snakes[k - 1][0] + snakes[k - 1][2] and j0 == snakes[k - 1][1] + snakes[k - 1][2]))
        invariant(implies(k == len(snakes) + 1, i0 == i1 and j0 == j1))
        invariant(all(snakes[q][2] >= 1 and rect[0] <= snakes[q][0] and snakes[q][0] + snakes[q][2] <= rect[2] and
                      rect[1] <= snakes[q][1] and snakes[q][1] + snakes[q][2] <= rect[3] for q in range(len(snakes))))
        invariant(all(snakes[q][0] + snakes[q][2] <= snakes[q + 1][0] and snakes[q][1] + snakes[q][2] <= snakes[q + 1][1]
                      for q in range(len(snakes) - 1)))
        invariant(len(newsnakes) >= 1)
        invariant(all(newsnakes[q][2] >= 0 for q in range(len(newsnakes))))
        invariant(all(newsnakes[q][2] >= 1 for q in range(1, len(newsnakes))))
        invariant(implies(newsnakes[0][2] == 0, newsnakes[0][0] == 0 and newsnakes[0][1] == 0))
        invariant(all(implies(newsnakes[q][2] >= 1, rect[0] <= newsnakes[q][0] and rect[1] <= newsnakes[q][1]) for q in range(len(newsnakes))))
        invariant(all(newsnakes[q][0] + newsnakes[q][2] <= i0 and newsnakes[q][1] + newsnakes[q][2] <= j0 for q in range(len(newsnakes))))
        invariant(all(newsnakes[q][0] + newsnakes[q][2] <= newsnakes[q + 1][0] and newsnakes[q][1] + newsnakes[q][2] <= newsnakes[q + 1][1]
                      for q in range(len(newsnakes) - 1)))
        invariant(all(implies(snakes[q][0] <= p and p < snakes[q][0] + snakes[q][2], any_cmp(compares, A[p], B[p - snakes[q][0] + snakes[q][1]]))
                      for q in range(len(snakes)) for p in range(len(A))))
        invariant(all(implies(newsnakes[q][0] <= p and p < newsnakes[q][0] + newsnakes[q][2],
                              any_cmp(compares, A[p], B[p - newsnakes[q][0] + newsnakes[q][1]]))
                      for q in range(len(newsnakes)) for p in range(len(A))))


# the same real function, verified a second time for the recursive call shape (explicit rectangle and level)
@contract("nbdime.diffing.snakes.compute_snakes_multilevel#rect", properties=["C01", "C11"])
def compute_snakes_multilevel_rect(A: "Seq[V]", B: "Seq[V]", compares: "Seq[fn]", rect: "Tuple[int,int,int,int]", level: "int") -> "Seq[T3]":
    requires(0 <= level and level < len(compares))
    requires(0 <= rect[0] and rect[0] <= rect[2] and rect[2] <= len(A) and 0 <= rect[1] and rect[1] <= rect[3] and rect[3] <= len(B))
    ensures(all(result[q][2] >= 1 and rect[0] <= result[q][0] and result[q][0] + result[q][2] <= rect[2] and
                rect[1] <= result[q][1] and result[q][1] + result[q][2] <= rect[3] for q in range(len(result))))
    ensures(all(result[q][0] + result[q][2] <= result[q + 1][0] and result[q][1] + result[q][2] <= result[q + 1][1]
                for q in range(len(result) - 1)))
    ensures(all(implies(result[q][0] <= p and p < result[q][0] + result[q][2], any_cmp(compares, A[p], B[p - result[q][0] + result[q][1]]))
                for q in range(len(result)) for p in range(len(A))))
    local(newsnakes="Seq[T3]")
    with loop(1, index="k"):
        invariant(level >= 1 and level < len(compares))
        invariant(rect[0] <= i0 and i0 <= i1 and rect[1] <= j0 and j0 <= j1 and i1 == rect[2] and j1 == rect[3])
        invariant(implies(k == 0, i0 == rect[0] and j0 == rect[1]))
        invariant(implies(k > 0 and k <= len(snakes), i0 == snakes[k - 1][0] + snakes[k - 1][2] and j0 == snakes[k - 1][1] + snakes[k - 1][2]))
        invariant(implies(k == len(snakes) + 1, i0 == i1 and j0 == j1))
        invariant(all(snakes[q][2] >= 1 and rect[0] <= snakes[q][0] and snakes[q][0] + snakes[q][2] <= rect[2] and
                      rect[1] <= snakes[q][1] and snakes[q][1] + snakes[q][2] <= rect[3] for q in range(len(snakes))))
        invariant(all(snakes[q][0] + snakes[q][2] <= snakes[q + 1][0] and snakes[q][1] + snakes[q][2] <= snakes[q + 1][1]
                      for q in range(len(snakes) - 1)))
        invariant(len(newsnakes) >= 1)
        invariant(all(newsnakes[q][2] >= 0 for q in range(len(newsnakes))))
        invariant(all(newsnakes[q][2] >= 1 for q in range(1, len(newsnakes))))
        invariant(implies(newsnakes[0][2] == 0, newsnakes[0][0] == 0 and newsnakes[0][1] == 0))
        invariant(all(implies(newsnakes[q][2] >= 1, rect[0] <= newsnakes[q][0] and rect[1] <= newsnakes[q][1]) for q in range(len(newsnakes))))
        invariant(all(newsnakes[q][0] + newsnakes[q][2] <= i0 and newsnakes[q][1] + newsnakes[q][2] <= j0 for q in range(len(newsnakes))))
        invariant(all(newsnakes[q][0] + newsnakes[q][2] <= newsnakes[q + 1][0] and newsnakes[q][1] + newsnakes[q][2] <= newsnakes[q + 1][1]
                      for q in range(len(newsnakes) - 1)))
        invariant(all(implies(snakes[q][0] <= p and p < snakes[q][0] + snakes[q][2], any_cmp(compares, A[p], B[p - snakes[q][0] + snakes[q][1]]))
                      for q in range(len(snakes)) for p in range(len(A))))
        invariant(all(implies(newsnakes[q][0] <= p and p < newsnakes[q][0] + newsnakes[q][2],
                              any_cmp(compares, A[p], B[p - newsnakes[q][0] + newsnakes[q][1]]))
                      for q in range(len(newsnakes)) for p in range(len(A))))


@contract("nbdime.diffing.generic.diff_sequence_multilevel", properties=["C01", "C11"])
def diff_sequence_multilevel(a: "Seq[V]", b: "Seq[V]", path: "path", config: "cfg") -> "Seq[E]":
    requires(differs_ok())
    requires(len(preds_at(path)) >= 1)
    # table contract on the predicates registered for a multilevel path: they only align items of one container type
    requires(preds_diffable(preds_at(path)))
    ensures(wf_seq(result, len(a)))
    ensures(apply_seq(a, result) == b)
    ensures(all(implies(result[q].op == "patch", wf_v(a[result[q].key], result[q].diff)) for q in range(len(result))))


@contract("nbdime.diffing.generic.diff_lists", properties=["C02", "C11", "C01"])
def diff_lists(a: "Seq[V]", b: "Seq[V]", path: "path", config: "cfg", shallow_diff: "None" = None) -> "Seq[E]":
    # table contracts (DESIGN 3): every registered differ patches x into y; the single predicate used
    # for alignment is exact on atomic items (this is the clause operator.__eq__ does not satisfy for
    # bool/int/float -- see known_findings.json)
    requires(differs_ok() and atomic_ok())
    requires(len(preds_at(path)) >= 1)
    requires(implies(len(preds_at(path)) == 1, pred_exact(preds_at(path)[0], path_star(path)) and pred_typed(preds_at(path)[0], path_star(path))))
    requires(implies(len(preds_at(path)) > 1, preds_diffable(preds_at(path))))
    ensures(wf_seq(result, len(a)))
    ensures(apply_seq(a, result) == b)
    # deep well-formedness (C11): the nested diff of every patch entry is well formed for the item it patches
    ensures(all(implies(result[q].op == "patch", wf_v(a[result[q].key], result[q].diff)) for q in range(len(result))))
    with loop(1):
        invariant(M == len(shallow_diff) and len(compares) == 1 and compares == preds_at(path))
        invariant(all(shallow_diff[q].op != "patch" for q in range(len(shallow_diff))))
        invariant(all(implies(di._diff[q].op == "patch", wf_v(a[di._diff[q].key], di._diff[q].diff)) for q in range(len(di._diff))))
        invariant(subpath == path_star(path) and diffit == differs_at(subpath))
        invariant(wf_seq(shallow_diff, len(a)) and aligned(a, b, shallow_diff, compares[0]))
        invariant(implies(ie <= M, i == rtake(a, shallow_diff[:ie]) and j == len(rout(a, shallow_diff[:ie]))))
        invariant(implies(ie == M + 1, i == len(a) and j == len(b)))
        invariant(0 <= i and i <= len(a) and 0 <= j and j <= len(b))
        invariant(0 <= rtake(a, di._diff) and rtake(a, di._diff) <= i)
        invariant(len(rout(a, di._diff)) + i - rtake(a, di._diff) == j)
        invariant(pref_eq(rout(a, di._diff), b))
        invariant(gap_eq(a, b, rtake(a, di._diff), i, len(rout(a, di._diff))))
        invariant(sorted_b(di._diff))
        invariant(all(wf_entry(di._diff[q], len(a)) for q in range(len(di._diff))))
        invariant(all(ordered(di._diff[p], di._diff[q]) for p in range(len(di._diff)) for q in range(p + 1, len(di._diff))))
        invariant(all(di._diff[q].key + span(di._diff[q]) <= i for q in range(len(di._diff))))
        invariant(all(ie == M + 1 or di._diff[q].key < i or (ie > 0 and di._diff[q].key <= shallow_diff[ie - 1].key)
                      for q in range(len(di._diff))))
        hint(al_prefix(a, b, compares[0], shallow_diff, ie + 1))
        hint(al_prefix(a, b, compares[0], shallow_diff, ie))
        hint(snoc(shallow_diff, ie))
        hint(fold1(a, b, compares[0], shallow_diff[:ie], [shallow_diff[ie]]))
        finally_check(implies(ie < M, al(a, b, shallow_diff[:ie + 1], compares[0])))
        finally_check(implies(ie < M, al_step(a, b, compares[0], at_head(i), at_head(j), shallow_diff[ie])))
        finally_check(implies(ie < M, at_head(i) <= shallow_diff[ie].key))
        finally_check(implies(ie < M and ie > 0, ordered(shallow_diff[ie - 1], shallow_diff[ie])))
        finally_check(implies(ie < M, all(after_loop(2, di._diff)[q].key <= shallow_diff[ie].key
                                          for q in range(len(after_loop(2, di._diff))))))
        finally_check(implies(ie < M and shallow_diff[ie].op == "addrange",
                              all(after_loop(2, di._diff)[q].key < shallow_diff[ie].key
                                  for q in range(len(after_loop(2, di._diff))))))
        finally_check(di._diff == after_loop(2, di._diff) + di._diff[len(after_loop(2, di._diff)):])
        finally_hint(fold1(a, b, compares[0], after_loop(2, di._diff), di._diff[len(after_loop(2, di._diff)):]))
    with loop(2):
        invariant(0 <= k and i + k <= len(a) and j + k <= len(b))
        invariant(all(implies(di._diff[q].op == "patch", wf_v(a[di._diff[q].key], di._diff[q].diff)) for q in range(len(di._diff))))
        invariant(0 <= rtake(a, di._diff) and rtake(a, di._diff) <= i + k)
        invariant(len(rout(a, di._diff)) + i + k - rtake(a, di._diff) == j + k)
        invariant(pref_eq(rout(a, di._diff), b))
        invariant(gap_eq(a, b, rtake(a, di._diff), i + k, len(rout(a, di._diff))))
        invariant(sorted_b(di._diff))
        invariant(all(wf_entry(di._diff[q], len(a)) for q in range(len(di._diff))))
        invariant(all(ordered(di._diff[p], di._diff[q]) for p in range(len(di._diff)) for q in range(p + 1, len(di._diff))))
        invariant(all(di._diff[q].key + span(di._diff[q]) <= i + k for q in range(len(di._diff))))
        invariant(all(di._diff[q].key < i + k or (ie > 0 and di._diff[q].key <= shallow_diff[ie - 1].key)
                      for q in range(len(di._diff))))
        finally_check(di._diff == at_head(di._diff) + di._diff[len(at_head(di._diff)):])
        finally_hint(fold1(a, b, compares[0], at_head(di._diff), di._diff[len(at_head(di._diff)):]))
        finally_check(cmp(compares[0], a[i + k], b[j + k]))
        finally_check(a[i + k] == b[j + k] or len(di._diff) > len(at_head(di._diff)))


# ------------------------------------------------------------------ snakes -> diff (notebook cells / outputs path)

@contract("nbdime.diffing.snakes.compute_diff_from_snakes", properties=["C01", "C11"])
def compute_diff_from_snakes(a: "Seq[V]", b: "Seq[V]", snakes: "Seq[T3]", path: "path", config: "cfg") -> "Seq[E]":
    # snakes: (i, j, n) runs of aligned items, monotone and inside the two lists; every aligned pair is handed to
    # the differ registered for the item path (table contract differs_ok)
    requires(differs_ok())
    requires(all(snakes[q][2] >= 1 and 0 <= snakes[q][0] and snakes[q][0] + snakes[q][2] <= len(a) and
                 0 <= snakes[q][1] and snakes[q][1] + snakes[q][2] <= len(b) for q in range(len(snakes))))
    requires(all(snakes[q][0] + snakes[q][2] <= snakes[q + 1][0] and snakes[q][1] + snakes[q][2] <= snakes[q + 1][1]
                 for q in range(len(snakes) - 1)))
    # every aligned pair is of one container type (list/list, dict/dict, str/str): the differ is called on all of them
    requires(all(implies(snakes[q][0] <= p and p < snakes[q][0] + snakes[q][2], diffable(a[p], b[p - snakes[q][0] + snakes[q][1]]))
                 for q in range(len(snakes)) for p in range(len(a))))
    ensures(wf_seq(result, len(a)))
    ensures(apply_seq(a, result) == b)
    ensures(all(implies(result[q].op == "patch", wf_v(a[result[q].key], result[q].diff)) for q in range(len(result))))
    with loop(1, index="s"):
        invariant(all(implies(di._diff[q].op == "patch", wf_v(a[di._diff[q].key], di._diff[q].diff)) for q in range(len(di._diff))))
        invariant(i1 == len(a) and j1 == len(b) and subpath == path_star(path) and diffit == differs_at(subpath))
        invariant(0 <= i0 and i0 <= len(a) and 0 <= j0 and j0 <= len(b))
        invariant(implies(s == 0, i0 == 0 and j0 == 0))
        invariant(implies(s > 0 and s <= len(snakes), i0 == snakes[s - 1][0] + snakes[s - 1][2] and j0 == snakes[s - 1][1] + snakes[s - 1][2]))
        invariant(implies(s == len(snakes) + 1, i0 == len(a) and j0 == len(b)))
        invariant(0 <= rtake(a, di._diff) and rtake(a, di._diff) <= i0)
        invariant(len(rout(a, di._diff)) + i0 - rtake(a, di._diff) == j0)
        invariant(pref_eq(rout(a, di._diff), b))
        invariant(gap_eq(a, b, rtake(a, di._diff), i0, len(rout(a, di._diff))))
        invariant(sorted_b(di._diff))
        invariant(all(wf_entry(di._diff[q], len(a)) for q in range(len(di._diff))))
        invariant(all(ordered(di._diff[p], di._diff[q]) for p in range(len(di._diff)) for q in range(p + 1, len(di._diff))))
        invariant(all(di._diff[q].key + span(di._diff[q]) <= i0 and (di._diff[q].key < i0 or s == len(snakes) + 1) for q in range(len(di._diff))))
    with loop(2):
        entry_check(di._diff == at_head(di._diff) + di._diff[len(at_head(di._diff)):])
        entry_hint(fold1(a, b, diffit, at_head(di._diff), di._diff[len(at_head(di._diff)):]))
        entry_hint(fold2(a, b, diffit, at_head(di._diff), di._diff[len(at_head(di._diff)):]))
        # stepping stones for pref_eq: the kept items before i0 and the inserted items are (pointwise) the next items of b
        entry_check(all(a[rtake(a, at_head(di._diff)):i0][u] == b[len(rout(a, at_head(di._diff))) + u]
                        for u in range(i0 - rtake(a, at_head(di._diff)))))
        entry_check(pref_eq(rout(a, at_head(di._diff)) + a[rtake(a, at_head(di._diff)):i0], b))
        entry_check(all(b[j0:j][u] == b[j0 + u] for u in range(j - j0)))
        entry_check(pref_eq(rout(a, at_head(di._diff)) + a[rtake(a, at_head(di._diff)):i0] + b[j0:j], b))
        entry_check(0 <= rtake(a, di._diff) and rtake(a, di._diff) <= i)
        entry_check(len(rout(a, di._diff)) + i - rtake(a, di._diff) == j)
        entry_check(pref_eq(rout(a, di._diff), b))
        invariant(0 <= k and i + k <= len(a) and j + k <= len(b))
        invariant(all(implies(di._diff[q].op == "patch", wf_v(a[di._diff[q].key], di._diff[q].diff)) for q in range(len(di._diff))))
        invariant(all(diffable(a[i + u], b[j + u]) for u in range(n)))
        invariant(0 <= rtake(a, di._diff) and rtake(a, di._diff) <= i + k)
        invariant(len(rout(a, di._diff)) + i + k - rtake(a, di._diff) == j + k)
        invariant(pref_eq(rout(a, di._diff), b))
        invariant(gap_eq(a, b, rtake(a, di._diff), i + k, len(rout(a, di._diff))))
        invariant(sorted_b(di._diff))
        invariant(all(wf_entry(di._diff[q], len(a)) for q in range(len(di._diff))))
        invariant(all(ordered(di._diff[p], di._diff[q]) for p in range(len(di._diff)) for q in range(p + 1, len(di._diff))))
        invariant(all(di._diff[q].key + span(di._diff[q]) <= i + k for q in range(len(di._diff))))
        invariant(all(di._diff[q].key <= i or di._diff[q].key < i + k for q in range(len(di._diff))))
        finally_check(di._diff == at_head(di._diff) + di._diff[len(at_head(di._diff)):])
        finally_hint(fold1(a, b, diffit, at_head(di._diff), di._diff[len(at_head(di._diff)):]))
        finally_check(a[i + k] == b[j + k] or len(di._diff) > len(at_head(di._diff)))
        finally_check(all(a[rtake(a, at_head(di._diff)):i + k][u] == b[len(rout(a, at_head(di._diff))) + u]
                          for u in range(i + k - rtake(a, at_head(di._diff)))))
        finally_check(pref_eq(rout(a, at_head(di._diff)) + a[rtake(a, at_head(di._diff)):i + k], b))
        finally_check(implies(len(cd) > 0, apply_v(aval, cd) == b[j + k]))
        finally_check(implies(len(cd) > 0, pref_eq(rout(a, at_head(di._diff)) + a[rtake(a, at_head(di._diff)):i + k] + [apply_v(aval, cd)], b)))
        finally_check(pref_eq(rout(a, di._diff), b))


# ------------------------------------------------------------------ snakes (replaces the formerly assumed shape contract)

@contract("nbdime.diffing.seq_bruteforce.bruteforce_compute_snakes", properties=["C01", "C11"])
def bruteforce_compute_snakes(A: "Seq[V]", B: "Seq[V]", compare: "fn") -> "Seq[T3]":
    # runs (i, j, n), n >= 1, inside the two lists, strictly monotone and non-overlapping, every aligned pair compare-true
    # (stated per position p of A: p lies in run q  =>  compare(A[p], B[p - i_q + j_q]))
    ensures(all(result[q][2] >= 1 and 0 <= result[q][0] and result[q][0] + result[q][2] <= len(A) and
                0 <= result[q][1] and result[q][1] + result[q][2] <= len(B) for q in range(len(result))))
    ensures(all(result[q][0] + result[q][2] <= result[q + 1][0] and result[q][1] + result[q][2] <= result[q + 1][1]
                for q in range(len(result) - 1)))
    ensures(all(implies(result[q][0] <= p and p < result[q][0] + result[q][2], cmp(compare, A[p], B[p - result[q][0] + result[q][1]]))
                for q in range(len(result)) for p in range(len(A))))
    local(snakes="Seq[T3]")
    with loop(1, index="r"):
        invariant(len(snakes) >= 1)
        invariant(all(snakes[q][2] >= 0 and 0 <= snakes[q][0] and snakes[q][0] + snakes[q][2] <= len(A) and
                      0 <= snakes[q][1] and snakes[q][1] + snakes[q][2] <= len(B) for q in range(len(snakes))))
        invariant(all(snakes[q][2] >= 1 for q in range(1, len(snakes))))
        invariant(implies(snakes[0][2] == 0, snakes[0][0] == 0 and snakes[0][1] == 0))
        invariant(all(snakes[q][0] + snakes[q][2] <= snakes[q + 1][0] and snakes[q][1] + snakes[q][2] <= snakes[q + 1][1]
                      for q in range(len(snakes) - 1)))
        invariant(implies(r == 0, len(snakes) == 1 and snakes[0][2] == 0))
        invariant(implies(r > 0, snakes[len(snakes) - 1][0] + snakes[len(snakes) - 1][2] <= A_indices[r - 1] + 1 and
                                 snakes[len(snakes) - 1][1] + snakes[len(snakes) - 1][2] <= B_indices[r - 1] + 1))
        invariant(all(implies(snakes[q][0] <= p and p < snakes[q][0] + snakes[q][2], cmp(compare, A[p], B[p - snakes[q][0] + snakes[q][1]]))
                      for q in range(len(snakes)) for p in range(len(A))))


@contract("nbdime.diffing.snakes.compute_snakes", properties=["C01", "C11"])
def compute_snakes(A: "Seq[V]", B: "Seq[V]", compare: "fn", rect: "Tuple[int,int,int,int]") -> "Seq[T3]":
    requires(0 <= rect[0] and rect[0] <= rect[2] and rect[2] <= len(A) and 0 <= rect[1] and rect[1] <= rect[3] and rect[3] <= len(B))
    ensures(all(result[q][2] >= 1 and rect[0] <= result[q][0] and result[q][0] + result[q][2] <= rect[2] and
                rect[1] <= result[q][1] and result[q][1] + result[q][2] <= rect[3] for q in range(len(result))))
    ensures(all(result[q][0] + result[q][2] <= result[q + 1][0] and result[q][1] + result[q][2] <= result[q + 1][1]
                for q in range(len(result) - 1)))
    ensures(all(implies(result[q][0] <= p and p < result[q][0] + result[q][2], cmp(compare, A[p], B[p - result[q][0] + result[q][1]]))
                for q in range(len(result)) for p in range(len(A))))
    with after_assign("snakes", 1):
        let(S0=snakes)
    with after_assign("snakes", 2):
        check(len(snakes) == len(S0) and all(snakes[q][0] == S0[q][0] + i0 and snakes[q][1] == S0[q][1] + j0 and snakes[q][2] == S0[q][2]
                                            for q in range(len(snakes))))
        check(all(implies(snakes[q][0] <= p and p < snakes[q][0] + snakes[q][2],
                          A[i0:i1][p - i0] == A[p] and B[j0:j1][p - i0 - S0[q][0] + S0[q][1]] == B[p - snakes[q][0] + snakes[q][1]])
                  for q in range(len(snakes)) for p in range(len(A))))
        check(all(implies(snakes[q][0] <= p and p < snakes[q][0] + snakes[q][2], cmp(compare, A[p], B[p - snakes[q][0] + snakes[q][1]]))
                  for q in range(len(snakes)) for p in range(len(A))))
