"""Executable twins of the spec vocabulary (pyvc/theory.py), written from docs/source/diffing.rst:
keys are relative to the base sequence; removerange deletes A[key:key+length]; addrange inserts
before A[key]; patch patches the value at key; mapping ops add/remove/replace/patch.

Used by the run-time form of the contracts (refuter, CPython cross-check, bounded stand-ins) and as
the *independent* implementation of the documented diff format (`apply`): nothing here imports
nbdime's own patch code.
"""
import json

SEQ_OPS = ('addrange', 'removerange', 'patch')
MAP_OPS = ('add', 'remove', 'replace', 'patch')


class SpecError(Exception):
    "the diff is not applicable to the object under the documented format"


def jsoneq(x, y):
    "JSON identity: same serialisation (True != 1 != 1.0)"
    if isinstance(x, dict) and isinstance(y, dict):
        return x.keys() == y.keys() and all(jsoneq(x[k], y[k]) for k in x)
    if isinstance(x, (list, tuple)) and isinstance(y, (list, tuple)):
        return len(x) == len(y) and all(jsoneq(p, q) for p, q in zip(x, y))
    if isinstance(x, (dict, list, tuple)) or isinstance(y, (dict, list, tuple)):
        return False
    return type(x) is type(y) and x == y


def canon(x):
    return json.dumps(x, sort_keys=True, ensure_ascii=False, default=str)


def _get(e, name):
    return e[name]


def span(e):
    op = _get(e, 'op')
    return _get(e, 'length') if op == 'removerange' else (1 if op == 'patch' else 0)


def step(A, out, take, e):
    key = _get(e, 'key')
    op = _get(e, 'op')
    out = out + list(A[take:key]) if key >= 0 and take >= 0 else out + list(A[take:key])
    if op == 'addrange':
        out = out + list(_get(e, 'valuelist'))
    elif op == 'patch':
        out = out + [apply(A[key], _get(e, 'diff'))]
    return out, max(take, key + span(e))


def run(A, D):
    out, take = [], 0
    for e in D:
        out, take = step(A, out, take, e)
    return out, take


def rout(A, D):
    return run(A, D)[0]


def rtake(A, D):
    return run(A, D)[1]


def apply_seq(A, D):
    out, take = run(A, D)
    return out + list(A[take:len(A)])


def apply_v(x, D):
    return apply(x, D)


def wf_entry(e, n):
    op, key = e.get('op'), e.get('key')
    if not isinstance(key, int) or isinstance(key, bool) or key < 0 or op not in SEQ_OPS:
        return False
    if op == 'addrange':
        return key <= n and 'valuelist' in e and len(e['valuelist']) >= 1
    if op == 'removerange':
        return 'length' in e and isinstance(e['length'], int) and e['length'] >= 1 and key + e['length'] <= n
    return 'diff' in e and key < n and len(e['diff']) >= 1


def ordered(e, e2):
    if not e['key'] <= e2['key']:
        return False
    if e['op'] != 'addrange' and not e['key'] + span(e) <= e2['key']:
        return False
    if e['key'] == e2['key'] and not (e['op'] == 'addrange' and e2['op'] != 'addrange'):
        return False
    return True


def wf_seq(D, n):
    return all(wf_entry(e, n) for e in D) and \
        all(ordered(D[i], D[j]) for i in range(len(D)) for j in range(i + 1, len(D)))


def sorted_b(D):
    return all(D[i]['key'] <= D[j]['key'] and
               (not (D[i]['key'] == D[j]['key'] and D[j]['op'] == 'addrange') or D[i]['op'] == 'addrange')
               for i in range(len(D)) for j in range(i + 1, len(D)))


def wf_map(D, obj):
    keys = [e.get('key') for e in D]
    if len(set(keys)) != len(keys):
        return False
    for e in D:
        op, key = e.get('op'), e.get('key')
        if not isinstance(key, str) or op not in MAP_OPS:
            return False
        if op == 'add':
            if key in obj or 'value' not in e:
                return False
        else:
            if key not in obj:
                return False
            if op == 'replace' and 'value' not in e:
                return False
            if op == 'patch' and not ('diff' in e and len(e['diff']) >= 1):
                return False
    return True


def apply_map(obj, D):
    out = {}
    named = {e['key']: e for e in D}
    for k, v in obj.items():
        e = named.get(k)
        if e is None:
            out[k] = v
        elif e['op'] == 'remove':
            continue
        elif e['op'] == 'replace':
            out[k] = e['value']
        elif e['op'] == 'patch':
            out[k] = apply(v, e['diff'])
        else:
            raise SpecError('add of present key %r' % k)
    for e in D:
        if e['op'] == 'add':
            out[e['key']] = e['value']
        elif e['key'] not in obj:
            raise SpecError('%s of absent key %r' % (e['op'], e['key']))
    return out


def wf_deep(obj, D):
    """Deep well-formedness of a diff for the object it was computed from (C11)."""
    if isinstance(obj, dict):
        if not wf_map(D, obj):
            return False
        return all(e['op'] != 'patch' or (isinstance(obj[e['key']], (dict, list, str)) and wf_deep(obj[e['key']], e['diff']))
                   for e in D)
    if isinstance(obj, str):
        lines = obj.splitlines(True)
        if not wf_seq(D, len(lines)):
            return False
        for e in D:
            if e['op'] == 'patch':
                if not wf_seq(e['diff'], len(lines[e['key']])):
                    return False
                if any(c['op'] == 'patch' for c in e['diff']):
                    return False
        return True
    if isinstance(obj, list):
        if not wf_seq(D, len(obj)):
            return False
        return all(e['op'] != 'patch' or (isinstance(obj[e['key']], (dict, list, str)) and wf_deep(obj[e['key']], e['diff']))
                   for e in D)
    return False


def apply_str(s, D):
    """Strings: a line-based diff over s.splitlines(True); a patch entry carries a char-based diff of
    that line (docs: 'strings are diffed line by line, lines by character')."""
    lines = s.splitlines(True)
    out, take = [], 0
    for e in D:
        key, op = e['key'], e['op']
        out.extend(lines[take:key])
        if op == 'addrange':
            vl = e['valuelist']
            out.extend(vl if not isinstance(vl, str) else [vl])
        elif op == 'patch':
            out.append(''.join(apply_seq(list(lines[key]), [_charentry(c) for c in e['diff']])))
        take = max(take, key + span(e))
    out.extend(lines[take:])
    return ''.join(out)


def _charentry(c):
    if c['op'] == 'addrange':
        return {'op': 'addrange', 'key': c['key'], 'valuelist': list(c['valuelist'])}
    return c


def apply(obj, D):
    "independent implementation of the documented patch semantics"
    if isinstance(obj, dict):
        return apply_map(obj, D)
    if isinstance(obj, str):
        return apply_str(obj, D)
    if isinstance(obj, (list, tuple)):
        return apply_seq(list(obj), D)
    raise SpecError('cannot patch %s' % type(obj).__name__)


# -- alignment (DESIGN 3) -----------------------------------------------------------------

def gap_ok(A, B, f, t, x, o):
    return all(0 <= o + u - t < len(B) and 0 <= u < len(A) and bool(f(A[u], B[o + u - t])) for u in range(t, x))


def gap_eq(A, B, t, x, o):
    return all(0 <= o + u - t < len(B) and jsoneq(A[u], B[o + u - t]) for u in range(t, x))


def pref_eq(R, B):
    return len(R) <= len(B) and all(jsoneq(R[u], B[u]) for u in range(len(R)))


def al_step(A, B, f, t, ol, e):
    key = e['key']
    if not (t <= key and ol + key - t <= len(B) and gap_ok(A, B, f, t, key, ol)):
        return False
    if e['op'] not in ('addrange', 'removerange'):
        return False
    if e['op'] == 'addrange':
        off = ol + key - t
        vl = list(e['valuelist'])
        return off + len(vl) <= len(B) and jsoneq(vl, list(B[off:off + len(vl)]))
    return True


def al(A, B, D, f):
    out, take = [], 0
    for e in D:
        if not al_step(A, B, f, take, len(out), e):
            return False
        out, take = step(A, out, take, e)
    return True


def aligned(A, B, D, f):
    if not al(A, B, D, f):
        return False
    out, take = run(A, D)
    return take <= len(A) and gap_ok(A, B, f, take, len(A), len(out)) and len(out) + len(A) - take == len(B)


def has_valuelist(e):
    return 'valuelist' in e


def has_length(e):
    return 'length' in e


def has_diff(e):
    return 'diff' in e


def has_value(e):
    return 'value' in e


def implies(a, b):
    return (not a) or bool(b)


def pyeq(x, y):
    return x == y


def cmp(f, x, y):
    return bool(f(x, y))


# ---- run-time twins of the mapping vocabulary (Kit M) ----
# STR: the universe quantified string variables range over at run time (the generators draw keys from it)
STR = ('a', 'b', 'c', 'zz')


def entry_for(D, s):
    for i, e in enumerate(D):
        if _get(e, 'key') == s:
            return i
    return -1


def keys_of(m):
    return list(m.keys())


ekeys_of = keys_of


def enum_keys(ks):
    return list(ks)


def enum_pos(ks, s):
    ks = list(ks)
    return ks.index(s) if s in ks else -1


def sorted_keys(ks):
    return sorted(ks)


def key_pos(ks, s):
    ks = sorted(ks)
    return ks.index(s) if s in ks else -1


def kdiff(x, y):
    return [k for k in x if k not in y]


def kinter(x, y):
    return [k for k in x if k in y]


def keyed(em):
    return all(_get(e, 'key') == k for k, e in em.items())


def em_put(em, k, e):
    out = dict(em)
    out[k] = e
    return out


def same_type(x, y):
    return type(x) is type(y)


def path_norm(p):
    return p or '/'


def path_key(p, s):
    return '/'.join((p, s))


# ---- typed values (container tags) and the table contracts that mention them ----
def is_list(v):
    return isinstance(v, list)


def is_dict(v):
    return isinstance(v, dict)


def is_str(v):
    return isinstance(v, str)


def as_list(v):
    return v


def of_list(s):
    return s


def diffable(v, w):
    return (is_list(v) and is_list(w)) or (is_dict(v) and is_dict(w)) or (is_str(v) and is_str(w))


def any_cmp(F, x, y):
    return any(f(x, y) for f in F)


def as_map(v):
    return v


def of_map(m):
    return m


def wf_v(v, D):
    "a diff well formed for the typed value v, all the way down (run-time twin of the prelude's wf_v)"
    return wf_deep(v, D)
