"""Tier E sidecar contracts: effect tables (assumed behaviour of callees / externals, every entry is listed
in the evidence as an assumption) and path postconditions for the real functions of /repo.

A path postcondition receives a pyvc.effects.Path and returns None (not applicable to this path) or
(ok, detail).  `path.entails(formula)` discharges a formula under the path condition with z3."""
import z3

from pyvc.effects import as_py, truth, intof, const, Sym

QUIET = {'effect': None, 'raises': False}

COMMON = {
    'nbdime.log.logger.*': QUIET, '<obj>.debug': QUIET, '<obj>.info': QUIET, '<obj>.warning': QUIET, '<obj>.error': QUIET,
    'nbdime.log.*': QUIET, 'builtins.len': QUIET, 'builtins.isinstance': QUIET, 'builtins.str': QUIET, 'builtins.bool': QUIET,
    'os.path.exists': {'effect': None, 'raises': False, 'returns': 'bool'},
    'os.path.join': {'effect': None, 'raises': False},
    '<obj>.getvalue': QUIET, '<obj>.format': QUIET, '<obj>.get': QUIET, '<obj>.append': QUIET,
}

# ------------------------------------------------------------------------------------------ C08

MAIN_MERGE = dict(COMMON, **{
    'nbdime.args.process_diff_flags': {'effect': 'configure', 'raises': True, 'returns': 'none'},
    'nbdime.nbmergeapp._handle_agreed_deletion': {'effect': 'agreed_deletion', 'raises': True, 'returns': 'none'},
    'nbdime.utils.read_notebook': {'effect': 'read', 'raises': True},
    'nbdime.merging.merge_notebooks': {'effect': 'merge', 'raises': True, 'effect_on_raise': False},
    'io.open': {'effect': 'open_out', 'raises': True, 'effect_on_raise': False},
    'json.dump': {'effect': 'write_decisions', 'raises': True, 'returns': 'none'},
    '<outfile>.write': {'effect': 'write_text', 'raises': True, 'returns': 'none'},
    '<obj>.write': {'effect': 'write_text', 'raises': True, 'returns': 'none'},
    'nbformat.write': {'effect': 'write_merged', 'raises': True, 'returns': 'none', 'effect_partial': 'write_merged_partial'},
    'nbdime.args.prettyprint_config_from_args': {'effect': None, 'raises': True},
    'nbdime.prettyprint.pretty_print_merge_decisions': {'effect': 'print_decisions', 'raises': True, 'returns': 'none'},
    'io.StringIO': {'effect': None, 'raises': False},
    # leaf helper (looks at sys.stdout.encoding / the locale only; its own try/except covers codecs.lookup): assumed effect-free and total
    'nbdime.nbmergeapp._stdout_is_utf8': {'effect': None, 'raises': False},
})

OUTPUT_EFFECTS = ('open_out', 'write_decisions', 'write_text', 'write_merged', 'write_merged_partial')


def _eff(path, name):
    return [e for e in path.effects if e.name == name]


def mm_status_iff_conflict(path):
    "return status is 0 exactly when no decision is conflicted (on paths that reach the merge)"
    if path.outcome != 'return' or not _eff(path, 'merge'):
        return None
    conflicted = path.env.get('conflicted')
    if conflicted is None:
        # the obligation is stated over the local that holds the conflicted decisions; under another name it makes no statement
        raise _oos('no local `conflicted` on a path that merged (renamed?)')
    ret = path.value
    from pyvc.effects import PathExec
    zero = (ret.t == 0) if ret.kind == 'int' else (as_py(ret) == as_py(const(0)))
    ok, model, verdict = path.entails(zero == z3.Not(truth(conflicted)))
    return ok, 'status==0 <=> not conflicted: %s' % verdict


def mm_conflicted_is_from_merge(path):
    "`conflicted` is computed from the decisions returned by this run's merge_notebooks call"
    if path.outcome != 'return' or not _eff(path, 'merge'):
        return None
    m = _eff(path, 'merge')[0]
    dec = path.env.get('decisions')
    if dec is None:
        raise _oos('no local `decisions` on a path that merged (renamed?)')
    import z3 as _z
    unpack1 = _z.Function('unpack.1', dec.t.sort(), dec.t.sort()) if dec is not None and dec.kind == 'py' else None
    ok = dec is not None and dec.kind == 'py' and dec.t.eq(unpack1(as_py(m.result)))
    return ok, 'decisions is the second component of merge_notebooks(...)'


def mm_merge_inputs(path):
    "merge_notebooks is applied to the three notebooks read from args.base, args.local, args.remote (each read by its own read_notebook call) and to args"
    ms = _eff(path, 'merge')
    if not ms and not any(e.name == 'merge' for e in path.effects):
        # the merge call may have raised (its effect is dropped on the exceptional edge): nothing to check
        return None
    m = ms[0]
    reads = _eff(path, 'read')
    for pos, var in ((0, 'bfn'), (1, 'lfn'), (2, 'rfn')):
        src = [r for r in reads if as_py(r.result).eq(as_py(m.args[pos]))]
        if len(src) != 1:
            return False, 'argument %d of merge_notebooks is not the result of exactly one read_notebook call' % pos
        if not as_py(src[0].args[0]).eq(as_py(path.env[var])):
            return False, 'argument %d of merge_notebooks was not read from %s' % (pos, var)
    if len(m.args) < 4 or not as_py(m.args[3]).eq(as_py(path.env['args'])):
        return False, 'merge_notebooks is not given the parsed arguments'
    from pyvc.effects import attr_fn
    args = path.env['args']
    for var, attr in (('bfn', 'base'), ('lfn', 'local'), ('rfn', 'remote'), ('mfn', 'out')):
        if not as_py(path.env[var]).eq(attr_fn[attr](as_py(args))):
            return False, '%s is not args.%s' % (var, attr)
    return True, 'merge_notebooks(read(args.base), read(args.local), read(args.remote), args)'


def mm_early_exit(path):
    "paths that return without merging: missing input -> status 1 and no effect; agreed deletion -> status 0"
    if path.outcome != 'return' or _eff(path, 'merge'):
        return None
    names = [e.name for e in path.effects if e.name not in ('configure',)]
    ret = path.value
    if names == []:
        ok, _, v = path.entails((ret.t == 1) if ret.kind == 'int' else as_py(ret) == as_py(const(1)))
        return ok, 'no-effect exit returns 1 (%s)' % v
    if names == ['agreed_deletion']:
        ok, _, v = path.entails((ret.t == 0) if ret.kind == 'int' else as_py(ret) == as_py(const(0)))
        return ok, 'agreed deletion returns 0 (%s)' % v
    return False, 'return without merge after effects %r' % names


def mm_output_after_merge(path):
    "no effect on the output location happens before merge_notebooks has returned (any outcome)"
    seen_merge = False
    for e in path.effects:
        if e.name == 'merge':
            seen_merge = True
        if e.name in OUTPUT_EFFECTS and not seen_merge:
            return False, 'output effect %s at line %s precedes the merge' % (e.name, e.node.lineno)
    return True, 'output effects only after merge'


def mm_complete_output(path):
    "every returning path that merged (and was not asked for decisions) ends with one complete write of the merged notebook to the designated output"
    if path.outcome != 'return' or not _eff(path, 'merge'):
        return None
    args = path.env['args']
    import z3 as _z
    from pyvc.effects import attr_fn, Py
    dec_flag = truth(Sym('py', attr_fn['decisions'](as_py(args)))) if 'decisions' in attr_fn else None
    if dec_flag is not None and not path.possible(_z.Not(dec_flag)):
        return None                      # --decisions: by request the decision list replaces the notebook output
    writes = _eff(path, 'write_merged')
    if len(writes) != 1:
        return False, '%d complete writes of the merged notebook on a returning path' % len(writes)
    w = writes[0]
    if path.effects[-1] is not w and any(e.name in OUTPUT_EFFECTS for e in path.effects[path.effects.index(w) + 1:]):
        return False, 'output touched again after the write'
    m = _eff(path, 'merge')[0]
    unpack0 = _z.Function('unpack.0', Py, Py)
    if not as_py(w.args[0]).eq(unpack0(as_py(m.result))):
        return False, 'the notebook written is not the one returned by merge_notebooks'
    mfn = path.env['mfn']
    tgt = w.args[1]
    ok_target = as_py(tgt).eq(as_py(mfn)) or (tgt.origin == 'global:sys.stdout')
    if not ok_target:
        return False, 'write target is neither args.out nor sys.stdout'
    if tgt.origin == 'global:sys.stdout':
        ok, _, v = path.entails(_z.Not(truth(mfn)))
        return ok, 'stdout only when no --out (%s)' % v
    ok, _, v = path.entails(truth(mfn))
    return ok, 'file written only when --out given (%s)' % v


def no_swallowed_exception(path):
    "no exception handler is entered: every failure propagates to the caller (non-zero exit via the interpreter)"
    ex = _eff(path, 'except')
    if ex:
        return False, 'exception %s caught at line %s' % (ex[0].args[1].t, ex[0].node.lineno)
    return True, 'no handler entered'


def raise_is_failure(path):
    "a path that ends in an exception never returns a status (trivially not success); recorded for the count"
    if path.outcome != 'raise':
        return None
    return True, 'propagates %s' % (path.value[0],)


MAIN_MERGE_POST = [
    ('status-iff-conflict', mm_status_iff_conflict), ('conflicted-from-merge', mm_conflicted_is_from_merge),
    ('merge-inputs', mm_merge_inputs), ('early-exit', mm_early_exit), ('output-after-merge', mm_output_after_merge), ('complete-output', mm_complete_output),
    ('no-swallowed-exception', no_swallowed_exception), ('raise-is-failure', raise_is_failure),
]

MERGEDRIVER = dict(COMMON, **{
    'nbdime.nbmergeapp.main_merge': {'effect': 'main_merge', 'raises': True},
    'nbdime.vcs.git.mergedriver.nbmergeapp.main_merge': {'effect': 'main_merge', 'raises': True},
    'nbdime.args.ConfigBackedParser': {'effect': None, 'raises': True},
    '<parser>.add_subparsers': QUIET, '<subparsers>.add_parser': QUIET, '<merge_parser>.add_argument': QUIET,
    'nbdime.args.add_generic_args': QUIET, 'nbdime.args.add_diff_args': QUIET, 'nbdime.args.add_merge_args': QUIET,
    'nbdime.args.add_filename_args': QUIET, 'nbdime.args.add_git_config_subcommand': QUIET,
    '<parser>.parse_args': {'effect': 'parse', 'raises': True},
    '<parser>.print_help': {'effect': 'help', 'raises': False, 'returns': 'none'},
    '<opts>.config_func': {'effect': 'config', 'raises': True, 'returns': 'none'},
})


def md_merge_branch(path):
    "subcommand 'merge': out := local, decisions := False, and the status returned is main_merge's, unchanged"
    calls = _eff(path, 'main_merge')
    if not calls:
        return None
    if path.outcome != 'return':
        return True, 'propagates'
    c = calls[0]
    sets = {e.args[1].t: e for e in path.effects if e.name == 'setattr'}
    from pyvc.effects import attr_fn
    opts = path.env['opts']
    if 'out' not in sets or not as_py(sets['out'].args[2]).eq(attr_fn['local'](as_py(opts))):
        return False, 'opts.out is not set to opts.local before main_merge'
    if 'decisions' not in sets or sets['decisions'].args[2].t is not False:
        return False, 'opts.decisions is not forced to False'
    if path.effects.index(sets['out']) > path.effects.index(c) or path.effects.index(sets['decisions']) > path.effects.index(c):
        return False, 'options set after main_merge ran'
    if not as_py(c.args[0]).eq(as_py(opts)):
        return False, 'main_merge called with something else than opts'
    if not as_py(path.value).eq(as_py(c.result)):
        return False, 'returned value is not the status of main_merge'
    return True, 'driver returns main_merge(opts) with out=local, decisions=False'


def md_single_merge(path):
    "main_merge is called at most once and only under subcommand == 'merge'"
    calls = _eff(path, 'main_merge')
    if len(calls) > 1:
        return False, 'main_merge called %d times' % len(calls)
    return True, 'at most one merge'


MERGEDRIVER_POST = [('merge-branch', md_merge_branch), ('single-merge', md_single_merge),
                    ('no-swallowed-exception', no_swallowed_exception)]


# ------------------------------------------------------------------------------------------ C17

PUSHD = dict(COMMON, **{
    'os.getcwd': {'effect': 'getcwd', 'raises': False},
    'os.chdir': {'effect': 'chdir', 'raises': True, 'effect_on_raise': False, 'returns': 'none'},
})


def pushd_restores(path):
    "on every exit (normal, exception in the body, generator closed) the directory saved by os.getcwd() before the change is restored last"
    ch = _eff(path, 'chdir')
    gc = _eff(path, 'getcwd')
    if not ch:
        return True, 'no directory change on this path'
    if path.outcome == 'raise' and gc:
        import ast as _ast
        node = path.value[1]
        if isinstance(node, _ast.Call) and _ast.unparse(node.func) == 'os.chdir' and node.args and \
                isinstance(node.args[0], _ast.Name) and path.env.get(node.args[0].id) is not None and \
                as_py(path.env[node.args[0].id]).eq(as_py(gc[0].result)):
            return None      # the operating system refused the restoring chdir itself: nothing pushd can do
    if not gc or path.effects.index(gc[0]) > path.effects.index(ch[0]):
        return False, 'the directory to restore is not obtained from os.getcwd() before the first chdir'
    old = gc[0].result
    last = ch[-1]
    changed = [c for c in ch if not as_py(c.args[0]).eq(as_py(old))]
    if changed and path.effects.index(last) < path.effects.index(changed[-1]):
        return False, 'a chdir to another directory is the last directory effect'
    if changed and not as_py(last.args[0]).eq(as_py(old)):
        return False, 'last chdir does not go back to the saved os.getcwd() value (goes to %s)' % (last.args[0],)
    if changed:
        later = path.effects[path.effects.index(last) + 1:]
        if any(e.name in ('yield',) for e in later):
            return False, 'control is handed to the with-body after the restore'
    return True, 'cwd restored'


def pushd_enters_target(path):
    "the with-body runs in the requested directory: chdir(path) happens before the yield"
    ys = _eff(path, 'yield')
    if not ys:
        return None
    ch = [c for c in _eff(path, 'chdir') if path.effects.index(c) < path.effects.index(ys[0])]
    ok = len(ch) == 1 and as_py(ch[0].args[0]).eq(as_py(path.env['path']))
    return ok, 'exactly one chdir(path) before the yield'


PUSHD_POST = [('restores-cwd', pushd_restores), ('enters-target', pushd_enters_target)]

ENTRY_STREAM = dict(COMMON, **{
    'nbdime.utils.pushd': {'effect': 'pushd_enter', 'exit_effect': 'pushd_exit', 'raises': True, 'effect_on_raise': False},
    'nbdime.vcs.git.filter_integration.apply_possible_filter': {'effect': 'fs_filter', 'raises': True},
    'io.open': {'effect': 'fs_open', 'raises': True, 'exc': 'IOError', 'effect_on_raise': True},
    '<path>.endswith': {'effect': None, 'raises': False, 'returns': 'bool'},
    'nbdime.gitfiles.BlobWrapper': {'effect': 'blob_wrap', 'raises': True},
    '<obj>.read': {'effect': 'blob_read', 'raises': True}, '<obj>.decode': QUIET,
})


def es_fs_inside_pushd(path):
    "every working-tree access happens inside `with pushd(repo_dir)` and the context is left on every exit"
    depth = 0
    for e in path.effects:
        if e.name == 'pushd_enter':
            if not as_py(e.args[0]).eq(as_py(path.env['repo_dir'])):
                return False, 'pushd entered with something else than repo_dir'
            depth += 1
        elif e.name == 'pushd_exit':
            depth -= 1
        elif e.name in ('fs_filter', 'fs_open') and depth != 1:
            return False, '%s at line %s outside pushd(repo_dir)' % (e.name, e.node.lineno)
    if depth != 0:
        return False, 'pushd context not left on this path'
    return True, 'working-tree accesses are bracketed by pushd(repo_dir)'


def es_result(path):
    "non-notebook -> None; missing path or deleted/added blob -> the null file; working tree -> filter output, the open file, or the null file on IOError; else the blob text"
    if path.outcome != 'return':
        return None
    from pyvc.effects import Sym as _S
    v = path.value
    p = path.env['path']
    names = path.names()
    if v.kind == 'const' and v.t is None:
        ok = 'fs_open' not in names and 'blob_wrap' not in names and path.possible(truth(p))
        return ok, 'None only for a non-notebook path, before any access'
    if v.origin == 'global:nbdime.utils.EXPLICIT_MISSING_FILE':
        return True, 'null file'
    if 'blob_wrap' in names:
        w = _eff(path, 'blob_wrap')[0]
        return as_py(v).eq(as_py(w.result)), 'the blob wrapper is returned'
    if 'fs_open' in names:
        o = _eff(path, 'fs_open')[0]
        same = as_py(o.args[0]).eq(as_py(p))
        return as_py(v).eq(as_py(o.result)) and same, 'the opened working-tree file at `path` is returned'
    if 'fs_filter' in names:
        f = _eff(path, 'fs_filter')[0]
        return as_py(v).eq(as_py(f.result)), 'the filter output is returned'
    return False, 'unexpected return value %r' % (v,)


ENTRY_STREAM_POST = [('fs-inside-pushd', es_fs_inside_pushd), ('result', es_result)]

CHANGED_NB = dict(COMMON, **{
    'nbdime.gitfiles.get_repo': {'effect': 'get_repo', 'raises': True},
    'nbdime.gitfiles._get_diff_entry_stream': {'effect': 'entry_stream', 'raises': True},
    'nbdime.utils.pushd': {'effect': 'pushd_enter', 'exit_effect': 'pushd_exit', 'raises': True},
    'os.path.relpath': QUIET, 'os.path.join': QUIET,
    '<repo>.commit': {'effect': 'commit', 'raises': True},
    '*.diff': {'effect': 'git_diff', 'raises': True},
    'os.chdir': {'effect': 'chdir', 'raises': True},
})


def cn_yield_pairs(path):
    "each yielded pair consists of the two streams computed for the same diff entry (a side with ref_base, b side with ref_remote, same repo_dir), neither being None"
    from pyvc.effects import attr_fn
    streams = _eff(path, 'entry_stream')
    for y in _eff(path, 'yield'):
        v = y.args[0]
        if not (isinstance(v.origin, tuple) and v.origin[0] == 'elts' and len(v.origin[1]) == 2):
            return False, 'yield of something else than a pair'
        fa, fb = v.origin[1]
        sa = [s for s in streams if as_py(s.result).eq(as_py(fa))]
        sb = [s for s in streams if as_py(s.result).eq(as_py(fb))]
        if len(sa) != 1 or len(sb) != 1:
            return False, 'yielded streams are not results of _get_diff_entry_stream'
        a, b = sa[0], sb[0]
        ea = a.args[0]
        for s_, side, ref in ((a, 'a', 'ref_base'), (b, 'b', 'ref_remote')):
            if not (len(s_.args) == 4 and as_py(s_.args[2]).eq(as_py(path.env[ref])) and as_py(s_.args[3]).eq(as_py(path.env['repo_dir']))):
                return False, '%s side stream not computed with %s and repo_dir' % (side, ref)
        # same entry: a_path/a_blob and b_path/b_blob of one object
        def base_of(t):
            return t.arg(0) if t.num_args() == 1 else None
        ta, tb = as_py(a.args[0]), as_py(b.args[0])
        if base_of(ta) is None or base_of(tb) is None or not base_of(ta).eq(base_of(tb)):
            return False, 'the two streams belong to different diff entries'
        if ta.decl().name() != 'attr.a_path' or tb.decl().name() != 'attr.b_path' or \
                as_py(a.args[1]).decl().name() != 'attr.a_blob' or as_py(b.args[1]).decl().name() != 'attr.b_blob':
            return False, 'streams not built from (a_path, a_blob) / (b_path, b_blob)'
        ok, _, v1 = path.entails(z3.And(as_py(fa) != as_py(const(None)), as_py(fb) != as_py(const(None))))
        if not ok:
            return False, 'a pair with a None (non-notebook) side may be yielded (%s)' % v1
    return True, '%d yields checked' % len(_eff(path, 'yield'))


def cn_cwd_untouched_at_yield(path):
    "while the caller handles a yielded pair the working directory is the caller's: no directory context is open at a yield and this function itself never changes directory"
    if _eff(path, 'chdir'):
        return False, 'changed_notebooks changes directory itself'
    for y in _eff(path, 'yield'):
        if y.kwargs['cm_depth'].t != 0:
            return False, 'a pushd context is open across the yield at line %s' % y.node.lineno
    return True, 'no directory context open at any yield'


def cn_diff_uses_paths(path):
    "the tree/index diff is asked with the (prefixed) path filters and the requested remote side"
    ds = _eff(path, 'git_diff')
    if path.outcome == 'raise' and not ds:
        return None
    if len(ds) != 1:
        return False, '%d diff computations' % len(ds)
    return as_py(ds[0].args[-1]).eq(as_py(path.env['paths'])), 'diff restricted to `paths`'


CHANGED_NB_POST = [('yield-pairs', cn_yield_pairs), ('cwd-untouched-at-yield', cn_cwd_untouched_at_yield), ('diff-uses-paths', cn_diff_uses_paths)]


# ------------------------------------------------------------------------------------------ C18

GITCFG = dict(COMMON, **{
    'subprocess.check_call': {'effect': 'git_call', 'raises': True, 'exc': 'CalledProcessError', 'returns': 'none', 'effect_on_raise': True},
    'subprocess.check_output': {'effect': 'git_query', 'raises': True, 'exc': 'CalledProcessError', 'effect_on_raise': True},
    'nbdime.utils.locate_gitattributes': {'effect': 'locate_attrs', 'raises': False},
    'nbdime.utils.ensure_dir_exists': {'effect': 'mkdir', 'raises': True, 'returns': 'none'},
    'io.open': {'effect': 'open', 'raises': True},
    '*.read': {'effect': None, 'raises': False}, '*.decode': {'effect': None, 'raises': False}, '*.strip': {'effect': None, 'raises': False},
    '<f>.write': {'effect': 'file_write', 'raises': True, 'returns': 'none'},
    '*.write': {'effect': 'file_write', 'raises': True, 'returns': 'none'},
    'os.path.dirname': QUIET, 'builtins.print': {'effect': None, 'raises': False, 'returns': 'none'},
    # the rule lookup in an attributes text (pure string function; its own contract -- true iff an uncommented rule for exactly the
    # pattern carries the attribute -- is checked at run time against an independent implementation, bounded: checks/c18.py)
    'nbdime.utils.has_gitattribute': {'effect': 'attr_lookup', 'raises': False},
})

OWN_KEYS = {'diff.jupyternotebook.command', 'merge.jupyternotebook.driver', 'merge.jupyternotebook.name',
            'difftool.nbdime.cmd', 'mergetool.nbdime.cmd', 'difftool.prompt', 'mergetool.prompt', 'diff.guitool', 'merge.tool'}
OWN_SECTIONS = {'diff.jupyternotebook', 'merge.jupyternotebook'}
DEFAULT_KEYS = {'diff.guitool', 'merge.tool'}


def _elts(sym):
    if sym.kind == 'const' and isinstance(sym.t, (list, tuple)):
        return [const(x) for x in sym.t]
    if isinstance(sym.origin, tuple) and sym.origin[0] == 'elts':
        return list(sym.origin[1])
    return None


def _git_effects(path):
    return [e for e in path.effects if e.name in ('git_call', 'git_query')]


def gc_scope_consistent(path):
    "every git invocation is `git config [--<scope>] ...`: the scope flag is present exactly when a scope was requested, on reads as well as writes"
    scope = path.env.get('scope')
    for e in _git_effects(path):
        el = _elts(e.args[0])
        if el is None:
            # the command is not written as a list display here (built by a helper, joined from parts, ...): nothing can be said
            # about it on this path -- the function leaves the recognised form and the bounded part decides
            raise _oos('git command at line %s is not a list display' % e.node.lineno)
        if len(el) < 3 or [x.t for x in el[:2] if x.kind == 'const'] != ['git', 'config']:
            return False, 'git invocation at line %s is not `git config ...`' % e.node.lineno
        has_flag = el[2].kind != 'const'          # the flag is the only non-literal element ('--%s' % scope)
        want, _, _ = path.entails(truth(scope))
        wantnot, _, _ = path.entails(z3.Not(truth(scope)))
        if has_flag and not want:
            return False, 'scope flag passed although no scope was requested (line %s)' % e.node.lineno
        if not has_flag and not wantnot:
            return False, 'git invocation at line %s ignores the requested scope' % e.node.lineno
    return True, '%d git invocations carry the requested scope' % len(_git_effects(path))


def _oos(msg):
    from pyvc.frontend import OutOfSubset
    return OutOfSubset(msg)


def _tail(e):
    el = _elts(e.args[0])
    if el is None or len(el) < 3:
        raise _oos('git command at line %s is not a list display' % e.node.lineno)
    t = el[2:] if el[2].kind == 'const' else el[3:]
    return t


def gc_own_keys_only(path):
    "only nbdime's own keys/sections are written or removed; merge.tool / diff.guitool are set only to 'nbdime' and unset only when their current value (read in the same scope) is 'nbdime'"
    for e in _git_effects(path):
        t = _tail(e)
        if any(x.kind != 'const' for x in t):
            return False, 'non-literal git config arguments at line %s' % e.node.lineno
        vals = [x.t for x in t]
        if e.name == 'git_query':
            if len(vals) != 1 or vals[0] not in OWN_KEYS | {'core.attributesfile'}:
                return False, 'unexpected query %r' % (vals,)
            continue
        if vals[0] == '--remove-section':
            if vals[1] not in OWN_SECTIONS:
                return False, 'removes foreign section %r' % vals[1]
        elif vals[0] == '--unset':
            if vals[1] not in DEFAULT_KEYS:
                return False, 'unsets %r' % vals[1]
            # guarded by the value read from the same key
            reads = [q for q in path.effects if q.name == 'git_query' and path.effects.index(q) < path.effects.index(e)
                     and [x.t for x in _tail(q)] == [vals[1]]]
            if not reads:
                return False, '%s is unset without reading its current value first' % vals[1]
            tool = path.env.get('tool')
            if tool is None:
                raise _oos('no local `tool` holding the value read (renamed?)')
            if not _mentions(as_py(tool), as_py(reads[-1].result)):
                return False, 'the value compared is not the one read from %s' % vals[1]
            ok, _, v = path.entails(as_py(tool) == as_py(const('nbdime')))
            if not ok:
                return False, "%s is unset on a path where its value is not known to be 'nbdime' (%s)" % (vals[1], v)
        else:
            if len(vals) != 2 or vals[0] not in OWN_KEYS:
                return False, 'writes foreign key %r' % (vals,)
            if vals[0] in DEFAULT_KEYS and vals[1] != 'nbdime':
                return False, 'sets %s to %r' % (vals[0], vals[1])
    return True, 'only own keys touched'


def _mentions(term, sub):
    if term.eq(sub):
        return True
    return any(_mentions(c, sub) for c in term.children())


def gc_attributes(path):
    "the attributes file is only ever opened for reading or appending; what is appended is one line for this driver, preceded by a newline, and only when the file does not already route notebooks to the driver (marker absent from the content, or no *.ipynb rule carrying it)"
    opens = _eff(path, 'open')
    writes = _eff(path, 'file_write')
    loc = _eff(path, 'locate_attrs')
    for o in opens:
        mode = o.args[1].t if len(o.args) > 1 and o.args[1].kind == 'const' else o.kwargs.get('mode', const('r')).t
        if mode not in ('r', 'a'):
            return False, 'attributes file opened with mode %r' % mode
        if not loc or not as_py(o.args[0]).eq(as_py(loc[0].result)):
            return False, 'a file other than the located attributes file is opened'
    for w in writes:
        txt = w.args[-1]
        if txt.kind != 'const' or not isinstance(txt.t, str):
            return False, 'non-literal text appended'
        if not (txt.t.startswith('\n') and txt.t.endswith('\n') and txt.t.count('\n') == 2 and txt.t.strip().startswith('*.ipynb')):
            return False, 'appended text %r is not exactly one *.ipynb rule on a line of its own' % txt.t
        marker = txt.t.strip().split('\t')[-1]
        # idempotence: the write is reached only if the marker was looked for in the existing content and not found, or the file did not exist
        guards = [c for c in path.pc if 'contains' in str(c)]
        exists_false = any('exists' in str(c) and str(c).startswith('Not') for c in path.pc)
        found_guard = any(str(c).startswith('Not') and 'contains' in str(c) for c in guards)
        # or: has_gitattribute(<content>, '*.ipynb', <marker>) was evaluated and is false on this path
        for lk in _eff(path, 'attr_lookup'):
            a = lk.args
            if len(a) == 3 and a[1].kind == 'const' and a[1].t == '*.ipynb' and a[2].kind == 'const' and a[2].t == marker and \
                    path.entails(z3.Not(truth(lk.result)))[0]:
                found_guard = True
        if not (found_guard or exists_false):
            return False, 'rule appended without first checking that %r is absent' % marker
    if len(writes) > 1:
        return False, 'more than one rule appended'
    return True, 'attributes handled append-only and idempotently'


def gc_disable_removes_driver(path):
    "disable of a driver asks git to remove the whole driver section (so git no longer routes notebooks to nbdime)"
    rem = [e for e in _git_effects(path) if e.name == 'git_call' and [x.t for x in _tail(e)][:1] == ['--remove-section']]
    return len(rem) == 1, 'one --remove-section'


def gc_no_swallow_except_absent(path):
    "the only exception handled is CalledProcessError of the immediately preceding git command (missing key / not a repository)"
    for e in _eff(path, 'except'):
        if 'CalledProcessError' not in e.args[0].t:
            return False, 'handles %s' % e.args[0].t
    return True, 'only CalledProcessError handled'


_GC_COMMON = [('scope-consistent', gc_scope_consistent), ('own-keys-only', gc_own_keys_only), ('attributes', gc_attributes),
              ('handled-exceptions', gc_no_swallow_except_absent)]
C18_JOBS = [
    ('nbdime.vcs.git.diffdriver.enable', GITCFG, _GC_COMMON, False), ('nbdime.vcs.git.diffdriver.disable', GITCFG, _GC_COMMON + [('removes-driver', gc_disable_removes_driver)], False),
    ('nbdime.vcs.git.mergedriver.enable', GITCFG, _GC_COMMON, False), ('nbdime.vcs.git.mergedriver.disable', GITCFG, _GC_COMMON + [('removes-driver', gc_disable_removes_driver)], False),
    ('nbdime.vcs.git.difftool.enable', GITCFG, _GC_COMMON, False), ('nbdime.vcs.git.difftool.disable', GITCFG, _GC_COMMON, False),
    ('nbdime.vcs.git.mergetool.enable', GITCFG, _GC_COMMON, False), ('nbdime.vcs.git.mergetool.disable', GITCFG, _GC_COMMON, False),
]


# ------------------------------------------------------------------------------------------ C20

HANDLER = dict(COMMON, **{
    '*.params.get': {'effect': None, 'raises': False},
    '<self.params>.get': {'effect': None, 'raises': False},
    'json.loads': {'effect': 'parse_body', 'raises': True},
    'tornado.escape.to_unicode': {'effect': None, 'raises': False},
    'nbformat.from_dict': {'effect': 'from_dict', 'raises': True},
    'nbformat.write': {'effect': 'serialize', 'raises': True, 'returns': 'none', 'effect_on_raise': False},
    'io.StringIO': {'effect': None, 'raises': False},
    'io.open': {'effect': 'open_file', 'raises': True, 'effect_on_raise': False},
    '*.write': {'effect': 'file_write', 'raises': True, 'returns': 'none'},
    '*.getvalue': {'effect': None, 'raises': False},
    '<self>.finish': {'effect': 'finish', 'raises': True, 'returns': 'none'},
    'tornado.web.HTTPError': {'effect': None, 'raises': False},
    '<self>.get_notebook_argument': {'effect': 'read_nb', 'raises': True},
    'nbdime.diffing.notebooks.diff_notebooks': {'effect': 'diff', 'raises': True},
    'nbdime.diffing.diff_notebooks': {'effect': 'diff', 'raises': True},
    'nbdime.merging.notebooks.decide_notebook_merge': {'effect': 'decide', 'raises': True},
    'nbdime.merging.decide_notebook_merge': {'effect': 'decide', 'raises': True},
    'tornado.ioloop.IOLoop.current': {'effect': None, 'raises': False},
    '*.stop': {'effect': 'ioloop_stop', 'raises': False, 'returns': 'none'},
    '<self>.get_argument': {'effect': None, 'raises': True, 'exc': 'MissingArgumentError'},
    '<self.request.headers>.get': {'effect': None, 'raises': False},
    'builtins.int': {'effect': None, 'raises': True},
    '*.exception': QUIET,
    '<self.settings>.get': {'effect': None, 'raises': False},
    'nbdime.webapp.nbdimeserver.build_merge_parser': {'effect': 'build_parser', 'raises': True},
    '*.parse_args': {'effect': None, 'raises': True},
})


def _no_request_subterm(term):
    if term.decl().name() in ('attr.request',):
        return False
    return all(_no_request_subterm(c) for c in term.children())


def st_destination(path):
    "the only file opened is os.path.join(self.curdir, self.params.get('outputfilename')), for writing; nothing in that name comes from the request"
    from pyvc.effects import attr_fn
    opens = _eff(path, 'open_file')
    if len(opens) > 1:
        return False, '%d files opened' % len(opens)
    for o in opens:
        t = as_py(o.args[0])
        if not _no_request_subterm(t):
            return False, 'the destination depends on the request'
        if t.decl().name() != 'fn.os.path.join' or t.num_args() != 2:
            return False, 'destination is not os.path.join(curdir, filename)'
        if t.arg(0).decl().name() != 'attr.curdir':
            return False, 'destination directory is not self.curdir'
        fn = path.env.get('fn')
        if fn is None:
            raise _oos('no local `fn` holding the output file name (renamed?)')
        if not t.arg(1).eq(as_py(fn)) or 'params' not in str(as_py(fn)) or 'outputfilename' not in str([k for k in _consts_in(as_py(fn))]):
            return False, 'destination file name is not params.get("outputfilename")'
    return True, 'destination fixed by server parameters'


def _consts_in(term):
    from pyvc.effects import _str_consts
    names = {str(c): k for k, c in _str_consts.items()}
    out = []

    def walk(t):
        if str(t) in names:
            out.append(names[str(t)])
        for c in t.children():
            walk(c)
    walk(term)
    return out


def st_refuses_without_output(path):
    "when no output file was fixed at start-up the handler raises HTTPError(400) before any effect"
    fn = path.env.get('fn')
    if fn is None:
        return None
    if path.possible(z3.Not(truth(fn))):
        # this path is consistent with 'no output file': it must be the refusing one
        if path.entails(z3.Not(truth(fn)))[0]:
            ok = path.outcome == 'raise' and 'HTTPError' in path.value[0] and not [e for e in path.effects if e.name in ('open_file', 'file_write', 'serialize', 'finish')]
            return ok, 'refused with HTTPError before any effect'
    return None


def st_write_after_serialise(path):
    "the output file is opened only after the submitted document has been serialised successfully; on every exceptional exit before that nothing on disk was touched; success is reported (finish) only after the write"
    names = path.names()
    if 'open_file' in names:
        if 'serialize' not in names or names.index('serialize') > names.index('open_file'):
            return False, 'output opened before the notebook was serialised'
    if 'finish' in names:
        if 'file_write' not in names or names.index('finish') < names.index('file_write'):
            return False, 'success reported before the file was written'
    if path.outcome == 'raise' and 'open_file' not in names and 'file_write' in names:
        pass
    return True, 'serialise -> open -> write -> finish'


def _find_get(term, key):
    "the application params.get(key, ...) inside term, if any"
    if term.decl().name().startswith('fn.') and term.decl().name().endswith('.get') and key in ''.join(_consts_in(term)):
        return term
    for c in term.children():
        r = _find_get(c, key)
        if r is not None:
            return r
    return None


def cl_only_if_closable(path):
    "the event loop is stopped / the exit code is set only on paths where params.get('closable', False) is True; otherwise HTTPError(400) and no effect on the application"
    from pyvc.effects import true_c
    stops = _eff(path, 'ioloop_stop')
    sets = [e for e in path.effects if e.name == 'setattr']
    if not (stops or sets):
        return True, 'no application effect'
    t = None
    for c in path.pc:
        if t is None:
            t = _find_get(c, 'closable')
    if t is None:
        return False, 'server stopped / exit code set without testing the closable parameter'
    ok, _, v = path.entails(t == true_c)
    return ok, 'closable is True on this path (%s)' % v


def df_consistent(path):
    "the response is finish({'base': A, 'diff': diff_notebooks(A, B)}) with A, B the notebooks named 'base' and 'remote' in this request"
    fins = _eff(path, 'finish')
    if path.outcome != 'return':
        return (not fins) or 'finish' in path.value[0], 'no response body on an exceptional exit'
    if not fins:
        # the body is not handed to self.finish in this function (sent through a helper, written differently): nothing can be said here
        raise _oos('no self.finish(...) on a returning path of the diff handler')
    if len(fins) != 1:
        return False, '%d responses' % len(fins)
    data = fins[0].args[-1]
    if not (isinstance(data.origin, tuple) and data.origin[0] == 'dict'):
        raise _oos('the response body is not written as a dict display')       # built in steps, by a helper, ...: no statement here
    if set(data.origin[1]) != {'base', 'diff'}:
        if [e for e in path.effects if e.name == 'setitem']:
            raise _oos('the response body is completed by item assignments')
        return False, 'response is not {base, diff}'
    reads = _eff(path, 'read_nb')
    by = {r.args[-1].t: r for r in reads if r.args[-1].kind == 'const'}
    if set(by) != {'base', 'remote'}:
        return False, 'notebook arguments read: %r' % sorted(by)
    d = _eff(path, 'diff')
    if len(d) != 1 or not as_py(d[0].args[0]).eq(as_py(by['base'].result)) or not as_py(d[0].args[1]).eq(as_py(by['remote'].result)):
        return False, 'diff_notebooks not applied to (base, remote) of this request'
    ok = as_py(data.origin[1]['base']).eq(as_py(by['base'].result)) and as_py(data.origin[1]['diff']).eq(as_py(d[0].result))
    return ok, 'response carries the base notebook and its diff to remote'


def mg_library(path):
    "the response carries decide_notebook_merge(base, local, remote, args=merge_args) of this request's notebooks"
    fins = _eff(path, 'finish')
    if path.outcome != 'return':
        return (not fins) or 'finish' in path.value[0], 'no response body on an exceptional exit'
    reads = {r.args[-1].t: r for r in _eff(path, 'read_nb') if r.args[-1].kind == 'const'}
    if set(reads) != {'base', 'local', 'remote'}:
        return False, 'arguments read: %r' % sorted(reads)
    d = _eff(path, 'decide')
    if len(d) != 1 or [as_py(a) for a in d[0].args[:3]] != [as_py(reads[k].result) for k in ('base', 'local', 'remote')]:
        if len(d) != 1 or not all(as_py(a).eq(as_py(reads[k].result)) for a, k in zip(d[0].args[:3], ('base', 'local', 'remote'))):
            return False, 'decide_notebook_merge not applied to (base, local, remote) of this request'
    if not fins:
        raise _oos('no self.finish(...) on a returning path of the merge handler')
    data = fins[0].args[-1]
    if not (isinstance(data.origin, tuple) and data.origin[0] == 'dict'):
        raise _oos('the response body is not written as a dict display')
    if set(data.origin[1]) != {'base', 'merge_decisions'}:
        if [e for e in path.effects if e.name == 'setitem']:
            raise _oos('the response body is completed by item assignments')
        return False, 'response is not {base, merge_decisions}'
    ok = as_py(data.origin[1]['merge_decisions']).eq(as_py(d[0].result)) and as_py(data.origin[1]['base']).eq(as_py(reads['base'].result))
    return ok, 'response carries the library decisions'


def hd_frame(path):
    "no handler writes self.params; the only application state written is the merge_args cache (settings) and, for close, exit_code"
    for e in path.effects:
        if e.name in ('setattr', 'setitem'):
            tgt = str(as_py(e.args[0]))
            if 'attr.params' in tgt:
                return False, 'handler writes self.params'
    return True, 'params untouched'


C20_JOBS = [
    ('nbdime.webapp.nbdimeserver.ApiMergeStoreHandler.post', HANDLER,
     [('destination', st_destination), ('refuses-without-output', st_refuses_without_output), ('write-after-serialise', st_write_after_serialise), ('frame', hd_frame)], False),
    ('nbdime.webapp.nbdimeserver.ApiCloseHandler.post', HANDLER, [('only-if-closable', cl_only_if_closable), ('frame', hd_frame)], False),
    ('nbdime.webapp.nbdimeserver.ApiDiffHandler.post', HANDLER, [('consistent', df_consistent), ('frame', hd_frame)], False),
    ('nbdime.webapp.nbdimeserver.ApiMergeHandler.post', HANDLER, [('library', mg_library), ('frame', hd_frame)], False),
]

HANDLER_ARG = dict(HANDLER, **{
    '*.seek': {'effect': 'seek', 'raises': True, 'returns': 'none'},
    'nbformat.read': {'effect': 'nb_read', 'raises': True},
    '<self>.read_notebook': {'effect': 'read_by_name', 'raises': True},
    'builtins.super': {'effect': None, 'raises': False},
    '*.get_notebook_argument': {'effect': 'super_arg', 'raises': True},
})


def da_rewinds_streams(path):
    "a file-like tool argument is rewound (seek(0)) before every read, so that the N-th request reads the same notebook as the first"
    for r in _eff(path, 'nb_read'):
        before = [e for e in path.effects[:path.effects.index(r)] if e.name == 'seek']
        if not before:
            return False, 'stream read without rewinding'
        s = before[-1]
        if not as_py(s.args[0]).eq(as_py(r.args[0])) or s.args[-1].kind != 'const' or s.args[-1].t != 0:
            return False, 'the stream read is not the one rewound to 0'
    return True, 'streams rewound'


C20_JOBS.append(('nbdime.webapp.nbdimeserver.ApiDiffHandler.get_notebook_argument', HANDLER_ARG, [('rewinds-streams', da_rewinds_streams), ('frame', hd_frame)], False))


# ------------------------------------------------------------------------------------------ C16

RENDER = dict(COMMON, **{
    '*.out.write': {'effect': 'out_write', 'raises': True, 'returns': 'none'},
    '<config.out>.write': {'effect': 'out_write', 'raises': True, 'returns': 'none'},
    'nbdime.prettyprint.file_timestamp': {'effect': None, 'raises': False},
    'nbdime.prettyprint.pretty_print_diff': {'effect': 'print_diff', 'raises': True, 'returns': 'none'},
    'nbdime.prettyprint.external_diff_render': {'effect': 'ext_diff', 'raises': True},
    'nbdime.prettyprint.colorize_source': {'effect': 'colorize', 'raises': True},
    'nbdime.prettyprint.pretty_print_key': {'effect': 'print_key', 'raises': True, 'returns': 'none'},
    'nbdime.prettyprint.pretty_print_multiline': {'effect': 'print_multiline', 'raises': True, 'returns': 'none'},
    '*.replace': {'effect': None, 'raises': False}, '*.split': {'effect': None, 'raises': False}, '*.splitlines': {'effect': None, 'raises': False},
    '*.join': {'effect': None, 'raises': False}, '*.strip': {'effect': None, 'raises': False},
})


def pp_empty_diff_silent(path):
    "an empty diff writes nothing and renders nothing"
    di = path.env['di']
    if path.entails(z3.Not(truth(di)))[0]:
        ok = not [e for e in path.effects if e.name in ('out_write', 'print_diff')]
        return ok, 'nothing written for an empty diff'
    if path.outcome == 'return':
        ok = len(_eff(path, 'print_diff')) == 1 and len(_eff(path, 'out_write')) == 1
        return ok, 'a non-empty diff writes the header and renders the entries'
    return None


def _find_app(term, name):
    if term.decl().name() == name or (name.startswith('*') and term.decl().name().endswith(name[1:])):
        return term
    for c in term.children():
        r = _find_app(c, name)
        if r is not None:
            return r
    return None


def git_no_color_flag(path):
    "with colour disabled the git command asks for no colour whatever the user's git configuration says (' --color-words' replaced by ' --no-color')"
    from pyvc.effects import attr_fn
    ex = _eff(path, 'ext_diff')
    if not ex:
        return None
    config = path.env['config']
    use_color = truth(Sym('py', attr_fn['use_color'](as_py(config))))
    cmd_term = as_py(ex[0].args[0])
    if not path.possible(z3.Not(use_color)):
        return True, 'colour on'
    # under (path condition and colour off) the command must be git_diff_print_cmd with " --color-words" replaced by " --no-color"
    # (merely dropping the flag leaves the decision to color.ui / color.diff of the user's git configuration: `always` colours a pipe)
    rep = _find_app(cmd_term, '*.replace')
    if rep is None:
        return False, 'colour may be off on this path but no flag is removed from the git command'
    if "' --color-words'" not in _consts_in(rep.arg(1)):
        return False, 'the flag removed is not " --color-words"'
    from pyvc.effects import as_py as _ap, const as _c
    s_ = path.solver()
    s_.add(z3.Not(use_color))
    s_.add(rep.arg(2) != _ap(_c(' --no-color')))
    ok = s_.check() == z3.unsat
    return ok, 'colour off => " --color-words" replaced by " --no-color"'


def src_highlight_only_with_color(path):
    "syntax highlighting (which emits ANSI sequences) happens only when colour is enabled"
    from pyvc.effects import attr_fn
    if not _eff(path, 'colorize'):
        return None
    config = path.env['config']
    ok, _, v = path.entails(truth(Sym('py', attr_fn['use_color'](as_py(config)))))
    return ok, 'colorize_source reached only under config.use_color (%s)' % v


# ------------------------------------------------------------------------------------------ C13
# the one place where the differ edits its arguments: the output differ detaches 'data' from both outputs and puts it back

DETACH = dict(COMMON, **{
    '*.pop': {'effect': 'pop', 'raises': False},
    'copy.deepcopy': {'effect': None, 'raises': False},
    'nbdime.diffing.generic.diff': {'effect': None, 'raises': False},
    'nbdime.diffing.notebooks.diff_mime_bundle': {'effect': 'mime', 'raises': False},
    'nbdime.diff_format.MappingDiffBuilder': {'effect': None, 'raises': False},
    '<di>.append': QUIET, '<di>.patch': QUIET, '<di>.validated': QUIET,
})


def detach_restored(path):
    "on every returning path each `pop` from an argument is followed by storing the popped value back under the same name, and nothing else is stored into the arguments"
    if path.outcome != 'return':
        return None
    pops = _eff(path, 'pop')
    sets = _eff(path, 'setattr')
    if _eff(path, 'mime') and not pops:
        # the bundles are diffed separately but the detaching is not visible in this function (moved into a helper, done differently):
        # nothing can be said here -- the bounded snapshots decide
        raise _oos('the data bundle is diffed on a path without a visible detach/restore pair')
    for e in pops:
        obj = e.args[0] if e.args else None
        if obj is None or len(e.args) < 2 or e.args[1].kind != 'const':
            raise _oos('pop with a non-literal key at line %s' % e.node.lineno)
        key = e.args[1].t
        later = [x for x in sets if path.effects.index(x) > path.effects.index(e) and as_py(x.args[0]).eq(as_py(obj)) and x.args[1].t == key]
        if not later:
            return False, '%r popped at line %s is never stored back on this path' % (key, e.node.lineno)
        if not as_py(later[0].args[2]).eq(as_py(e.result)):
            return False, 'the value stored back under %r is not the value popped at line %s' % (key, e.node.lineno)
    for x in sets:
        if not any(as_py(x.args[0]).eq(as_py(e.args[0])) and x.args[1].t == e.args[1].t and path.effects.index(x) > path.effects.index(e) for e in pops):
            return False, 'attribute %r stored at line %s without a preceding pop of it' % (x.args[1].t, x.node.lineno)
    return True, '%d detach/restore pair(s)' % len(pops)


C13_JOBS = [
    ('nbdime.diffing.notebooks.diff_single_outputs', DETACH, [('detach-restored', detach_restored)], False),
]


C16_JOBS = [
    ('nbdime.prettyprint.pretty_print_notebook_diff', RENDER, [('empty-diff-silent', pp_empty_diff_silent)], False),
    ('nbdime.prettyprint.diff_render_with_git', RENDER, [('no-color-flag', git_no_color_flag)], False),
    ('nbdime.prettyprint.pretty_print_source', RENDER, [('highlight-only-with-color', src_highlight_only_with_color)], False),
]


def esc_literal_obligations(repo):
    """Syntactic dataflow contract for ESC-freedom: in nbdime/prettyprint.py every string literal containing ESC and every reference to a
    colorama constant occurs inside the `True` entry of col_const; every read of the colour constants goes through col_const[self.use_color]."""
    import ast as _ast
    import os as _os
    path = _os.path.join(repo, 'nbdime', 'prettyprint.py')
    tree = _ast.parse(open(path).read())
    allowed = set()
    sites = []
    for node in _ast.walk(tree):
        if isinstance(node, _ast.Assign) and any(isinstance(t, _ast.Name) and t.id == 'col_const' for t in node.targets) and isinstance(node.value, _ast.Dict):
            for k, v in zip(node.value.keys, node.value.values):
                if isinstance(k, _ast.Constant) and k.value is True:
                    for sub in _ast.walk(v):
                        allowed.add(id(sub))
                if isinstance(k, _ast.Constant) and k.value is False:
                    for sub in _ast.walk(v):
                        if isinstance(sub, _ast.Constant) and isinstance(sub.value, str):
                            sites.append(('col_const[False] literal %r is ESC free' % sub.value, '\x1b' not in sub.value))
                        if isinstance(sub, _ast.Attribute) and isinstance(sub.value, _ast.Name) and sub.value.id == 'colorama':
                            sites.append(('col_const[False] uses colorama.%s' % sub.attr, False))
    for node in _ast.walk(tree):
        if isinstance(node, _ast.Constant) and isinstance(node.value, str) and '\x1b' in node.value:
            sites.append(('ESC literal at line %d inside col_const[True]' % node.lineno, id(node) in allowed))
        if isinstance(node, _ast.Attribute) and _ast.unparse(node).startswith('colorama.') and not isinstance(getattr(node, 'ctx', None), _ast.Store):
            if isinstance(node.value, _ast.Name) or (isinstance(node.value, _ast.Attribute) and isinstance(node.value.value, _ast.Name)):
                if _ast.unparse(node).count('.') >= 2 or _ast.unparse(node) in ('colorama.init',):
                    ok = id(node) in allowed or _ast.unparse(node) == 'colorama.init'
                    sites.append(('colorama reference %s at line %d inside col_const[True]' % (_ast.unparse(node), node.lineno), ok))
        if isinstance(node, _ast.Subscript) and isinstance(node.value, _ast.Name) and node.value.id == 'col_const':
            ok = _ast.unparse(node.slice) in ('self.use_color',)
            sites.append(('col_const indexed by %s at line %d' % (_ast.unparse(node.slice), node.lineno), ok))
    return sites


# ------------------------------------------------------------------------------------------ C19

CONFIG = dict(COMMON, **{
    'jupyter_core.paths.jupyter_config_path': {'effect': 'jupyter_path', 'raises': False},
    'os.getcwd': {'effect': None, 'raises': False},
    '*.insert': {'effect': 'path_insert', 'raises': False, 'returns': 'none'},
    'nbdime.config._load_config_files': {'effect': 'load_files', 'raises': True},
    'nbdime.config.recursive_update': {'effect': 'update', 'raises': True, 'returns': 'none'},
    'nbdime.config.config_instance': {'effect': None, 'raises': False},
    '*.configured_traits': {'effect': None, 'raises': False},
    '*.mro': {'effect': None, 'raises': False}, 'builtins.reversed': {'effect': None, 'raises': False},
    'builtins.issubclass': {'effect': None, 'raises': False, 'returns': 'bool'},
    'builtins.ValueError': {'effect': None, 'raises': False}, 'builtins.list': {'effect': None, 'raises': False},
    '*.keys': {'effect': None, 'raises': False},
})


def bc_layers(path):
    """all built-in defaults are layered before any config section; each update goes into `config` with the caller's include_none;
    a default layer is config_instance(c).configured_traits(c) and a section layer is disk_config[c.__name__] of the class being visited"""
    if path.outcome != 'return':
        return None
    ups = _eff(path, 'update')
    config = path.env.get('config')
    disk = path.env.get('disk_config')
    inc = path.env.get('include_none')
    phase = 'disk'
    kinds = []
    for u in ups:
        tgt, src = as_py(u.args[0]), as_py(u.args[1])
        if not as_py(u.args[2]).eq(as_py(inc)):
            return False, 'an update ignores include_none'
        if tgt.eq(as_py(disk)):
            kinds.append('file')
        elif tgt.eq(as_py(config)):
            s_ = str(src)
            if 'configured_traits' in s_:
                kinds.append('default')
                c_term = src.arg(src.num_args() - 1)
                if 'config_instance' not in s_ or not _mentions(src, c_term):
                    return False, 'a default layer is not config_instance(c).configured_traits(c)'
            elif 'getitem' in s_ and _mentions(src, as_py(disk)) and 'attr.__name__' in s_:
                kinds.append('section')
            else:
                return False, 'config updated from an unexpected source: %s' % s_[:80]
        else:
            return False, 'update of an unexpected target'
    order = {'file': 0, 'default': 1, 'section': 2}
    seq = [order[k] for k in kinds]
    if seq != sorted(seq):
        return False, 'layers out of order: %s' % kinds
    if not as_py(path.value).eq(as_py(config)):
        return False, 'the layered dict is not what is returned'
    return True, 'files -> defaults -> sections (%d updates)' % len(ups)


def bc_cwd_first(path):
    "the working directory is put in front of the jupyter config path (highest priority) before the files are loaded"
    ins = _eff(path, 'path_insert')
    load = _eff(path, 'load_files')
    if path.outcome != 'return':
        return None
    if not load:
        return False, 'the configuration files are not loaded on a returning path'
    if not ins:
        # the search path is not built by inserting into the jupyter path here (concatenation, a helper, ...): the obligation is stated
        # over the insert; without it this function makes no statement and the executable model of the rule decides
        raise _oos('the config search path is not built with <list>.insert(...)')
    if len(ins) != 1:
        return False, 'the search path is modified %d times' % len(ins)
    i = ins[0]
    ok = i.args[1].kind == 'const' and i.args[1].t == 0 and 'getcwd' in str(as_py(i.args[2])) and path.effects.index(i) < path.effects.index(load[0])
    jp = _eff(path, 'jupyter_path')
    ok = ok and jp and as_py(i.args[0]).eq(as_py(jp[0].result)) and as_py(load[0].kwargs['path']).eq(as_py(jp[0].result))
    return bool(ok), 'path.insert(0, os.getcwd()) on the jupyter config path, then load'


C19_JOBS = [('nbdime.config.build_config', CONFIG, [('layers', bc_layers), ('cwd-first', bc_cwd_first)], False)]


def c19_static_obligations(repo):
    """Finite obligations read off the current sources/classes:
    (a) build_config iterates `reversed(configurable.mro())` (least specific first) in both layering loops;
    (b) _load_config_files walks the path list backwards (lowest priority first) so that higher-priority files override;
    (c) for each of the entry points the documented sections occur in the resolution order most-specific first:
        own < git-specific < diff|merge < web-tool < web < global."""
    import ast as _ast
    import os as _os
    out = []
    src = open(_os.path.join(repo, 'nbdime', 'config.py')).read()
    tree = _ast.parse(src)
    fns = {n.name: n for n in tree.body if isinstance(n, _ast.FunctionDef)}
    bc = _ast.unparse(fns['build_config'])
    out.append(('build_config walks reversed(configurable.mro())', 'reversed(configurable.mro())' in bc))
    lf = _ast.unparse(fns['_load_config_files'])
    out.append(('_load_config_files walks path[::-1]', 'path[::-1]' in lf))
    # class table without importing nbdime: bases from the AST, C3 linearisation computed here
    bases = {}
    for n in tree.body:
        if isinstance(n, _ast.ClassDef):
            bases[n.name] = [_ast.unparse(b) for b in n.bases]
    ep = {}
    for n in tree.body:
        if isinstance(n, _ast.Assign) and any(isinstance(t, _ast.Name) and t.id == 'entrypoint_configurables' for t in n.targets):
            for k, v in zip(n.value.keys, n.value.values):
                ep[k.value] = _ast.unparse(v)

    def mro(c):
        if c not in bases:
            return [c]
        seqs = [mro(b) for b in bases[c]] + [list(bases[c])]
        res = [c]
        while True:
            seqs = [s for s in seqs if s]
            if not seqs:
                return res
            for s in seqs:
                cand = s[0]
                if not any(cand in t[1:] for t in seqs):
                    break
            else:
                raise ValueError('inconsistent hierarchy')
            res.append(cand)
            for s in seqs:
                if s[0] == cand:
                    del s[0]
    rank = {'GitDiff': 1, 'GitMerge': 1, 'Diff': 2, 'Merge': 2, 'Show': 2, 'WebTool': 3, 'Web': 4, 'Global': 5}
    out.append(('11 entry points declared', len(ep) == 11))
    for name, cls in sorted(ep.items()):
        order = mro(cls)
        ranks = [0 if c == cls else rank[c] for c in order if c == cls or c in rank]
        out.append(('%s resolves %s most specific first' % (name, [c for c in order if c == cls or c in rank]), ranks == sorted(ranks) and 'Global' in order))
    return out


# ------------------------------------------------------------------------------------------ C14

TARGETS = dict(COMMON, **{
    'nbdime.diffing.notebooks.set_notebook_diff_ignores': {'effect': 'set_ignores', 'raises': True, 'returns': 'none'},
})

# category -> paths that must be switched by its flag (the property's category table)
CATEGORY_PATHS = {
    'sources': ['/cells/*/source'], 'outputs': ['/cells/*/outputs'], 'attachments': ['/cells/*/attachments'],
    'metadata': ['/metadata', '/cells/*/metadata', '/cells/*/outputs/*/metadata'], 'identifier': ['/cells/*/id'],
}


def tg_table(path):
    "set_notebook_diff_targets hands set_notebook_diff_ignores a table in which every path of a category is ignored exactly when that category's flag is false"
    if path.outcome != 'return':
        return None
    calls = _eff(path, 'set_ignores')
    if len(calls) != 1:
        return False, '%d calls of set_notebook_diff_ignores' % len(calls)
    cfg = calls[0].args[0]
    if not (isinstance(cfg.origin, tuple) and cfg.origin[0] == 'dict'):
        return False, 'the table is not a literal dict'
    table = cfg.origin[1]
    for cat, paths in CATEGORY_PATHS.items():
        flag = path.env[cat]
        for p in paths:
            if p not in table:
                return False, 'path %s of category %s is not in the table' % (p, cat)
            v = table[p]
            ok, _, verdict = path.entails(truth(v) == z3.Not(truth(flag)))
            if not ok or v.kind != 'bool':
                return False, 'table[%s] is not `not %s` (%s)' % (p, cat, verdict)
    extra = set(table) - {p for ps in CATEGORY_PATHS.values() for p in ps} - {'/cells/*', '/cells/*/outputs/*'}
    if extra:
        return False, 'unexpected paths in the table: %s' % sorted(extra)
    if [e for e in path.effects if e.name == 'setitem']:
        return False, 'the table is modified after its construction (paths outside the category table may be switched)'
    return True, 'category table complete'


def tg_key_filters(path):
    "details / id / attachments (atomic or optional keys of a cell) are hidden by key filters on /cells/* and /cells/*/outputs/*; with all of them shown the filters are reset (False)"
    if path.outcome != 'return':
        return None
    calls = _eff(path, 'set_ignores')
    if not (isinstance(calls[0].args[0].origin, tuple) and calls[0].args[0].origin[0] == 'dict'):
        return False, 'the table is not a literal dict'
    table = calls[0].args[0].origin[1]
    if '/cells/*' not in table or '/cells/*/outputs/*' not in table:
        return False, 'the key-filter paths /cells/* and /cells/*/outputs/* are not both set on every call (a filter installed earlier would survive)'
    if [e for e in path.effects if e.name == 'setitem']:
        return False, 'the table is modified after its construction'
    details, ident, att = path.env['details'], path.env['identifier'], path.env['attachments']
    ck = path.env.get('cell_keys')
    want = []
    for flag, key in ((details, 'execution_count'), (ident, 'id'), (att, 'attachments')):
        if path.entails(z3.Not(truth(flag)))[0]:
            want.append(key)
        elif not path.entails(truth(flag))[0]:
            return None          # flag undetermined on this path (cannot happen: each flag is branched on)
    got = ck.t if ck is not None and ck.kind == 'const' else None
    if got is None or sorted(got) != sorted(want):
        return False, 'cell key filter is %r, expected %r' % (got, want)
    def is_value(sym, expected):
        if sym.kind == 'const':
            return sym.t == expected or (isinstance(expected, (list, tuple)) and isinstance(sym.t, (list, tuple)) and sorted(sym.t) == sorted(expected))
        return path.entails(as_py(sym) == as_py(const(expected)))[0]
    v = table['/cells/*']
    ok = is_value(v, tuple(got) if want else False)
    o = table['/cells/*/outputs/*']
    if path.entails(truth(details))[0]:
        ok = ok and is_value(o, False)
    else:
        ok = ok and is_value(o, ('execution_count',))
    return ok, 'key filters %r' % (want,)


C14_JOBS = [('nbdime.diffing.notebooks.set_notebook_diff_targets', TARGETS, [('category-table', tg_table), ('key-filters', tg_key_filters)], False)]


def dispatch_obligations(repo):
    """Dispatch lemma (syntactic): every recursive differ call in the generic differs hands on the sub-path and the configuration,
    and the callee is taken from config.differs[subpath]."""
    import ast as _ast
    import os as _os
    out = []
    for rel, fnames in (('nbdime/diffing/generic.py', ['diff_lists', 'diff_dicts']), ('nbdime/diffing/snakes.py', ['compute_diff_from_snakes']),
                        ('nbdime/diffing/notebooks.py', ['diff_single_outputs'])):
        tree = _ast.parse(open(_os.path.join(repo, rel)).read())
        for fn in [n for n in _ast.walk(tree) if isinstance(n, _ast.FunctionDef) and n.name in fnames]:
            assigns = {t.id: _ast.unparse(n.value) for n in _ast.walk(fn) if isinstance(n, _ast.Assign) for t in n.targets if isinstance(t, _ast.Name)}
            for call in [n for n in _ast.walk(fn) if isinstance(n, _ast.Call)]:
                name = _ast.unparse(call.func)
                if name == 'diffit':
                    kws = {k.arg: _ast.unparse(k.value) for k in call.keywords}
                    out.append(('%s: diffit(...) at line %d passes path=subpath and config=config' % (fn.name, call.lineno),
                                kws.get('path') == 'subpath' and kws.get('config') == 'config'))
                    out.append(('%s: diffit is config.differs[subpath]' % fn.name, assigns.get('diffit') == 'config.differs[subpath]'))
                if fn.name == 'diff_single_outputs' and name in ('diff', 'diff_mime_bundle'):
                    kws = {k.arg: _ast.unparse(k.value) for k in call.keywords}
                    want_path = "path + '/data'" if name == 'diff_mime_bundle' else 'path'
                    out.append(('diff_single_outputs: %s(...) at line %d passes path=%s and config=config' % (name, call.lineno, want_path),
                                kws.get('path') == want_path and kws.get('config') == 'config'))
    return out


# ------------------------------------------------------------------------------------------ Kit S (strings): interface agreement
# The string differ and the string patcher are under ASSUMED functional contracts (Kit S is not built).  What IS discharged here is
# the interface both contracts lean on: both sides cut a string into lines with the same function, `str.splitlines(True)`, the
# differ hands exactly these two line lists to diff_lists, and patch_string joins what patch_list makes of the characters and the
# flattened diff.  (A differ and a patcher that disagree on where lines end silently corrupt every string with an unusual line break.)

STRINGS = dict(COMMON, **{
    '*.splitlines': {'effect': None, 'raises': False}, '*.join': {'effect': None, 'raises': False},
    'builtins.list': {'effect': None, 'raises': False}, 'collections.defaultdict': {'effect': None, 'raises': False},
    'nbdime.diffing.config.DiffConfig': {'effect': None, 'raises': False},
    'nbdime.diffing.generic.diff_lists': {'effect': 'diff_lists', 'raises': True},
    'nbdime.diff_utils.flatten_list_of_string_diff': {'effect': 'flatten', 'raises': True},
    'nbdime.patching.patch_list': {'effect': 'patch_list', 'raises': True},
})


def ds_lines_keepends(path):
    "diff_lists receives cut(a) and cut(b), in this order, for one and the same pure cutting function with the same extra arguments"
    ex = _eff(path, 'diff_lists')
    if not ex:
        return None
    a, b = path.env['a'], path.env['b']
    if len(ex) != 1 or len(ex[0].args) < 2:
        return False, 'diff_lists is not called exactly once with two positional line lists'
    ta, tb = as_py(ex[0].args[0]), as_py(ex[0].args[1])
    import re as _re
    norm = lambda t: _re.sub(r'<[^>]*>', '<_>', t.decl().name())       # a method's function symbol carries its receiver's name
    if ta.num_args() == 0 or tb.num_args() == 0:
        return None          # cut by a helper this table does not know: the shape-agreement obligation decides
    if tb.num_args() != ta.num_args() or norm(ta) != norm(tb):
        return False, 'the two line lists are not produced by the same pure function'
    pa = [i for i in range(ta.num_args()) if ta.arg(i).eq(as_py(a))]
    ok = len(pa) >= 1 and all(tb.arg(i).eq(as_py(b)) if i in pa else tb.arg(i).eq(ta.arg(i)) for i in range(ta.num_args()))
    return ok, 'the lists diffed are %s applied to a and to b' % norm(ta)


def ds_result_is_list_diff(path):
    "a returning path yields the diff_lists result, or the empty diff when it never called diff_lists"
    if path.outcome != 'return':
        return None
    ex = _eff(path, 'diff_lists')
    if ex:
        return as_py(path.value).eq(as_py(ex[0].result)), 'the result is what diff_lists returned'
    v = path.value
    return (v.kind == 'const' and v.t == []), 'without a list diff the result is the empty diff'


def ps_join_of_patch_list(path):
    "patch_string returns ''.join(patch_list(list(obj), flatten_list_of_string_diff(obj, diff)))"
    if path.outcome != 'return':
        return None
    fl, pl = _eff(path, 'flatten'), _eff(path, 'patch_list')
    obj, diff = path.env['obj'], path.env.get('diff')
    if len(fl) != 1 or len(pl) != 1:
        return False, 'flatten / patch_list are not each called exactly once'
    from pyvc.effects import as_py as _ap, const as _c
    ok = _ap(fl[0].args[0]).eq(_ap(obj)) and _ap(pl[0].args[1]).eq(_ap(fl[0].result))
    lst = _ap(pl[0].args[0])
    ok = ok and lst.decl().name().endswith('builtins.list') and lst.arg(0).eq(_ap(obj))
    ret = _ap(path.value)
    ok = ok and ret.decl().name().endswith('.join') and any(ret.arg(i).eq(_ap(pl[0].result)) for i in range(ret.num_args())) \
        and "''" in _consts_in(ret)
    return ok, "the characters of obj and the flattened diff go to patch_list, whose result is joined with ''"


KIT_S_JOBS = [
    ('nbdime.diffing.sequences.diff_strings_linewise', STRINGS, [('lines-keepends', ds_lines_keepends), ('result-is-list-diff', ds_result_is_list_diff)], False),
    ('nbdime.patching.patch_string', STRINGS, [('join-of-patch-list', ps_join_of_patch_list)], False),
]


def kit_s_split_obligations(repo):
    """Agreement of the two sides on where lines end: the expression that cuts `a` (and `b`) into the line lists handed to diff_lists
    in diff_strings_linewise, and the expression that cuts the string in flatten_list_of_string_diff, have the same shape
    (e.g. `_.splitlines(True)` on both sides, or the same helper called the same way).
    Returns (text, ok, kind); kind 'shape' = code not in the recognised form (no statement, the bounded round trip decides)."""
    import ast as _ast
    import os as _os

    def fn_node(rel, name):
        tree = _ast.parse(open(_os.path.join(repo, rel)).read())
        return next((n for n in _ast.walk(tree) if isinstance(n, _ast.FunctionDef) and n.name == name), None)

    class _Norm(_ast.NodeTransformer):
        def __init__(self, var):
            self.var = var

        def visit_Name(self, node):
            return _ast.copy_location(_ast.Name(id='_', ctx=node.ctx), node) if node.id == self.var else node

    def shape(expr, var):
        import copy as _copy
        return _ast.unparse(_Norm(var).visit(_copy.deepcopy(expr)))

    out = []
    d = fn_node('nbdime/diffing/sequences.py', 'diff_strings_linewise')
    f = fn_node('nbdime/diff_utils.py', 'flatten_list_of_string_diff')
    if d is None or f is None:
        return [('diff_strings_linewise and flatten_list_of_string_diff exist', False, 'shape')]
    dparams = [x.arg for x in d.args.args]
    call = next((c for c in _ast.walk(d) if isinstance(c, _ast.Call) and _ast.unparse(c.func).split('.')[-1] == 'diff_lists'), None)
    if call is None or len(call.args) < 2 or len(dparams) < 2:
        return [('diff_strings_linewise hands two line lists to diff_lists', False, 'shape')]
    shapes = []
    for arg, var in zip(call.args[:2], dparams[:2]):
        expr = arg
        if isinstance(arg, _ast.Name):
            asg = [n for n in _ast.walk(d) if isinstance(n, _ast.Assign) and len(n.targets) == 1 and isinstance(n.targets[0], _ast.Name)
                   and n.targets[0].id == arg.id]
            if len(asg) != 1:
                out.append(('the line list %s of diff_strings_linewise is assigned exactly once' % arg.id, False, 'shape'))
                continue
            expr = asg[0].value
        uses = {n.id for n in _ast.walk(expr) if isinstance(n, _ast.Name)} & set(dparams)
        out.append(('line list %d of diff_strings_linewise is cut from its own string only (%s)' % (len(shapes) + 1, _ast.unparse(expr)), uses == {var}, 'content'))
        shapes.append(shape(expr, var))
    if len(shapes) == 2:
        out.append(('both strings are cut the same way on the diff side: %s / %s' % tuple(shapes), shapes[0] == shapes[1], 'content'))
    fvar = f.args.args[0].arg
    cuts = [n for n in _ast.walk(f) if isinstance(n, _ast.Assign) and len(n.targets) == 1 and isinstance(n.targets[0], _ast.Name)
            and n.targets[0].id == fvar and any(isinstance(x, _ast.Name) and x.id == fvar for x in _ast.walk(n.value))]
    out.append(('flatten_list_of_string_diff cuts its string argument in exactly one place', len(cuts) == 1, 'shape'))
    if len(cuts) == 1 and shapes:
        ps = shape(cuts[0].value, fvar)
        out.append(('differ and patcher cut strings into lines the same way: %s (diff side) vs %s (patch side)' % (shapes[0], ps), ps == shapes[0], 'content'))
    return out


# ------------------------------------------------------------------------------------------ C09: ordering clause, structural part
def c09_order_obligations(repo):
    """The ordering clause of C09 rests on three facts about the code, each an obligation on the current source:
      (1) MergeDecisionBuilder.validated returns sorted(self.decisions, key=_sort_key, reverse=True);
      (2) _sort_key is an elementwise map of common_path: one loop over k.common_path, on every path through the loop body exactly
          one element is appended to the result, built from the current path element alone, nothing else writes the result;
      (3) every appended element is a tuple whose first component is a string (the constant '' for list indices, the key itself for
          dict keys), so that Python can compare any two of them.
    From these, by the meaning of Python's list comparison (a proper prefix is smaller) and of sorted(reverse=True): the key of a
    decision inside a sub-document has the key of every enclosing path as a proper prefix, hence is larger, hence sorts first; and
    ('', -i) makes higher list indices sort first.  [semantics of list/tuple comparison and of sorted: assumed]
    Returns (text, ok, kind): kind 'shape' = the code is not written in the recognised form (no statement is made, the bounded
    ordering oracle decides); kind 'content' = the recognised form says something else than the clause needs."""
    import ast as _ast
    import os as _os
    tree = _ast.parse(open(_os.path.join(repo, 'nbdime', 'merging', 'decisions.py')).read())
    out = []
    cls = next((n for n in tree.body if isinstance(n, _ast.ClassDef) and n.name == 'MergeDecisionBuilder'), None)
    val = next((n for n in (cls.body if cls else []) if isinstance(n, _ast.FunctionDef) and n.name == 'validated'), None)
    rets = [n for n in _ast.walk(val) if isinstance(n, _ast.Return)] if val else []
    ok = False
    if len(rets) == 1 and isinstance(rets[0].value, _ast.Call) and _ast.unparse(rets[0].value.func) == 'sorted':
        c = rets[0].value
        kw = {k.arg: k.value for k in c.keywords}
        ok = (len(c.args) == 1 and _ast.unparse(c.args[0]) == 'self.decisions' and set(kw) == {'key', 'reverse'} and
              _ast.unparse(kw['key']) == '_sort_key' and isinstance(kw['reverse'], _ast.Constant) and kw['reverse'].value is True)
    recognised = len(rets) == 1 and isinstance(rets[0].value, _ast.Call) and _ast.unparse(rets[0].value.func) == 'sorted'
    out.append(('validated() returns sorted(self.decisions, key=_sort_key, reverse=True)', ok, 'content' if recognised else 'shape'))
    fn = next((n for n in tree.body if isinstance(n, _ast.FunctionDef) and n.name == '_sort_key'), None)
    if fn is None:
        return out + [('_sort_key exists', False, 'shape')]
    body = [s for s in fn.body if not (isinstance(s, _ast.Expr) and isinstance(s.value, _ast.Constant))]
    shape = (len(body) == 3 and isinstance(body[0], _ast.Assign) and isinstance(body[0].value, _ast.List) and not body[0].value.elts and
             isinstance(body[1], _ast.For) and isinstance(body[2], _ast.Return))
    out.append(('_sort_key is: result = []; one for loop; return result', shape, 'shape'))
    if not shape:
        return out
    res_name = body[0].targets[0].id if isinstance(body[0].targets[0], _ast.Name) else None
    loop = body[1]
    out.append(('the loop runs over <arg>.common_path and the result variable is returned',
                res_name is not None and _ast.unparse(loop.iter) == '%s.common_path' % fn.args.args[0].arg and
                isinstance(loop.target, _ast.Name) and _ast.unparse(body[2].value) == res_name and not loop.orelse, 'shape'))
    var = loop.target.id if isinstance(loop.target, _ast.Name) else '?'

    def appends(stmts):
        "set of possible numbers of result.append(..) executions over the paths through stmts; None if control leaves the loop body"
        counts = {0}
        for st in stmts:
            if isinstance(st, (_ast.Break, _ast.Continue, _ast.Return, _ast.Raise)):
                return None
            if isinstance(st, _ast.If):
                a, b = appends(st.body), appends(st.orelse)
                if a is None or b is None:
                    return None
                counts = {x + y for x in counts for y in (a | b)}
            elif isinstance(st, (_ast.For, _ast.While, _ast.Try, _ast.With)):
                return None
            else:
                n = sum(1 for c in _ast.walk(st) if isinstance(c, _ast.Call) and _ast.unparse(c.func) == '%s.append' % res_name)
                counts = {x + n for x in counts}
        return counts
    cnt = appends(loop.body)
    out.append(('every path through the loop body appends exactly one element', cnt == {1}, 'content' if cnt is not None else 'shape'))
    other_writes = [n for n in _ast.walk(loop) if isinstance(n, _ast.Name) and n.id == res_name and isinstance(n.ctx, _ast.Store)] + \
                   [c for c in _ast.walk(loop) if isinstance(c, _ast.Call) and isinstance(c.func, _ast.Attribute) and isinstance(c.func.value, _ast.Name)
                    and c.func.value.id == res_name and c.func.attr != 'append']
    out.append(('nothing but append touches the result inside the loop', not other_writes, 'content'))
    calls = [c for c in _ast.walk(loop) if isinstance(c, _ast.Call) and _ast.unparse(c.func) == '%s.append' % res_name]
    for c in calls:
        arg = c.args[0] if c.args else None
        names = {n.id for n in _ast.walk(arg) if isinstance(n, _ast.Name)} if arg is not None else {'?'}
        out.append(('appended element %s is built from the current path element alone' % _ast.unparse(c), names <= {var}, 'content'))
        first_str = isinstance(arg, _ast.Tuple) and arg.elts and (
            (isinstance(arg.elts[0], _ast.Constant) and isinstance(arg.elts[0].value, str)) or
            (isinstance(arg.elts[0], _ast.Name) and arg.elts[0].id == var))
        out.append(('appended element %s is a tuple led by a string (\'\' or the key itself)' % _ast.unparse(c), bool(first_str), 'content'))
        if isinstance(arg, _ast.Tuple) and len(arg.elts) == 2 and isinstance(arg.elts[0], _ast.Constant):
            out.append(('list indices are keyed by (\'\', -index), so higher indices sort first under reverse=True: %s' % _ast.unparse(arg),
                        arg.elts[0].value == '' and _ast.unparse(arg.elts[1]) == '-%s' % var, 'content'))
    return out


# ------------------------------------------------------------------------------------------ C01 (file interface of the diff command)

HANDLE_DIFF = dict(COMMON, **{
    'nbdime.utils.read_notebook': {'effect': 'read', 'raises': True},
    'nbdime.diffing.notebooks.diff_notebooks': {'effect': 'diff', 'raises': True, 'effect_on_raise': False},
    'nbdime.diffing.diff_notebooks': {'effect': 'diff', 'raises': True, 'effect_on_raise': False},
    'builtins.open': {'effect': 'open_out', 'raises': True, 'effect_on_raise': False},
    'io.open': {'effect': 'open_out', 'raises': True, 'effect_on_raise': False},
    'json.dump': {'effect': 'dump', 'raises': True, 'returns': 'none'},
    'builtins.print': {'effect': 'print', 'raises': False, 'returns': 'none'},
    'nbdime.args.prettyprint_config_from_args': {'effect': None, 'raises': True},
    'nbdime.prettyprint.pretty_print_notebook_diff': {'effect': 'print_diff', 'raises': True, 'returns': 'none'},
    'os.path.exists': {'effect': None, 'raises': False, 'returns': 'bool'},
})


def hd_diff_delivered(path):
    "every returning path that computed the diff delivers it: written once with json.dump to a file opened on `output` when an output file is named, pretty-printed once otherwise"
    if path.outcome != 'return':
        return None
    ds = _eff(path, 'diff')
    if not ds:
        return None                      # the early exit for a missing file
    d = ds[0]
    output = path.env.get('output')
    if output is None:
        raise _oos('no parameter `output`')
    dumps, prints, opens = _eff(path, 'dump'), _eff(path, 'print_diff'), _eff(path, 'open_out')
    named, _, _ = path.entails(truth(output))
    unnamed, _, _ = path.entails(z3.Not(truth(output)))
    if named:
        if not dumps:
            # written by other means than json.dump (a helper, Path.write_text, ...): not visible here, the file-interface runs decide
            raise _oos('no json.dump on the path that names an output file')
        if len(dumps) != 1:
            return False, '%d json.dump calls on a returning path with an output file' % len(dumps)
        if not as_py(dumps[0].args[0]).eq(as_py(d.result)):
            return False, 'what is dumped is not the diff computed on this path'
        if not opens or not as_py(opens[0].args[0]).eq(as_py(output)):
            return False, 'the file opened is not `output`'
        return True, 'diff dumped to the named output'
    if unnamed:
        if len(prints) != 1 or dumps:
            return False, 'without an output file the diff is not printed exactly once'
        return True, 'diff pretty-printed'
    if not dumps and not prints:
        # the path returns without ever asking whether an output file was named, and delivers the computed diff nowhere:
        # with an output file named, no file is written
        return False, 'the diff is computed but neither written nor printed on a returning path'
    raise _oos('a returning path that delivers the diff without deciding whether an output file was named')


C01_FILE_JOBS = [
    ('nbdime.nbdiffapp._handle_diff', HANDLE_DIFF, [('diff-delivered', hd_diff_delivered), ('no-swallowed-exception', no_swallowed_exception)], False),
]
