"""Kit F sidecar contract: the module-level mutable state of nbdime and who may touch it (C12, C13).

G0 (the invariant every public call preserves): notebook_differs / notebook_predicates hold, for every key
present, either the default for that key or the value installed by the ignore options in force; caches hold
f(args) of deterministic f; _merge_strings.recursion is False between calls; config caches hold one default
instance per class.  A site not listed here fails its obligation."""

D = 'nbdime.diffing.notebooks.'
G = 'nbdime.diffing.generic.'

OBJECTS = {
    D + 'notebook_differs': {
        'why': 'differ table; only the ignore-option setters write it; subscript reads insert the registered default (defaultdict2.__missing__), which is unobservable',
        'write': {D + 'reset_notebook_differ', D + 'set_notebook_diff_ignores'},
        'subscript-read': {D + 'set_notebook_diff_ignores', D + 'diff_cells', D + 'diff_item_at_path', G + 'diff_dicts', G + 'diff_lists',
                           'nbdime.diffing.snakes.compute_diff_from_snakes', 'nbdime.diffing.config.DiffConfig.diff_item_at_path'},
        'history-read': {D + 'reset_notebook_differ': 'iterates the keys in order to delete every one of them',
                         D + 'set_notebook_diff_ignores': 'membership only guards a del that restores the default',
                         'nbdime.diffing.config.DiffConfig.__copy__': 'copies the table for one merge comparison; inserted defaults equal the defaults'},
    },
    D + 'notebook_predicates': {
        'why': 'predicate table; never written by nbdime after import: _lookup_predicates removes the default entry a lookup inserts',
        'write': {G + '_lookup_predicates'},
        'subscript-read': {G + '_lookup_predicates'},
        'history-read': {G + '_lookup_predicates': 'membership decides only whether the looked-up default is popped again',
                         G + 'diff_dicts': 'membership guard: true only for explicitly configured paths because lookups leave no entry behind',
                         'nbdime.diffing.config.DiffConfig.__copy__': 'copy for one merge comparison'},
    },
    D + 'notebook_config._atomic_paths': {
        'why': 'constant after import', 'write': set(),
        'subscript-read': {'nbdime.diffing.config.DiffConfig.is_atomic'},
        'history-read': {'nbdime.diffing.config.DiffConfig.__copy__': 'copy'},
    },
    D + 'notebook_config': {'why': 'holds the two tables above; itself never rebound', 'write': set(), 'subscript-read': set(), 'history-read': {}},
    D + 'compare_text_approximate': {'why': 'lru_cache(typed=False) of a deterministic function; all call sites pass str (or None) arguments',
                                     'write': set(), 'subscript-read': set(), 'history-read': {}},
    D + '_compare_mimedata_strings': {'why': 'lru_cache of a deterministic function of (str, str, function, function)',
                                      'write': set(), 'subscript-read': set(), 'history-read': {}},
    'nbdime.merging.generic._merge_strings.recursion': {
        'why': 're-entrancy flag: set True and reset to False in a try/finally inside _merge_strings; False between calls',
        'write': {'nbdime.merging.generic._merge_strings', 'nbdime.merging.generic.<module>'}, 'subscript-read': set(), 'history-read': {}},
    'nbdime.config._config_cache': {
        'why': 'one default-constructed traitlets instance per config class; only ever read for its configured_traits()',
        'write': {'nbdime.config.config_instance'}, 'subscript-read': {'nbdime.config.config_instance'},
        'history-read': {'nbdime.config.config_instance': 'membership = cache hit test'}},
    'nbdime.config.entrypoint_configurables': {
        'why': 'constant table', 'write': set(), 'subscript-read': {'nbdime.config.build_config', 'nbdime.args.ConfigHelpAction.__call__'},
        'history-read': {'nbdime.config.build_config': 'constant table', 'nbdime.__main__.main_dispatch': 'constant table'}},
    'nbdime.prettyprint.c.called': {'why': 'attribute of a closure created per pretty_print_cell call (not module-level state)',
                                    'write': {'nbdime.prettyprint.pretty_print_cell', 'nbdime.prettyprint.pretty_print_cell.c'}, 'subscript-read': set(), 'history-read': {}},
    'nbdime.prettyprint.DefaultConfig': {
        'why': 'shared default PrettyPrintConfig; pretty_print_notebook stores `language` into whatever config it is given (rendering only, C16), diffing never reads it',
        'write': {'nbdime.prettyprint.pretty_print_notebook'}, 'subscript-read': set(), 'history-read': {}},
    'nbdime.prettyprint.col_const': {'why': 'constant table', 'write': set(), 'subscript-read': {'nbdime.prettyprint.PrettyPrintConfig.KEEP', 'nbdime.prettyprint.PrettyPrintConfig.REMOVE',
                                     'nbdime.prettyprint.PrettyPrintConfig.ADD', 'nbdime.prettyprint.PrettyPrintConfig.INFO', 'nbdime.prettyprint.PrettyPrintConfig.RESET'}, 'history-read': {}},
}

W = 'nbdime.webapp.nbdimeserver.'
OBJECTS['nbdime.webapp.<application settings>'] = {
    'why': "tornado's application settings and the application object, shared by all requests of a server: written at start-up (init_app), by the "
           "shutdown request (exit_code, read only after the loop has ended) and once by the merge handler, which keeps the constant argument namespace "
           "of the web merge (build_merge_parser().parse_args(['', '', '']) with strategy mergetool -- no data of any request). No handler may keep "
           "anything else there: an answer is a function of the request and of the files as they are on disk",
    'write': {W + 'init_app', W + 'ApiCloseHandler.post', W + 'ApiMergeHandler.post'},
    'reads': 'free', 'subscript-read': set(), 'history-read': {}}
OBJECTS['nbdime.webapp.<server start-up parameters>'] = {
    'why': 'the keyword parameters the server was started with (handlers get them through initialize): never written after start-up',
    'write': set(), 'reads': 'free', 'subscript-read': set(), 'history-read': {}}

# constant module-level lists/dicts (never written; any write site fails)
CONSTANT = {
    'nbdime.__all__', 'nbdime.__main__.COMMANDS', 'nbdime._version._specifier_', 'nbdime.args.filename_help',
    'nbdime.diffing.__all__', 'nbdime.diffing.generic.__all__', 'nbdime.diffing.notebooks.__all__', 'nbdime.diffing.seq_bruteforce.__all__',
    'nbdime.diffing.seq_difflib.__all__', 'nbdime.diffing.seq_myers.__all__', 'nbdime.diffing.sequences.__all__', 'nbdime.diffing.snakes.__all__',
    'nbdime.merging.__all__', 'nbdime.patching.__all__',
    'nbdime.webapp.nb_server_extension.file_checkpoint_mixin_types', 'nbdime.webapp.nb_server_extension.generic_checkpoint_mixin_types',
    'nbdime.webapp.nb_server_extension.special_refs',
}

# the only shared default argument values: the rendering config (C16), never a document and never read by the differ/merger
ALLOWED_SHARED_DEFAULT = 'DefaultConfig'
