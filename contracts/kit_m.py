# Sidecar contracts, Kit M (mapping diff / patch).

@contract("nbdime.patching.patch_dict", properties=["C02", "C01"])
def patch_dict(obj: "map", diff: "Seq[ME]") -> "map":
    # wf_map: keys pairwise distinct; add names an absent key, remove/replace/patch a present one; patch diffs non-empty
    requires(wf_map(diff, obj))
    ensures(result == apply_map(obj, diff))
    with loop(1, index="k"):
        invariant(all(implies(diff[q].op != "remove", diff[q].key in newobj) and implies(diff[q].op == "remove", diff[q].key in deleted_keys)
                      for q in range(k)))
        invariant(all(implies(s in newobj, 0 <= entry_for(diff, s) and entry_for(diff, s) < k and diff[entry_for(diff, s)].op != "remove")
                      for s in STR))
        invariant(all(implies(s in deleted_keys, 0 <= entry_for(diff, s) and entry_for(diff, s) < k and diff[entry_for(diff, s)].op == "remove")
                      for s in STR))
        invariant(all(implies(s in newobj,
                              newobj[s] == (apply_v(obj[s], diff[entry_for(diff, s)].diff) if diff[entry_for(diff, s)].op == "patch"
                                            else diff[entry_for(diff, s)].value))
                      for s in STR))
    with loop(2, index="m"):
        invariant(all(implies(s in deleted_keys, 0 <= entry_for(diff, s) and diff[entry_for(diff, s)].op == "remove") for s in STR))
        invariant(all(implies(0 <= entry_for(diff, s) and diff[entry_for(diff, s)].op == "remove", s in deleted_keys) for s in STR))
        invariant(all(implies(0 <= entry_for(diff, s) and diff[entry_for(diff, s)].op != "remove", s in newobj) for s in STR))
        invariant(all(implies(entry_for(diff, s) < 0 and s in obj and enum_pos(keys_of(obj), s) < m, s in newobj) for s in STR))
        invariant(all(implies(s in newobj, (0 <= entry_for(diff, s) and diff[entry_for(diff, s)].op != "remove") or
                                           (entry_for(diff, s) < 0 and s in obj and enum_pos(keys_of(obj), s) < m))
                      for s in STR))
        invariant(all(implies(s in newobj and 0 <= entry_for(diff, s),
                              newobj[s] == (apply_v(obj[s], diff[entry_for(diff, s)].diff) if diff[entry_for(diff, s)].op == "patch"
                                            else diff[entry_for(diff, s)].value))
                      for s in STR))
        invariant(all(implies(s in newobj and entry_for(diff, s) < 0, newobj[s] == obj[s]) for s in STR))
