# Sidecar contracts, Kit M (mapping diff / patch).

@contract("nbdime.patching.patch_dict", properties=["C02", "C01"])
def patch_dict(obj: "map", diff: "Seq[ME]") -> "map":
    # wf_map: keys pairwise distinct; add names an absent key, remove/replace/patch a present one; patch diffs non-empty
    requires(wf_map(diff, obj))
    # nested diffs are well formed for the values they patch
    requires(all(implies(diff[q].op == "patch", wf_v(obj[diff[q].key], diff[q].diff)) for q in range(len(diff))))
    ensures(result == apply_map(obj, diff))
    with loop(1, index="k"):
        invariant(all(implies(diff[q].op != "remove", diff[q].key in newobj) and implies(diff[q].op == "remove", diff[q].key in deleted_keys)
                      for q in range(k)))
        invariant(all(implies(s in newobj, 0 <= entry_for(diff, s) and entry_for(diff, s) < k and diff[entry_for(diff, s)].op != "remove")
                      for s in STR))
        invariant(all(implies(s in deleted_keys, 0 <= entry_for(diff, s) and entry_for(diff, s) < k and diff[entry_for(diff, s)].op == "remove")
                      for s in STR))
        invariant(all(implies(s in newobj,
                              newobj[s] == (apply_v(obj[s], diff[entry_for(diff, s)].diff) if diff[entry_for(diff, s)].op == "patch"
                                            else diff[entry_for(diff, s)].value))
                      for s in STR))
    with loop(2, index="m"):
        invariant(all(implies(s in deleted_keys, 0 <= entry_for(diff, s) and diff[entry_for(diff, s)].op == "remove") for s in STR))
        invariant(all(implies(0 <= entry_for(diff, s) and diff[entry_for(diff, s)].op == "remove", s in deleted_keys) for s in STR))
        invariant(all(implies(0 <= entry_for(diff, s) and diff[entry_for(diff, s)].op != "remove", s in newobj) for s in STR))
        invariant(all(implies(entry_for(diff, s) < 0 and s in obj and enum_pos(keys_of(obj), s) < m, s in newobj) for s in STR))
        invariant(all(implies(s in newobj, (0 <= entry_for(diff, s) and diff[entry_for(diff, s)].op != "remove") or
                                           (entry_for(diff, s) < 0 and s in obj and enum_pos(keys_of(obj), s) < m))
                      for s in STR))
        invariant(all(implies(s in newobj and 0 <= entry_for(diff, s),
                              newobj[s] == (apply_v(obj[s], diff[entry_for(diff, s)].diff) if diff[entry_for(diff, s)].op == "patch"
                                            else diff[entry_for(diff, s)].value))
                      for s in STR))
        invariant(all(implies(s in newobj and entry_for(diff, s) < 0, newobj[s] == obj[s]) for s in STR))


# ------------------------------------------------------------------ mapping diff entries and builder

fields("nbdime.diff_format.MappingDiffBuilder", _diff="emap")


@contract("nbdime.diff_format.op_add", properties=["C02", "C11"])
def op_add(key: "str", value: "V") -> "ME":
    ensures(result.op == "add" and result.key == key and result.value == value)
    ensures(has_value(result) and not has_valuelist(result) and not has_length(result) and not has_diff(result))


@contract("nbdime.diff_format.op_remove", properties=["C02", "C11"])
def op_remove(key: "str") -> "ME":
    ensures(result.op == "remove" and result.key == key)
    ensures(not has_value(result) and not has_valuelist(result) and not has_length(result) and not has_diff(result))


@contract("nbdime.diff_format.op_replace", properties=["C02", "C11"])
def op_replace(key: "str", value: "V") -> "ME":
    ensures(result.op == "replace" and result.key == key and result.value == value)
    ensures(has_value(result) and not has_valuelist(result) and not has_length(result) and not has_diff(result))


# the same real function as Kit L's op_patch, verified a second time for string keys
@contract("nbdime.diff_format.op_patch#str", properties=["C02", "C11"])
def op_patch_str(key: "str", diff: "Seq[E]") -> "ME":
    ensures(result.op == "patch" and result.key == key and result.diff == diff)
    ensures(has_diff(result) and not has_valuelist(result) and not has_length(result) and not has_value(result))


@contract("nbdime.diff_format.MappingDiffBuilder.__init__", properties=["C02", "C11"])
def __init__(self: "obj:nbdime.diff_format.MappingDiffBuilder"):
    modifies(self._diff)
    ensures(all(not (s in self._diff) for s in STR))


@contract("nbdime.diff_format.MappingDiffBuilder.append", properties=["C02", "C11"])
def append(self: "obj:nbdime.diff_format.MappingDiffBuilder", entry: "ME"):
    requires(entry.op == "add" or entry.op == "remove" or entry.op == "replace" or entry.op == "patch")
    requires(not (entry.key in self._diff))
    modifies(self._diff)
    ensures(self._diff == em_put(old(self._diff), entry.key, entry))


@inline("nbdime.diff_format.MappingDiffBuilder.add")
def add(self: "obj:nbdime.diff_format.MappingDiffBuilder", key: "str", value: "V"):
    pass


@inline("nbdime.diff_format.MappingDiffBuilder.remove")
def remove(self: "obj:nbdime.diff_format.MappingDiffBuilder", key: "str"):
    pass


@inline("nbdime.diff_format.MappingDiffBuilder.replace")
def replace(self: "obj:nbdime.diff_format.MappingDiffBuilder", key: "str", value: "V"):
    pass


@inline("nbdime.diff_format.MappingDiffBuilder.patch")
def patch(self: "obj:nbdime.diff_format.MappingDiffBuilder", key: "str", diff: "Seq[E]"):
    pass


@contract("nbdime.diff_format.MappingDiffBuilder.validated", properties=["C02", "C11"])
def validated(self: "obj:nbdime.diff_format.MappingDiffBuilder") -> "Seq[ME]":
    # class invariant established by append's callers: every entry is filed under its own key
    requires(keyed(self._diff))
    ensures(all(result[i].key in self._diff and result[i] == self._diff[result[i].key] for i in range(len(result))))
    ensures(all(result[i].key != result[j].key for i in range(len(result)) for j in range(i + 1, len(result))))
    finally_check(all(implies(s in self._diff, result[key_pos(ekeys_of(self._diff), s)] == self._diff[s]) for s in STR))
    ensures(all(implies(0 <= entry_for(result, s), s in self._diff) for s in STR))
    ensures(all(implies(s in self._diff, 0 <= entry_for(result, s)) for s in STR))
    ensures(all(implies(s in self._diff, result[entry_for(result, s)] == self._diff[s]) for s in STR))


# ------------------------------------------------------------------ diff_dicts

@contract("nbdime.diffing.generic.diff_dicts", properties=["C02", "C11", "C01"])
def diff_dicts(a: "map", b: "map", path: "path", config: "cfg") -> "Seq[ME]":
    # table contract: every registered differ patches x into y (as for diff_lists)
    requires(differs_ok() and atomic_ok())
    # no sequence predicates are registered for a dict path (otherwise the function raises RuntimeError by design)
    requires(not has_preds(path_norm(path)))
    # values compared with python `!=` (different types, or atomic): python equality is exact on them.  This is the clause
    # True == 1 == 1.0 violates -- see known_findings.json (C02-pyeq)
    requires(all(implies(s in a and s in b and pyeq(a[s], b[s]) and
                         not (same_type(a[s], b[s]) and not is_atomic(a[s], path_key(path, s))), a[s] == b[s]) for s in STR))
    ensures(wf_map(result, a))
    ensures(apply_map(a, result) == b)
    # deep well-formedness (C11): the nested diff of every patch entry is well formed for the value it patches
    ensures(all(implies(result[q].op == "patch", wf_v(a[result[q].key], result[q].diff)) for q in range(len(result))))
    with loop(1, index="k1"):
        invariant(akeys == keys_of(a) and bkeys == keys_of(b))
        invariant(all(implies(s in di._diff, s in a and not (s in b) and key_pos(kdiff(akeys, bkeys), s) < k1) for s in STR))
        invariant(all(implies(s in a and not (s in b) and key_pos(kdiff(akeys, bkeys), s) < k1, s in di._diff) for s in STR))
        invariant(all(implies(s in di._diff, di._diff[s].key == s and di._diff[s].op == "remove") for s in STR))
    with loop(2, index="k2"):
        invariant(all(implies(s in di._diff and di._diff[s].op == "patch", wf_v(a[s], di._diff[s].diff)) for s in STR))
        invariant(akeys == keys_of(a) and bkeys == keys_of(b))
        invariant(all(implies(s in a and not (s in b), s in di._diff) for s in STR))
        invariant(all(implies(s in di._diff, (s in a and not (s in b)) or
                                             (s in a and s in b and key_pos(kinter(akeys, bkeys), s) < k2)) for s in STR))
        invariant(all(implies(s in a and s in b and key_pos(kinter(akeys, bkeys), s) < k2 and not (s in di._diff), a[s] == b[s])
                      for s in STR))
        invariant(all(implies(s in di._diff, di._diff[s].key == s) for s in STR))
        invariant(all(implies(s in di._diff and not (s in b), di._diff[s].op == "remove") for s in STR))
        invariant(all(implies(s in di._diff and s in b,
                              (di._diff[s].op == "patch" and has_diff(di._diff[s]) and len(di._diff[s].diff) >= 1 and
                               apply_v(a[s], di._diff[s].diff) == b[s]) or
                              (di._diff[s].op == "replace" and has_value(di._diff[s]) and di._diff[s].value == b[s]))
                      for s in STR))
    with loop(3, index="k3"):
        invariant(all(implies(s in di._diff and di._diff[s].op == "patch", wf_v(a[s], di._diff[s].diff)) for s in STR))
        invariant(akeys == keys_of(a) and bkeys == keys_of(b))
        invariant(all(implies(s in a and not (s in b), s in di._diff) for s in STR))
        invariant(all(implies(s in a and s in b and not (s in di._diff), a[s] == b[s]) for s in STR))
        invariant(all(implies(s in b and not (s in a) and key_pos(kdiff(bkeys, akeys), s) < k3, s in di._diff) for s in STR))
        invariant(all(implies(s in di._diff, s in a or (s in b and key_pos(kdiff(bkeys, akeys), s) < k3)) for s in STR))
        invariant(all(implies(s in di._diff, di._diff[s].key == s) for s in STR))
        invariant(all(implies(s in di._diff and not (s in b), di._diff[s].op == "remove") for s in STR))
        invariant(all(implies(s in di._diff and s in b and s in a,
                              (di._diff[s].op == "patch" and has_diff(di._diff[s]) and len(di._diff[s].diff) >= 1 and
                               apply_v(a[s], di._diff[s].diff) == b[s]) or
                              (di._diff[s].op == "replace" and has_value(di._diff[s]) and di._diff[s].value == b[s]))
                      for s in STR))
        invariant(all(implies(s in di._diff and not (s in a),
                              di._diff[s].op == "add" and has_value(di._diff[s]) and di._diff[s].value == b[s]) for s in STR))


# ------------------------------------------------------------------ validate_diff (called by the dispatcher on its own result)

@contract("nbdime.diff_format.validate_diff_entry", properties=["C02", "C11"])
def validate_diff_entry(e: "E", deep: "bool" = False):
    # shallow validation only (deep=False is what the dispatcher uses): returns without raising for a sequence entry whose
    # op is known and which carries the field its op needs
    requires(not deep)
    requires(e.op == "addrange" or e.op == "removerange" or e.op == "patch")
    requires(implies(e.op == "addrange", has_valuelist(e)) and implies(e.op == "removerange", has_length(e)))


@contract("nbdime.diff_format.validate_diff_entry#map", properties=["C02", "C11"])
def validate_diff_entry_map(e: "ME", deep: "bool" = False):
    requires(not deep)
    requires(e.op == "add" or e.op == "remove" or e.op == "replace" or e.op == "patch")


@contract("nbdime.diff_format.validate_diff", properties=["C02", "C11"])
def validate_diff(diff: "Seq[E]", deep: "bool" = False):
    requires(not deep)
    requires(all((diff[q].op == "addrange" or diff[q].op == "removerange" or diff[q].op == "patch") and
                 implies(diff[q].op == "addrange", has_valuelist(diff[q])) and implies(diff[q].op == "removerange", has_length(diff[q]))
                 for q in range(len(diff))))
    with loop(1, index="k"):
        invariant(not deep)


@contract("nbdime.diff_format.validate_diff#map", properties=["C02", "C11"])
def validate_diff_map(diff: "Seq[ME]", deep: "bool" = False):
    requires(not deep)
    requires(all(diff[q].op == "add" or diff[q].op == "remove" or diff[q].op == "replace" or diff[q].op == "patch" for q in range(len(diff))))
    with loop(1, index="k"):
        invariant(not deep)


# ------------------------------------------------------------------ the type dispatcher of the differ

@assumed("nbdime.diffing.sequences.diff_strings_linewise", properties=["C02", "C01"])
def diff_strings_linewise(a: "V", b: "V") -> "Seq[E]":
    # ASSUMED (Kit S not built; difflib based): the line-based string differ returns a well-formed sequence diff that patches a into b.
    # Exercised at run time by the bounded stand-ins (strings with \r, \x0b, \x85, missing final newline).
    requires(is_str(a) and is_str(b))
    ensures(apply_v(a, result) == b)
    ensures(wf_v(a, result))
    ensures(all((result[q].op == "addrange" or result[q].op == "removerange" or result[q].op == "patch") and
                implies(result[q].op == "addrange", has_valuelist(result[q])) and implies(result[q].op == "removerange", has_length(result[q]))
                for q in range(len(result))))


@lemma("apply_map_nil")
def apply_map_nil(m: "map", D: "Seq[ME]"):
    # applying the empty mapping diff changes nothing (pointwise from the definition of apply_map, then extensionality)
    requires(len(D) == 0)
    ensures(apply_map(m, D) == m)


@contract("nbdime.diffing.generic.diff", properties=["C02", "C01", "C11"])
def diff(a: "V", b: "V", path: "path", config: "cfg") -> "Seq[E]":
    # both values of one container type (otherwise the function raises RuntimeError by design)
    requires(diffable(a, b))
    requires(differs_ok() and atomic_ok())
    # the table contracts of the list differ, needed when a and b are lists
    requires(implies(is_list(a), len(preds_at(path)) >= 1))
    requires(implies(is_list(a) and len(preds_at(path)) == 1,
                     pred_exact(preds_at(path)[0], path_star(path)) and pred_typed(preds_at(path)[0], path_star(path))))
    requires(implies(is_list(a) and len(preds_at(path)) > 1, preds_diffable(preds_at(path))))
    # ... and of the dict differ, needed when they are dicts
    requires(implies(is_dict(a), not has_preds(path_norm(path))))
    requires(implies(is_dict(a), all(implies(s in as_map(a) and s in as_map(b) and pyeq(as_map(a)[s], as_map(b)[s]) and
                                             not (same_type(as_map(a)[s], as_map(b)[s]) and not is_atomic(as_map(a)[s], path_key(path, s))),
                                             as_map(a)[s] == as_map(b)[s]) for s in STR)))
    ensures(apply_v(a, result) == b)
    # C11 for generic diffs: the result is well formed for `a` all the way down
    ensures(wf_v(a, result))
    # C02, emptiness clause: an empty diff is produced only for identical documents
    ensures(implies(len(result) == 0, a == b))
    hint(apply_map_nil(as_map(a), result))


# ------------------------------------------------------------------ the round trip as client code over the two contracts

@lemma("roundtrip_generic")
def roundtrip_generic(a: "V", b: "V", path: "path", config: "cfg"):
    # C02 for containers: whatever satisfies the differ's preconditions can be handed to patch, and comes back as b.
    # Both calls go through the callee CONTRACTS (diff's postconditions are all patch gets to know).
    requires(diffable(a, b))
    requires(differs_ok() and atomic_ok())
    requires(implies(is_list(a), len(preds_at(path)) >= 1))
    requires(implies(is_list(a) and len(preds_at(path)) == 1,
                     pred_exact(preds_at(path)[0], path_star(path)) and pred_typed(preds_at(path)[0], path_star(path))))
    requires(implies(is_list(a) and len(preds_at(path)) > 1, preds_diffable(preds_at(path))))
    requires(implies(is_dict(a), not has_preds(path_norm(path))))
    requires(implies(is_dict(a), all(implies(s in as_map(a) and s in as_map(b) and pyeq(as_map(a)[s], as_map(b)[s]) and
                                             not (same_type(as_map(a)[s], as_map(b)[s]) and not is_atomic(as_map(a)[s], path_key(path, s))),
                                             as_map(a)[s] == as_map(b)[s]) for s in STR)))
    d = call("nbdime.diffing.generic.diff", a, b, path, config)
    r = call("nbdime.patching.patch", a, d)
    check(r == b)
