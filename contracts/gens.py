"""Custom small-scope input generators for functions whose preconditions are too selective for the
generic per-kind enumeration (pyvc.runtime.inputs_for).  Everything is built independently of the
function under test."""
import copy
import itertools
import operator


def _seqs(alphabet, maxlen):
    for n in range(maxlen + 1):
        for t in itertools.product(alphabet, repeat=n):
            yield list(t)


def _grid(A, B, f):
    return [[bool(f(a, b)) for b in B] for a in A]


def _llcs(G):
    N = len(G)
    M = len(G[0]) if N else 0
    R = [[0] * (M + 1) for _ in range(N + 1)]
    for x in range(1, N + 1):
        for y in range(1, M + 1):
            R[x][y] = R[x - 1][y - 1] + 1 if G[x - 1][y - 1] else max(R[x - 1][y], R[x][y - 1])
    return R


def gen_lcs_indices():
    for A in _seqs([0, 1], 3):
        for B in _seqs([0, 1], 3):
            for f in (operator.__eq__, lambda x, y: x != y):
                G = _grid(A, B, f)
                yield [A, B, G, _llcs(G), f]


def _sorted_diffs(n, maxlen):
    from nbdime.diff_format import op_addrange, op_removerange, op_patch, op_add
    ents = []
    for key in range(n + 1):
        ents.append(op_addrange(key, ['v']))
        if key < n:
            ents.append(op_removerange(key, 1))
            ents.append(op_patch(key, [op_add('k', 1)]))
    rank = lambda e: (e.key, 0 if e.op == 'addrange' else 1)
    for k in range(maxlen + 1):
        for combo in itertools.combinations_with_replacement(sorted(ents, key=rank), k):
            yield [copy.deepcopy(e) for e in combo]


def gen_append():
    from nbdime.diff_format import SequenceDiffBuilder, op_addrange, op_removerange, op_patch, op_add
    for D in _sorted_diffs(2, 3):
        for e in (op_addrange(0, ['n']), op_addrange(1, ['n']), op_addrange(2, ['n']),
                  op_removerange(0, 1), op_removerange(1, 1), op_patch(1, [op_add('z', 0)]), op_patch(0, [op_add('z', 0)])):
            b = SequenceDiffBuilder()
            b._diff = copy.deepcopy(D)
            yield [b, copy.deepcopy(e)]


def gen_diff_from_lcs():
    for A in _seqs([0, 1], 3):
        for B in _seqs([0, 1], 3):
            for n in range(min(len(A), len(B)) + 1):
                for Ai in itertools.combinations(range(len(A)), n):
                    for Bi in itertools.combinations(range(len(B)), n):
                        yield [A, B, list(Ai), list(Bi), operator.__eq__]
                        yield [A, B, list(Ai), list(Bi), (lambda x, y: True)]


def gen_patch_list():
    from nbdime.diff_format import op_addrange, op_removerange, op_patch, op_add
    import contracts.specs as specs
    for obj in ([], [0], [0, 1], [{'a': 0}, 1, [2]]):
        n = len(obj)
        ents = []
        for key in range(n + 1):
            ents.append(op_addrange(key, ['v']))
            ents.append(op_addrange(key, ['v', 'w']))
            for ln in (1, 2):
                if key + ln <= n:
                    ents.append(op_removerange(key, ln))
            if key < n and isinstance(obj[key], dict):
                ents.append(op_patch(key, [op_add('k', 1)]))
            if key < n and isinstance(obj[key], list):
                ents.append(op_patch(key, [op_addrange(0, [9])]))
        for k in range(4):
            for combo in itertools.combinations(ents, k):
                D = sorted((copy.deepcopy(e) for e in combo), key=lambda e: (e.key, 0 if e.op == 'addrange' else 1))
                if specs.wf_seq(D, n):
                    yield [copy.deepcopy(obj), D]


GENERATORS = {
    'nbdime.diffing.seq_bruteforce.bruteforce_lcs_indices': gen_lcs_indices,
    'nbdime.diff_format.SequenceDiffBuilder.append': gen_append,
    'nbdime.diffing.lcs.diff_from_lcs': gen_diff_from_lcs,
    'nbdime.patching.patch_list': gen_patch_list,
}


def _independent_snakes(A, B):
    "maximal runs of an LCS alignment under ==, computed here (not by nbdime)"
    G = _grid(A, B, operator.__eq__)
    R = _llcs(G)
    x, y, pairs = len(A), len(B), []
    while x > 0 and y > 0:
        if G[x - 1][y - 1]:
            x -= 1
            y -= 1
            pairs.append((x, y))
        elif R[x][y] == R[x - 1][y]:
            x -= 1
        else:
            y -= 1
    pairs.reverse()
    snakes = []
    for i, j in pairs:
        if snakes and snakes[-1][0] + snakes[-1][2] == i and snakes[-1][1] + snakes[-1][2] == j:
            snakes[-1] = (snakes[-1][0], snakes[-1][1], snakes[-1][2] + 1)
        else:
            snakes.append((i, j, 1))
    return snakes


def gen_snakes_diff():
    from nbdime.diffing.config import DiffConfig
    items = [{'a': 0}, {'a': 1}, [0], [0, 1], {'a': 0, 'b': 'x\n'}]
    for A in _seqs(items[:4], 3):
        for B in _seqs(items[:4], 2):
            yield [copy.deepcopy(A), copy.deepcopy(B), _independent_snakes(A, B), '', DiffConfig()]
            # also a deliberately coarser alignment: aligned items need not be equal, the differ patches them
            if A and B and type(A[0]) is type(B[0]):
                yield [copy.deepcopy(A), copy.deepcopy(B), [(0, 0, 1)], '', DiffConfig()]


def gen_multilevel():
    from nbdime.diffing.config import DiffConfig
    items = [{'a': 0}, {'a': 1}, [0], [0, 1]]
    for A in _seqs(items, 3):
        for B in _seqs(items, 2):
            yield [copy.deepcopy(A), copy.deepcopy(B), '', DiffConfig()]


GENERATORS.update({
    'nbdime.diffing.snakes.compute_diff_from_snakes': gen_snakes_diff,
    'nbdime.diffing.generic.diff_sequence_multilevel': gen_multilevel,
})


def gen_patch_dict():
    "dicts over keys {a,b} x values; mapping diffs with pairwise distinct keys over {a,b,c} (well-formed and not)"
    from nbdime.diff_format import op_add, op_remove, op_replace, op_patch, op_addrange
    vals = [0, [1], {'x': 0}]
    objs = [{}]
    for va in vals:
        objs.append({'a': va})
        for vb in vals[:2]:
            objs.append({'a': va, 'b': vb})
            objs.append({'b': vb, 'a': va})

    def entries(key):
        return [None, op_add(key, 7), op_remove(key), op_replace(key, [2]), op_patch(key, [op_addrange(0, [9])]),
                op_patch(key, [op_add('y', 1)])]
    for obj in objs:
        for ea in entries('a'):
            for eb in entries('b'):
                for ec in entries('c')[:2]:
                    for order in (0, 1):
                        D = [e for e in (ea, eb, ec) if e is not None]
                        # sub-diffs must fit the type of the value they patch (the assumed contract of `patch` covers well-typed diffs)
                        if any(e.op == 'patch' and e.key in obj and
                               not isinstance(obj[e.key], list if e.diff[0].op == 'addrange' else dict) for e in D):
                            continue
                        if order:
                            D.reverse()
                        yield [copy.deepcopy(obj), copy.deepcopy(D)]


GENERATORS['nbdime.patching.patch_dict'] = gen_patch_dict


def gen_diff_dicts():
    "pairs of dicts over keys {a,b,c}; values cross atomic / list / dict / string kinds; default DiffConfig"
    from nbdime.diffing.config import DiffConfig
    vals = [0, 1, 'x', 'x\ny\n', [1], [1, 2], {'k': 0}, {'k': 1}, None]
    keysets = [(), ('a',), ('b',), ('a', 'b'), ('b', 'a'), ('a', 'c')]
    import random
    rnd = random.Random(7)
    for ka in keysets:
        for kb in keysets:
            for _ in range(40):
                a = {k: copy.deepcopy(rnd.choice(vals)) for k in ka}
                b = {k: copy.deepcopy(rnd.choice(vals)) for k in kb}
                yield [a, b, '', DiffConfig()]


def gen_map_validated():
    from nbdime.diff_format import MappingDiffBuilder, op_add, op_remove, op_replace
    for keys in ((), ('a',), ('b', 'a'), ('c', 'a', 'b'), ('zz', 'b')):
        b = MappingDiffBuilder()
        for n, k in enumerate(keys):
            b._diff[k] = (op_add(k, n), op_remove(k), op_replace(k, [n]))[n % 3]
        yield [b]
    # not keyed: must be skipped by the precondition
    b = MappingDiffBuilder()
    b._diff['a'] = op_remove('b')
    yield [b]


def gen_map_append():
    from nbdime.diff_format import MappingDiffBuilder, op_add, op_remove, op_replace, op_patch
    for present in ((), ('a',), ('a', 'b')):
        for e in (op_add('c', 1), op_remove('b'), op_replace('a', 2), op_patch('zz', [op_add('k', 1)])):
            b = MappingDiffBuilder()
            for k in present:
                b._diff[k] = op_remove(k)
            yield [b, copy.deepcopy(e)]


GENERATORS.update({
    'nbdime.diffing.generic.diff_dicts': gen_diff_dicts,
    'nbdime.diff_format.MappingDiffBuilder.validated': gen_map_validated,
    'nbdime.diff_format.MappingDiffBuilder.append': gen_map_append,
})


_PREDS = [operator.__eq__, lambda x, y: type(x) is type(y), lambda x, y: True]


def gen_compute_snakes():
    "lists over 3 atoms of length <= 3, every sub-rectangle, three predicates (exact, same type, always)"
    items = [0, 1, 'a']
    for A in _seqs(items, 3):
        for B in _seqs(items[:2], 2):
            for f in _PREDS:
                for i0 in range(len(A) + 1):
                    for i1 in range(i0, len(A) + 1):
                        for j0 in range(len(B) + 1):
                            yield [list(A), list(B), f, (i0, j0, i1, len(B))]


def gen_snakes_multilevel():
    items = [0, 1, 'a', 'b']
    for A in _seqs(items, 3):
        for B in _seqs(items[:3], 3):
            for compares in ([_PREDS[0]], [_PREDS[1], _PREDS[0]], [_PREDS[2], _PREDS[1], _PREDS[0]]):
                yield [list(A), list(B), list(compares)]


def gen_snakes_multilevel_rect():
    items = [0, 1, 'a']
    for A in _seqs(items, 3):
        for B in _seqs(items, 2):
            for compares in ([_PREDS[1], _PREDS[0]], [_PREDS[2], _PREDS[1], _PREDS[0]]):
                for level in range(len(compares)):
                    for i0 in range(len(A) + 1):
                        for j0 in range(len(B) + 1):
                            yield [list(A), list(B), list(compares), (i0, j0, len(A), len(B)), level]
                            yield [list(A), list(B), list(compares), (0, 0, i0, j0), level]


GENERATORS.update({
    'nbdime.diffing.snakes.compute_snakes': gen_compute_snakes,
    'nbdime.diffing.snakes.compute_snakes_multilevel': gen_snakes_multilevel,
    'nbdime.diffing.snakes.compute_snakes_multilevel#rect': gen_snakes_multilevel_rect,
})


def gen_patch():
    "typed values (lists, dicts, strings, nested) with diffs produced for them and with hand-made ill-formed ones"
    from nbdime import diff
    from nbdime.diff_format import op_patch, op_addrange, op_removerange, op_add
    vals = [[], [0], [0, 1], [[0], {'a': 0}], {}, {'a': 0}, {'a': [0], 'b': 'x\n'}, {'a': {'k': 1}}, '', 'x\ny\n', 'x\nz']
    for a in vals:
        for b in vals:
            if type(a) is type(b):
                yield [copy.deepcopy(a), diff(a, b)]
        # ill-formed for a: must be skipped by the precondition
        yield [copy.deepcopy(a), [op_removerange(5, 1)]]
        yield [copy.deepcopy(a), [op_add('zz', 1), op_add('zz', 2)]]
    yield [0, []]


GENERATORS['nbdime.patching.patch'] = gen_patch


def gen_diff():
    "pairs of typed values of one container type (lists, dicts, strings, nested), default DiffConfig"
    from nbdime.diffing.config import DiffConfig
    vals = [[], [0], [0, 1], [1, 0, 2], [[0], {'a': 0}], [{'a': 0}, {'a': 1}], {}, {'a': 0}, {'a': [0], 'b': 'x\n'}, {'a': {'k': 1}},
            {'b': 'x\ny\n', 'c': None}, '', 'x\ny\n', 'x\nz', 'x\r\ny']
    for a in vals:
        for b in vals:
            yield [copy.deepcopy(a), copy.deepcopy(b), '', DiffConfig()]


GENERATORS['nbdime.diffing.generic.diff'] = gen_diff


def gen_split_diffs():
    """(diffs, boundaries; ghosts A, lo, hi) for nbdime.merging.chunks.split_diffs_on_boundaries: well-formed diffs of small lists,
    boundary lists that contain 0, len(A), every begin/end of a removerange, and a varying subset of the other positions"""
    for obj, D in gen_patch_list():
        n = len(obj)
        need = {0, n}
        for e in D:
            if e.op == 'removerange':
                need |= {e.key, e.key + e.length}
        others = [x for x in range(n + 1) if x not in need]
        for mask in range(min(4, 2 ** len(others))):
            extra = {x for i, x in enumerate(others) if (mask >> i) & 1} if mask < 3 else set(others)
            bs = sorted(need | extra)
            lo = [bs.index(e.key) if e.op == 'removerange' else 0 for e in D]
            hi = [bs.index(e.key + e.length) if e.op == 'removerange' else 0 for e in D]
            yield [copy.deepcopy(D), list(bs), copy.deepcopy(obj), lo, hi]


GENERATORS['nbdime.merging.chunks.split_diffs_on_boundaries'] = gen_split_diffs
