# Kit C: merge chunks (nbdime/merging/chunks.py) -- the list machinery behind C06.
# Keys are qualified names of real functions in /repo; loop ordinals are in source order.

@contract("nbdime.merging.chunks.split_diffs_on_boundaries", properties=["C06"])
def split_diffs_on_boundaries(diffs: "Seq[E]", boundaries: "Seq[int]") -> "Seq[E]":
    # Splitting every removerange at the given boundaries does not change what the diff does: for every base list A the
    # split diff runs to the same output and the same cursor (hence applies to the same result).  lo[q] / hi[q] are ghost
    # witnesses: the positions in `boundaries` of the begin and the end of removerange q (make_merge_chunks puts every begin
    # and end into the boundary set).
    ghost(A="Seq[V]", lo="Seq[int]", hi="Seq[int]")
    requires(len(boundaries) >= 1 and boundaries[0] >= 0)
    requires(all(boundaries[i] < boundaries[j] for i in range(len(boundaries)) for j in range(i + 1, len(boundaries))))
    requires(wf_seq(diffs, len(A)))
    requires(len(lo) == len(diffs) and len(hi) == len(diffs))
    requires(all(implies(diffs[q].op == "removerange",
                         0 <= lo[q] and lo[q] < hi[q] and hi[q] < len(boundaries) and
                         boundaries[lo[q]] == diffs[q].key and boundaries[hi[q]] == diffs[q].key + diffs[q].length)
                 for q in range(len(diffs))))
    ensures(rout(A, result) == rout(A, diffs))
    ensures(rtake(A, result) == rtake(A, diffs))
    ensures(apply_seq(A, result) == apply_seq(A, diffs))
    ensures(sorted_b(result))
    with loop(1, index="k"):
        invariant(0 <= b and b < len(boundaries))
        invariant(all(implies(diffs[q].op == "removerange", b <= lo[q]) for q in range(k, len(diffs))))
        invariant(sorted_b(newdiffs._diff))
        invariant(rout(A, newdiffs._diff) == rout(A, diffs[:k]))
        invariant(rtake(A, newdiffs._diff) == rtake(A, diffs[:k]))
        invariant(all(ordered(newdiffs._diff[p], diffs[q]) for p in range(len(newdiffs._diff)) for q in range(k, len(diffs))))
        invariant(all(rtake(A, newdiffs._diff) <= diffs[q].key for q in range(k, len(diffs))))
    with loop(2):
        invariant(0 <= b and b <= lo[k])
        decreases(lo[k] - b)
    with loop(3):
        invariant(lo[k] <= b and b <= hi[k])
        invariant(sorted_b(newdiffs._diff))
        invariant(all(newdiffs._diff[p].key <= boundaries[b] for p in range(len(newdiffs._diff))))
        invariant(implies(b == lo[k], rout(A, newdiffs._diff) == rout(A, diffs[:k]) and rtake(A, newdiffs._diff) == rtake(A, diffs[:k])))
        invariant(implies(b > lo[k], rout(A, newdiffs._diff) == rout(A, diffs[:k]) + A[rtake(A, diffs[:k]):e.key] and
                          rtake(A, newdiffs._diff) == boundaries[b]))
        invariant(all(ordered(newdiffs._diff[p], diffs[q]) for p in range(len(newdiffs._diff)) for q in range(k + 1, len(diffs))))
        decreases(hi[k] - b)
