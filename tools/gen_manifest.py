#!/usr/bin/env python3
"""Regenerate /verif/MANIFEST.json from the table below (single source of truth for what is claimed)."""
import json, os
HERE = os.path.dirname(os.path.dirname(os.path.abspath(__file__)))

PROOF_L = ('the list and mapping differ/patcher chains and the type dispatchers (40 real functions and lemmas: builder append, diff_from_lcs, brute-force LCS, '
           'snake computation incl. the multilevel refinement, diff_lists, compute_diff_from_snakes, patch_list; MappingDiffBuilder, diff_dicts, patch_dict; '
           'diff, patch, validate_diff; the round trip patch(a, diff(a, b)) == b as a client-code lemma over the two contracts) are PROVED for all inputs from '
           'the current source by contract-based VCs (pyvc -> z3/cvc5), under realisable table contracts on the registered differs/predicates')
TRUST = ('Trusted: pyvc encoding assumptions (listed in evidence), SMT solvers, assumed contracts named in evidence, table contracts '
         'differs_ok / pred_exact as preconditions; bounded parts explore the stated small scope only and are never counted as proved.')
TECH_MIX = 'contract-based deductive verification (AST->VC->SMT) of the real functions + bounded run-time contracts'
TECH_B = 'bounded run-time contract on the public API (stand-in; no function of this property is yet under a discharged contract)'


def bounded(text, ref):
    return dict(category='exploration', text=text + ' Labelled bounded: a stand-in, not a proof.', design_ref=ref,
                note='Explores only the stated small scope (notebook grammar, edit scripts, strategy tables, seeds); recorded findings are listed in known_findings.json.',
                technique=TECH_B)


CLAIMS = {
 'C01': dict(category='other', design_ref='DESIGN.md 5/C01', note=TRUST, technique=TECH_MIX,
   text='Mixed: ' + PROOF_L + ' -- this is the generic machinery diff_notebooks is built on; the notebook-specific differs (multilevel snakes, '
        'output/mime/attachment differs, string flattening) are covered by a BOUNDED run-time contract; for the nbdiff --out file interface the delivery of the diff is PROVED '
        'path by path on nbdiffapp._handle_diff (every returning path that computed the diff dumps it once to the file opened on --out, or pretty-prints it once), the content of the '
        'file and nbpatch are covered by the BOUNDED run-time contract (real processes, two locales) with an '
        'independent implementation of the documented diff format as second oracle. Hence level other, not proof.'),
 'C02': dict(category='other', design_ref='DESIGN.md 5/C02', note=TRUST, technique=TECH_MIX,
   text='Mixed: ' + PROOF_L + '; the string differ/patcher (assumed contracts) are covered only by a BOUNDED run-time contract on the public API '
        'against an independent implementation of the documented format. Hence level other, not proof.'),
 'C03': bounded('Run-time contract "merge_notebooks returns normally" over notebook triples x strategy tables x text-merge helpers (git / diff3 / built-in, selected via PATH).', 'DESIGN.md 5/C03'),
 'C04': bounded('Run-time contract "merged notebook validates against nbformat\'s schema file for its declared minor" (jsonschema directly, not nbformat.validate) over the C03 space incl. mixed minors.', 'DESIGN.md 5/C04'),
 'C05': bounded('Run-time contracts for identity / one-sided adoption / agreement (notebooks x strategy tables, generic JSON) and role-swap symmetry (side-naming strategies swapped with the roles; same-position double inserts excluded).', 'DESIGN.md 5/C05'),
 'C06': dict(category='other', design_ref='DESIGN.md 5/C06, A4', note=TRUST, technique=TECH_MIX,
   text='Mixed: one function of the chunk machinery is PROVED for all inputs (nbdime.merging.chunks.split_diffs_on_boundaries: splitting removeranges at the chunk boundaries preserves '
        'the run of the diff, hence its result; index safety, the sanity assert, unreachability of the final raise, termination), together with the builder contracts it calls; the property '
        'itself (disjoint changes merge cleanly into both sets of changes) is decided by a BOUNDED by-construction oracle: per-cell ownership, actions and non-adjacent insertions, expected '
        'notebook built without nbdime, generic JSON dict/list cases, and real nbmerge / git-nbmergedriver processes (also under a non-UTF-8 locale).'),
 'C07': bounded('Line-set survival/provenance contracts and the same-line-rewrite flagging contract under the default strategy for each text-merge helper.', 'DESIGN.md 5/C07'),
 'C09': dict(category='other', design_ref='DESIGN.md 5/C09, A4', note='The structural part is syntactic (recognised code shapes only; an unrecognised shape makes no statement) and rests on the stated semantics of Python list/tuple comparison and sorted(); everything else is bounded.',
   technique='structural obligations on the sort key and the sorting call (discharged on the current source) + bounded run-time contracts for ordering, schema, JSON and losslessness',
   text='Mixed: the ordering clause is reduced to obligations on the real code -- validated() returns sorted(self.decisions, key=_sort_key, reverse=True); _sort_key is an elementwise map of common_path '
        '(one append per path element, built from that element alone, tuples led by a string, list indices keyed by (\'\', -index)) -- from which deeper paths and higher indices sort first by the meaning of list comparison. '
        'The web handlers keep no per-application state besides the constant merge arguments (frame obligations over application-lived state). '
        'Ordering (prefix_before), merge/diff schema validation, JSON round trip, apply_decisions==merged, choose-local / choose-remote reproduction under the web tool strategy, and "the decisions served by '
        'POST /api/merge are the library\'s for the files as they are on disk" (web sessions incl. an input saved again between two requests) are BOUNDED.'),
 'C10': bounded('Frame obligations (no shared mutable default / module state behind the strategy tables, discharged syntactically on the current sources) + use-x strategies (uniform and mixed merge/input/output, transients on/off) against the open merge with every conflicted decision re-labelled to the side its path selects; no-fabricated-line clause.', 'DESIGN.md 5/C10'),
 'C11': dict(category='other', design_ref='DESIGN.md 5/C11', note=TRUST, technique=TECH_MIX,
   text='Mixed: wf_seq / wf_map are discharged postconditions of every list / dict differ under contract, and deep well-formedness wf_v(a, diff(a, b)) (every nested '
        'patch diff well formed for the item it patches) is a discharged postcondition of the dispatcher diff (all inputs; strings assumed); for notebook diffs and the diffs inside merge decisions deep well-formedness, schema validity and JSON round trip of every generic/notebook diff and of the diffs inside merge '
        'decisions are covered by a BOUNDED run-time contract.'),
 'C13': dict(category='other', design_ref='DESIGN.md 5/C13, A4', note='Frame part covers the 36 real functions under contract only (generic diff/patch chain); the public notebook-level calls are covered by the bounded snapshots.',
   technique='frame obligations from the value model of the contract verifier (a write through a parameter or an alias of one fails by construction) + bounded before/after snapshot contract',
   text='Mixed: for every real function under contract (diff, patch, diff_lists, diff_dicts, patch_list, patch_dict, the builders, the snake and LCS functions) the VCs regenerated from the current '
        'source contain one failing frame obligation per write through a list/dict/set parameter or a local alias of one, and field writes are confined to the declared modifies sets: none arises (54 parameters). '
        'The one place where the notebook differ edits its arguments (diff_single_outputs detaches `data`) carries a Tier E path obligation: on each of its returning paths every pop is followed by '
        'storing the popped value back. For the public calls (diff_notebooks, patch_notebook, merge_notebooks, apply_decisions, pretty_print_*) a BOUNDED before/after canonical-JSON snapshot of every argument decides.'),
 'C14': dict(category='other', design_ref='DESIGN.md 5/C14, A4', note=TRUST if False else 'Trusted: Tier E value abstraction and effect table (listed in evidence); the bounded part explores the stated small scope only.',
   technique='path postconditions on set_notebook_diff_targets + call-site dispatch obligations (proved) ; bounded run-time contract with the category table as oracle',
   text='Mixed: the category->path table and key filters that set_notebook_diff_targets installs are PROVED on all 16 paths, and the dispatch lemma (recursive differ calls use config.differs[subpath] and hand on path/config) '
        'is checked at every call site; that the resulting diff hides exactly the ignored categories (64 subsets x negative flags / positive flags / Ignore mapping) is BOUNDED.'),
}

TECH_E = 'contract-based deductive verification: path postconditions over the real AST (Tier E effect log) discharged by z3 + bounded monitor as replay harness'
TRUST_E = ('Trusted: the effect table (assumed contracts of callees and external libraries, each listed in the evidence), the Tier E value abstraction (opaque terms, '
           'interpreted truthiness/equality), loop abstraction to 0..2 iterations for unknown iterables; the bounded monitor can refute these assumptions but not prove them.')

CLAIMS.update({
 'C08': dict(category='proof', design_ref='DESIGN.md 5/C08, Appendix G', note=TRUST_E, technique=TECH_E,
   text='Every control-flow path of the real main_merge and mergedriver.main, including the exceptional edge after every call, is enumerated from the current source and checked '
        'against path postconditions (status 0 iff no conflicted decision, inputs read from the three given paths, no output effect before the merge returned, one complete write '
        'of the returned notebook, no swallowed exception, driver writes in place of the local file and returns main_merge\'s status). All obligations discharged. A fault-injection '
        'run of the real mains is attached as bounded cross-check / replay harness.'),
 'C12': dict(category='other', design_ref='DESIGN.md 5/C12', note='Frame analysis is syntactic (alias rules listed in evidence); history test is bounded.', technique='frame contracts over module-level state (Kit F) + bounded history-vs-fresh-interpreter comparison',
   text='Mixed: a frame contract over every module-level mutable object, every write / default-insert / history-dependent read site and every mutable default argument found in the current '
        'sources (one obligation each, all discharged) shows that no undeclared global state exists and that the declared state is only touched by the declared writers; the value-level '
        'same contract covers state that lives as long as the web application (tornado settings, application attributes, start-up parameters reached through handler attributes); the value-level '
        'claim (results equal those of a fresh interpreter / a fresh server) is covered by a BOUNDED comparison of call histories with fresh interpreters and of web sessions with fresh servers.'),
 'C16': dict(category='other', design_ref='DESIGN.md 5/C16', note=TRUST_E, technique=TECH_E + ' (empty-diff and ESC-freedom clauses); bounded run-time contract for never-fails / prints-something',
   text='Mixed: the empty-diff clause and the ESC-freedom dataflow (with colour off the git command is given --no-color, so the user\'s git configuration cannot switch colour back on; syntax highlighting only under use_color; ESC literals '
        'confined to col_const[True]) are PROVED as path / literal obligations on the real code; "never fails" and "prints something for every visible diff" are BOUNDED.'),
 'C17': dict(category='proof', design_ref='DESIGN.md 5/C17', note=TRUST_E + ' CONDITIONAL on the assumed GitPython contract; get_repo is outside the subset (bounded only).', technique=TECH_E,
   text='Path postconditions on the real pushd, _get_diff_entry_stream and changed_notebooks (2500+ obligations incl. exceptional edges and generator close), all discharged: cwd restored on '
        'every exit, working-tree access only inside pushd(repo_dir), exactly the pairs of one diff entry yielded, no directory context open at a yield. Conditional on the assumed '
        'GitPython contract; a real-git monitor over random repositories is attached as bounded cross-check.'),
 'C18': dict(category='proof', design_ref='DESIGN.md 5/C18', note=TRUST_E + ' CONDITIONAL on the assumed semantics of `git config`.', technique=TECH_E,
   text='Path postconditions on the 8 real enable/disable functions over the git-command effect log, all discharged: scope flag on every invocation exactly when requested, only own '
        'keys/sections written, merge.tool/diff.guitool unset only under the path condition that the value read in the same scope is "nbdime", attributes file append-only with exactly '
        'one newline-led rule guarded by a search for an existing *.ipynb rule carrying the driver attribute (the lookup helper has a bounded run-time contract). Conditional on `git config` '
        'semantics, monitored against real git by the bounded module (state graph per process, mixed-scope sessions, repository-local core.attributesfile).'),
 'C19': dict(category='other', design_ref='DESIGN.md 5/C19', note=TRUST_E, technique=TECH_E + ' + finite per-entry-point obligations; bounded executable model of the documented rule',
   text='Mixed: layering order of build_config (files with cwd first -> all defaults -> sections, in reversed-MRO order) and the most-specific-first order of the documented sections for each '
        'of the 11 entry points are PROVED from the current source; recursive_update\'s merge semantics and the flag/default interaction of the parsers are BOUNDED (executable model of the documented rule).'),
 'C20': dict(category='proof', design_ref='DESIGN.md 5/C20', note=TRUST_E + ' CONDITIONAL on the assumed tornado/nbformat contracts; result clauses inherit C01 (diff patches base into remote) and C12 (history independence).', technique=TECH_E,
   text='Path postconditions on the real API handlers, all discharged: store destination is a term over server parameters only, refusal before any effect without an output file, file opened only '
        'after successful serialisation, close honoured only under closable is True, diff/merge responses are the library results for this request\'s notebooks, stream arguments rewound, '
        'params never written. An in-process tornado harness is attached as bounded cross-check.'),
})

NOT_APPLICABLE = {
 'C15': 'no TypeScript toolchain in the sandbox (node_modules emptied): the TS patch/decision code can be neither parsed nor run; a contract on a transcription would verify a model (DESIGN.md 5/C15)',
}


def main():
    props = [json.loads(l) for l in open(os.path.join(HERE, 'properties.jsonl'))]
    checks = []
    for p in props:
        pid = p['id']
        if pid not in CLAIMS:
            continue
        c = CLAIMS[pid]
        checks.append({
            'property_id': pid,
            'quick_cmd': './check %s --tier quick' % pid,
            'thorough_cmd': './check %s --tier thorough' % pid,
            'evidence_file': '/verif/evidence/%s.json' % pid,
            'replay_cmd_template': './check %s --replay {path}' % pid,
            'engine': 'pyvc',
            'level_claimed': {'category': c['category'], 'text': c['text'], 'design_ref': c['design_ref']},
            'level_note': c['note'],
            'technique': c['technique'],
        })
    na = []
    for p in props:
        pid = p['id']
        if pid in CLAIMS:
            continue
        na.append({'property_id': pid, 'reason': NOT_APPLICABLE.get(pid, 'check not built yet (work in progress)')})
    m = {
        'version': 1,
        'setup_cmd': './setup.sh',
        'hooks': {
            'guard': 'NBDIME_VERIF',
            'enable': 'none needed: contracts are sidecar files under /verif/contracts keyed by qualified function name; no file of /repo is instrumented (NBDIME_VERIF is exported by ./check but read by nothing in /repo)',
            'baseline_off_cmd': 'python3 /verif/tools/baseline.py /repo',
            'source_commits': [],
            'add_only': True,
        },
        'engines': [{
            'name': 'pyvc', 'path': '/verif/pyvc',
            'serves_properties': sorted(CLAIMS),
            'kind_free_text': 'contract-based deductive verifier for a Python subset: sidecar contracts + VC generation from the real AST of /repo on every run, discharged by z3 5.1 (API), z3 4.8.12 and cvc5 1.0.3 (CLI); run-time form of the same contracts for refutation, CPython cross-check and bounded stand-ins',
        }],
        'checks': checks,
        'notes': 'Repairs of genuine defects are unguarded fix: commits in /repo, listed in /verif/known_findings.json (fixed) together with the recorded findings.',
        'not_applicable': na,
    }
    json.dump(m, open(os.path.join(HERE, 'MANIFEST.json'), 'w'), indent=1)
    print('checks:', [c['property_id'] for c in checks], 'not_applicable:', len(na))


if __name__ == '__main__':
    main()
