#!/usr/bin/env python3
"""Regenerate /verif/MANIFEST.json from the table below (single source of truth for what is claimed)."""
import json, os
HERE = os.path.dirname(os.path.dirname(os.path.abspath(__file__)))

CLAIMS = {
 'C02': dict(
   category='other',
   text=('Mixed: the list differ/patcher chain (18 real functions incl. 3 lemmas: builder append, diff_from_lcs, brute-force LCS, '
         'diff_lists, patch_list) is PROVED for all inputs from the current source by contract-based VCs (pyvc -> z3/cvc5); '
         'the dict and string differs and the type dispatchers are covered only by a BOUNDED run-time contract on the public API '
         'against an independent implementation of the documented format. Hence level other, not proof.'),
   design_ref='DESIGN.md 5/C02, Appendix F',
   note=('Trusted: pyvc encoding assumptions (listed in evidence), SMT solvers, assumed contracts named in evidence, '
         'table contracts differs_ok / pred_exact as preconditions; bounded part explores the stated small scope only.'),
   technique='contract-based deductive verification (AST->VC->SMT) of the real functions + bounded run-time contracts'),
}

NOT_APPLICABLE = {
 'C15': 'no TypeScript toolchain in the sandbox (node_modules emptied): the TS patch/decision code can be neither parsed nor run; a contract on a transcription would verify a model (DESIGN.md 5/C15)',
}


def main():
    props = [json.loads(l) for l in open(os.path.join(HERE, 'properties.jsonl'))]
    checks = []
    for p in props:
        pid = p['id']
        if pid not in CLAIMS:
            continue
        c = CLAIMS[pid]
        checks.append({
            'property_id': pid,
            'quick_cmd': './check %s --tier quick' % pid,
            'thorough_cmd': './check %s --tier thorough' % pid,
            'evidence_file': '/verif/evidence/%s.json' % pid,
            'replay_cmd_template': './check %s --replay {path}' % pid,
            'engine': 'pyvc',
            'level_claimed': {'category': c['category'], 'text': c['text'], 'design_ref': c['design_ref']},
            'level_note': c['note'],
            'technique': c['technique'],
        })
    na = []
    for p in props:
        pid = p['id']
        if pid in CLAIMS:
            continue
        na.append({'property_id': pid, 'reason': NOT_APPLICABLE.get(pid, 'check not built yet (work in progress)')})
    m = {
        'version': 1,
        'setup_cmd': './setup.sh',
        'hooks': {
            'guard': 'NBDIME_VERIF',
            'enable': 'none needed: contracts are sidecar files under /verif/contracts keyed by qualified function name; no file of /repo is instrumented (NBDIME_VERIF is exported by ./check but read by nothing in /repo)',
            'baseline_off_cmd': 'python3 /verif/tools/baseline.py /repo',
            'source_commits': [],
            'add_only': True,
        },
        'engines': [{
            'name': 'pyvc', 'path': '/verif/pyvc',
            'serves_properties': sorted(CLAIMS),
            'kind_free_text': 'contract-based deductive verifier for a Python subset: sidecar contracts + VC generation from the real AST of /repo on every run, discharged by z3 5.1 (API), z3 4.8.12 and cvc5 1.0.3 (CLI); run-time form of the same contracts for refutation, CPython cross-check and bounded stand-ins',
        }],
        'checks': checks,
        'notes': 'Repairs of genuine defects are unguarded fix: commits in /repo, listed in /verif/known_findings.json (fixed) together with the recorded findings.',
        'not_applicable': na,
    }
    json.dump(m, open(os.path.join(HERE, 'MANIFEST.json'), 'w'), indent=1)
    print('checks:', [c['property_id'] for c in checks], 'not_applicable:', len(na))


if __name__ == '__main__':
    main()
