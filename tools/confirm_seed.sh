#!/bin/sh
# usage: tools/confirm_seed.sh <src_dir_with patch.diff demo.py meta.json> <seed_id>
# Confirms a seeded change in a scratch worktree of /repo (outside /repo and /verif) and files it under
# /verif/seeded/<seed_id>/ only if: patch applies, pinned suite still passes, demo fails with / passes without.
set -u
SRC=$1; ID=$2
WT=$(mktemp -d /tmp/seedwt.XXXXXX); rmdir "$WT"
git -C /repo worktree add -q --detach "$WT" HEAD || exit 2
res=fail
if git -C "$WT" apply --check "$SRC/patch.diff" 2>/dev/null; then
  ( cd "$WT" && PYTHONPATH="$WT" timeout 600 /venv/bin/python "$SRC/demo.py" >/tmp/seed_clean.out 2>&1 ); clean=$?
  git -C "$WT" apply "$SRC/patch.diff"
  ( cd "$WT" && PYTHONPATH="$WT" timeout 600 /venv/bin/python "$SRC/demo.py" >/tmp/seed_mut.out 2>&1 ); mut=$?
  python3 /verif/tools/baseline.py "$WT" > /tmp/seed_base.out 2>&1; base=$?
  echo "$ID: demo_clean_exit=$clean demo_mutated_exit=$mut baseline_exit=$base $(head -1 /tmp/seed_base.out)"
  if [ $clean -eq 0 ] && [ $mut -ne 0 ] && [ $base -eq 0 ]; then res=ok; fi
else
  echo "$ID: patch does not apply"
fi
git -C /repo worktree remove --force "$WT"
if [ $res = ok ]; then
  mkdir -p /verif/seeded/$ID
  cp "$SRC/patch.diff" "$SRC/demo.py" /verif/seeded/$ID/
  python3 - "$SRC/meta.json" "/verif/seeded/$ID/meta.json" "$(tail -3 /tmp/seed_mut.out | tr '\n' ' ' | cut -c1-400)" <<'PY'
import json,sys
try: m=json.load(open(sys.argv[1]))
except Exception: m={}
m['confirmed']={'by':'tools/confirm_seed.sh in a scratch worktree of /repo HEAD','demo_clean_exit':0,'demo_mutated_nonzero':True,'baseline_missing':0,'demo_mutated_tail':sys.argv[3]}
json.dump(m,open(sys.argv[2],'w'),indent=1)
PY
  echo "  filed /verif/seeded/$ID"
else
  echo "  NOT filed"
fi
