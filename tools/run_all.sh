#!/bin/sh
# run every registered quick check on the unchanged tree; print exit codes
cd /verif
for c in "$@"; do
  s=$(date +%s); ./check $c --tier ${TIER:-quick} > /tmp/scratch/$c.out 2>&1; rc=$?; e=$(date +%s)
  echo "$c exit=$rc $((e-s))s $(grep -c KNOWN-FINDING /tmp/scratch/$c.out) known"
  grep -A1 "VIOLATION\|DEFECT" /tmp/scratch/$c.out | cut -c1-300 | head -6
done
