#!/bin/sh
# usage: tools/mut.sh <file-relative-to-repo> <sed-expr> <qualname>...
# applies the sed expression to a scratch copy of /repo/nbdime and runs pyvc on the given functions
set -e
D=$(mktemp -d /tmp/pyvc-mut.XXXXXX)
cp -r /repo/nbdime "$D/"
f=$1; shift; e=$1; shift
sed -i "$e" "$D/$f"
if cmp -s "$D/$f" "/repo/$f"; then echo "MUTATION DID NOT APPLY"; rm -rf "$D"; exit 2; fi
cd /verif && NBDIME_REPO=$D PYTHONPATH=/verif .venv/bin/python -m pyvc.cli "$@" 2>&1 | grep -v "^   unsat" || true
rm -rf "$D"
